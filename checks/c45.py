"""C45 -- command-line arguments reach commands unchanged.

A probe command ``probe.cmd(*args: str)`` is registered on a real CommandManager (real master from
taddons.context()).  Two monitors, both at the boundary "arguments received by the executed command":

* quoted_roundtrip: for generated strings s1..sn the line ``probe.cmd <sep> quote(s1) <sep> ...`` (quote =
  mitmproxy.command_lexer.quote, the console's quoting rule) is executed with CommandManager.execute; the
  probe must receive exactly (s1..sn).
* raw_split: a line is assembled from raw tokens (bare words, '...' / "..." strings that may contain
  whitespace, words with an embedded quoted region, unterminated quotes) joined by 1-3 blanks/tabs; an
  independent splitter (vf/ref/c45_cmdline.split_ref: split at whitespace outside quotes) says how many
  arguments there are and, for bare words and fully quoted tokens, what they are.

* ui_history (console prompt): the quote-built line is put into a real CommandEdit/CommandBuffer on the same master,
  a random history of key presses that leaves the text identical is applied (tab / shift-tab completion at the end
  or in the middle followed by retyping the cut-off rest, cursor movement, backspace + retype, <up>/<down> walks through
  the real CommandHistory addon that end at the newest position), the prompt text must still be the line, then the buffer text
  is executed on the master's CommandManager: the probe must receive exactly the original arguments, and
  parse_partial/execute of that text must give the same result on a fresh CommandManager that never saw the UI
  operations (no dependence on earlier operations on the same text).

* prompt (enter in the console prompt): the text of a real CommandEdit (typed key by key or pre-filled with the quote-built
  line) is handed to the real ActionBar.execute_command (statusbar.py: commands.history.add, then CommandExecutor) with the
  real CommandHistory addon writing to a history file in a scratch confdir (option command_history on, the default).
  Between "enter" and "execute" the history write is made to fail in every way: naturally (lone surrogates are not
  encodable, confdir missing, history path is a directory) and by fault injection at pathlib.Path.open (OSError
  subclasses, closed file -> ValueError, UnicodeEncodeError, RuntimeError, LookupError, failing close).  Oracle
  unchanged: the probe receives exactly the typed arguments and nothing escapes from the enter handler.  A fixed
  matrix (7 argument lists x 14 fault kinds) runs first on worker 0; worker 0 also starts two child processes
  (vf/gen/c45_prompt_child.py: a real headless ConsoleMaster, console.command -> prompt -> <enter>), one in UTF-8
  mode and one with LC_ALL=C PYTHONUTF8=0 where every non-ASCII argument makes the history write fail.  The same
  command lines are also bound to a key in a real Keymap and run by Keymap.handle (the other user of CommandExecutor).
  Argument texts include every blank that str.strip() knows but the lexer does not, at the edges of / as whole arguments.
  Lines always start with the command name: what a blank in front of the command name means is not stated by the property.

A violation is classified by comparing what the probe received with a model of the known defect mechanisms
(vf/ref/c45_cmdline.predict_defects); if the model does not reproduce the observation the mechanism is None.
"""
import errno
import json
import locale
import os
import pathlib
import shutil
import subprocess
import tempfile
import types

from mitmproxy import command
from mitmproxy import command_lexer
from mitmproxy import exceptions
from mitmproxy.test import taddons

from vf.core import Inconclusive
from vf.ref import c45_cmdline as ref

PROPERTY = "C45"
LEVEL = "exploration"
ENGINE = "direct"
TECHNIQUE = "differential run of the real command executor against a reference splitter / identity"
BUDGET = {"quick": (8_000, 16), "thorough": (400_000, 200)}
WORKERS = {"quick": 2, "thorough": 16}
REQUIRED = ["quoted_roundtrip", "raw_split.count", "raw_split.value", "ui_history.text_preserved", "ui_history.execute", "ui_history.fresh_manager_agrees",
            "prompt.execute", "prompt.keybinding_execute", "prompt.history_write_fails_non_oserror", "prompt.history_write_fails_oserror", "prompt.history_written",
            "prompt.arg_edge_is_unicode_blank", "prompt.last_arg_ends_in_unicode_blank"]
RULE = (
    "case = one command line for a probe command taking *args: str (ui: also a fixed two-argument probe). 52%: 1-4 random strings (len<=8 pieces) over "
    "{letters, space, tab, CR, LF, ', \", backslash, 2-char escapes like \\n \\x22 \\u00e9, malformed \\x/\\u, e-acute, astral, "
    "VT/NBSP/ideographic space, empty} each quoted with command_lexer.quote and joined by 1-3 blanks/tabs; 25%: raw tokens "
    "(bare / quoted / word+quoted / unterminated) joined likewise; 15%: a quote-built line edited in a real console CommandEdit by "
    "1-8 text-preserving key-press steps (tab, shift-tab, left/right, home/end, backspace+retype, tab in the middle+retype, up / ctrl-p "
    "and down / ctrl-n walks through the real command-history addon with empty, unrelated or matching history) and then "
    "executed from the buffer, compared also with a fresh CommandManager; 8%: a typed or pre-filled prompt text (arguments incl. lone "
    "surrogates, astral and non-ASCII text) submitted through the real ActionBar.execute_command with the history-file write failing "
    "in one of 14 ways (none / natural UnicodeEncodeError / missing confdir / directory in the way / injected OSError subclasses, "
    "ValueError from a closed file, UnicodeEncodeError, RuntimeError, LookupError, failing close); a fixed matrix of these and two "
    "headless ConsoleMaster child processes (UTF-8 and C locale) run first on worker 0; 45% of these carry an argument whose first/last "
    "characters (or all) are blanks unknown to the lexer (VT FF FS GS RS US NEL NBSP U+1680 U+2000-200A U+2028/9 U+202F U+205F U+3000) as "
    "last/first/only/middle argument, 30% go through a key binding (real Keymap.handle) instead of <enter>, with or without the trailing "
    "space console.command appends; fixed matrix 29 blanks x 6 argument lists x {enter, key binding} first on worker 0. distinct = (workload, #args, set of character-class "
    "features over all args, separator kind / set of key-press step kinds); non-trivial = some argument is empty or contains whitespace, a quote, a "
    "backslash or a non-ASCII character (quoted workload) / some token is quoted or mixed (raw workload)"
)
ASSUMPTIONS = [
    "'the console's quoting rule' is mitmproxy.command_lexer.quote (what the console uses to build command lines)",
    "'unquoted whitespace' means space/tab/CR/LF outside a '...' or \"...\" region, a quote character opening a region wherever it occurs",
    "the executed command declares its arguments as str (the type used by almost all console commands)",
    "whatever happens to the command-history file between <enter> and execution (any Exception class) must not keep the typed arguments from the command",
    "console key presses that leave the prompt text identical (completion without candidates, cursor movement, delete+retype) must not "
    "change what executing that text passes to the command",
]
LEVEL_TEXT = (
    "Random exploration of argument strings and token shapes against the real CommandManager.execute path with a probe "
    "command; every executed line is judged. Exploration only: the string space is unbounded and only sampled."
)
LEVEL_NOTE = "Trusted: the reference splitter in vf/ref/c45_cmdline.py (30 lines) and Python string equality."

PIECES = [
    "a", "b", "x", "Z", "0", "41", "-", "=", ".", "/",
    " ", " ", "\t", "\n", "\r",
    "'", '"', "\\", "\\\\",
    "\\n", "\\t", "\\x22", "\\x41", "\\u00e9", "\\101", "\\'", '\\"', "\\N{DASH}",
    "\\x", "\\xZ1", "\\u12", "\\U0011",
    "é", "\U0001f600", "中",
    "\x0b", "\x0c", " ", "　", " ", "\x85",
]
W_PIECES = [6, 4, 3, 2, 2, 2, 2, 2, 2, 2, 8, 4, 4, 2, 1, 6, 6, 5, 2, 2, 1, 2, 1, 1, 1, 1, 1, 1, 1, 1, 1, 1, 3, 2, 1, 1, 1, 1, 1, 1, 1]
assert len(PIECES) == len(W_PIECES)
PLAIN = ["a", "b", "x", "Z", "0", "-", "=", ".", "/", "é", "\U0001f600"]
BACKSLASHY = ["C:", "\\new", " folder", "\\table.txt", "\\", "\\\\", "\\x41", "\\101", "\\u00e9", "\\N{BULLET}", "\\d+", "\\.", "a", "\\temp", "\\r", "dir\\"]


def features(s: str) -> set:
    f = set()
    if s == "":
        f.add("empty")
    if " " in s:
        f.add("sp")
    if "\t" in s:
        f.add("tab")
    if "\n" in s or "\r" in s:
        f.add("nl")
    if "'" in s:
        f.add("sq")
    if '"' in s:
        f.add("dq")
    if "'" in s and '"' in s:
        f.add("both")
    if "\\" in s:
        f.add("bs")
        if ref.has_escape(s):
            f.add("badesc" if ref.has_malformed_escape(s) else "esc")
    if any(ord(c) > 127 for c in s):
        f.add("uni")
    if any(ord(c) > 0xFFFF for c in s):
        f.add("astral")
    if any(c.isspace() and c not in ref.WS for c in s):
        f.add("uws")
    return f


def gen_string(r) -> str:
    k = r.choice([0, 1, 1, 2, 3, 4, 6, 8])
    if r.random() < 0.25:
        return "".join(r.choice(PLAIN) for _ in range(max(k, 1)))
    return "".join(r.choices(PIECES, W_PIECES, k=k))


def gen_sep(r) -> str:
    return "".join(r.choice(" \t") if r.random() < 0.3 else " " for _ in range(r.choice([1, 1, 1, 2, 3])))


def gen_raw_token(r):
    """-> (token text, kind). Never contains unquoted whitespace, never empty."""
    kind = r.choices(["bare", "dq", "sq", "mixed", "bare_bs"], [4, 4, 3, 2, 1])[0]

    def word(n=None):
        return "".join(r.choice(PLAIN) for _ in range(n or r.randint(1, 4)))

    def inner(q):
        pcs = [p for p in PIECES if q not in p]
        if r.random() < 0.7:  # mostly without backslashes so that plain splitting is what is observed
            pcs = [p for p in pcs if "\\" not in p and p not in ("\t", "\x0b", "\x0c", " ", "　", " ", "\x85")]
        return "".join(r.choice(pcs) for _ in range(r.choice([0, 1, 2, 3, 5])))

    if kind == "bare":
        return word(), kind
    if kind == "bare_bs":
        return word(1) + r.choice(["\\", "\\n", "\\x41", "\\\\"]) + word(1), kind
    if kind == "dq":
        return '"' + inner('"') + '"', kind
    if kind == "sq":
        return "'" + inner("'") + "'", kind
    q = r.choice("'\"")
    shape = r.choice(["wq", "qw", "wqw", "qq"])
    body = q + inner(q) + q
    if shape == "wq":
        return word() + body, kind
    if shape == "qw":
        return body + word(), kind
    if shape == "wqw":
        return word() + body + word(), kind
    q2 = r.choice("'\"")
    return body + q2 + inner(q2) + q2, kind


class Probe:
    def __init__(self):
        self.calls = []

    def __call__(self, *args: str) -> None:
        self.calls.append(args)


def add_probes(cm, probe):
    def probe_cmd(*args: str) -> None:
        probe(*args)

    def probe_two(a: str, b: str) -> None:
        probe(a, b)

    cm.add("probe.cmd", probe_cmd)
    cm.add("probe.two", probe_two)


def make_manager():
    tctx = taddons.context()
    tctx.__enter__()
    cm = command.CommandManager(tctx.master)
    probe = Probe()
    add_probes(cm, probe)
    add_probes(tctx.master.commands, probe)  # the manager the console prompt (CommandBuffer) talks to
    # the real command history addon (<up>/<down> in the prompt talk to it); no history file is written
    from mitmproxy.addons import command_history

    ch = command_history.CommandHistory()
    tctx.master.addons.add(ch)
    tctx.options.update(command_history=False)
    HISTORY["addon"] = ch
    return tctx, cm, probe


HISTORY = {"addon": None}


def reset_history(entries):
    """Fresh history state for one case (the entries go in through the addon's own command)."""
    ch = HISTORY["addon"]
    ch.history = []
    ch.set_filter("")
    for e in entries:
        ch.add_command(e)


SIZE = (80,)
UI_STEPS = ["tab", "shift tab", "tab tab", "left-right", "home-end", "backspace-retype", "mid-tab-retype", "delete-retype", "up", "up-down", "up-down", "down-after-up"]


def ui_history(r, edit, line, first_arg_pos, n_matching=0):
    """Apply 1-8 key-press steps each of which leaves the prompt text identical. Returns the step kinds used.
    n_matching: number of history entries that start with the line (then a lone <up> shows one of them)."""
    kinds = []
    n = len(line)
    filter_active = False
    for _ in range(r.choice([1, 1, 2, 3, 5, 8])):
        k = r.choice(UI_STEPS)
        kinds.append(k)
        if k in ("tab", "shift tab"):
            edit.keypress(SIZE, k)
        elif k == "tab tab":
            edit.keypress(SIZE, "tab")
            edit.keypress(SIZE, r.choice(["tab", "shift tab"]))
        elif k == "left-right":
            m = r.randint(1, min(6, n))
            for _ in range(m):
                edit.keypress(SIZE, r.choice(["left", "ctrl b"]))
            for _ in range(m):
                edit.keypress(SIZE, r.choice(["right", "ctrl f"]))
        elif k == "home-end":
            edit.keypress(SIZE, r.choice(["home", "ctrl a"]))
            edit.keypress(SIZE, r.choice(["end", "ctrl e"]))
        elif k == "up" and n_matching == 0:
            # no history entry starts with the prompt text: the prompt keeps its text
            edit.keypress(SIZE, r.choice(["up", "ctrl p"]))
            filter_active = True
        elif k in ("up", "up-down"):
            j = r.randint(1, 3)
            for _ in range(j):
                edit.keypress(SIZE, r.choice(["up", "ctrl p"]))
            for _ in range(j):  # back down to the text the history walk started from
                edit.keypress(SIZE, r.choice(["down", "ctrl n"]))
            filter_active = True
        elif k == "down-after-up":
            if filter_active:  # at the newest position <down> re-displays the text the walk started from
                edit.keypress(SIZE, r.choice(["down", "ctrl n"]))
        elif k in ("backspace-retype", "delete-retype", "mid-tab-retype"):
            if n <= first_arg_pos:
                continue
            pos = r.randint(first_arg_pos + 1, n)  # cursor position inside the argument part
            back = min(n - pos, 10)
            pos = n - back
            for _ in range(back):
                edit.keypress(SIZE, "left")
            cur = edit.cbuf.cursor  # where the cursor really is
            if k == "backspace-retype" and cur > first_arg_pos:
                edit.keypress(SIZE, "backspace")
                edit.keypress(SIZE, line[cur - 1])
            elif k == "delete-retype" and cur < n:
                edit.keypress(SIZE, "delete")
                edit.keypress(SIZE, line[cur])
            elif k == "mid-tab-retype":
                edit.keypress(SIZE, r.choice(["tab", "shift tab"]))  # completes text[:cursor]; what follows the cursor may be cut off
                done = edit.get_edit_text()
                if done != line:
                    if not line.startswith(done):
                        return kinds  # completion changed the text: caller sees text != line
                    edit.keypress(SIZE, "end")
                    for ch in line[len(done):]:
                        edit.keypress(SIZE, ch)
        edit.keypress(SIZE, r.choice(["end", "ctrl e"]))  # every step ends with the cursor at the end of the text
    return kinds


def parse_snapshot(cm, text):
    parts, remaining = cm.parse_partial(text)
    return [(p.value, getattr(p.type, "__name__", str(p.type)), p.valid) for p in parts], [str(x) for x in remaining]


def execute(cm, probe, line):
    """-> (received tuple | None, exception | None)"""
    probe.calls.clear()
    try:
        cm.execute(line)
    except exceptions.CommandError as e:
        return None, e
    if len(probe.calls) != 1:
        raise Inconclusive(f"probe called {len(probe.calls)} times")
    return tuple(probe.calls[0]), None


def judge(ctx, monitor, line, expected, received, exc, extra=None):
    """expected: list of str|None (None = value unspecified, only the count is). Reports violations."""
    ok = exc is None and received is not None and len(received) == len(expected) and all(e is None or e == g for e, g in zip(expected, received))
    if ok:
        return True
    # ---- classification: does the model of the known defects reproduce what was observed?
    mechs = None
    for pred, flags, raises in ref.predict_defects(line):
        if exc is not None:
            if raises:  # the model predicts that a malformed \x / \u / \N escape makes argument conversion fail
                mechs = {"str-argument-malformed-backslash-escape-rejected"} | (flags & {"tab-expanded-to-spaces"})
                break
        elif not raises and received is not None and list(received) == pred[1:]:
            mechs = flags
            break
    witness = {"line": line, "expected": expected, "received": received, "exc": repr(exc) if exc else None, **(extra or {})}
    if not mechs:
        ctx.violation(f"{monitor}-differs", witness, None)
    else:
        for m in sorted(mechs):
            ctx.violation(f"{monitor}-differs", witness, m)
    return False


def case_ui(ctx, r, tctx, probe):
    from mitmproxy.tools.console.commander import commander

    master_cm = tctx.master.commands
    two = r.random() < 0.25
    def gen_arg():
        k = r.random()
        if k < 0.45:
            return gen_string(r)
        if k < 0.6:  # texts with backslash sequences that look like escapes (paths, regexes)
            return "".join(r.choice(BACKSLASHY) for _ in range(r.choice([1, 2, 3, 5])))
        return "".join(r.choice(PLAIN + [" ", "'", '"']) for _ in range(r.choice([0, 1, 2, 4])))

    args = [gen_arg() for _ in range(2 if two else r.choice([1, 1, 2, 3, 4]))]
    cmd = "probe.two" if two else "probe.cmd"
    sep = " " if r.random() < 0.8 else gen_sep(r)
    line = sep.join(command_lexer.quote(x) for x in [cmd, *args])  # what console.command does to pre-fill the prompt
    # command history: empty / unrelated entries / entries that start with the prompt text
    hk = r.choice(["empty", "empty", "unrelated", "unrelated", "matching", "mixed"])
    entries = []
    if hk in ("unrelated", "mixed"):
        entries += [r.choice(["view.flows.resolve @all", "set anticache true", "probe.cmd other\\n", "probe.two a b", "x" + line])  for _ in range(r.choice([1, 2, 4]))]
    if hk in ("matching", "mixed"):
        entries += [line + r.choice(["", " more", "x"]) for _ in range(r.choice([1, 2, 3]))]
        r.shuffle(entries)
    reset_history(entries)
    n_matching = sum(e.startswith(line) for e in entries)
    edit = commander.CommandEdit(tctx.master, line)
    kinds = ctx.guard(ui_history, r, edit, line, len(cmd), n_matching, what="ui keypress history")
    f = set().union(*(features(a) for a in args))
    if kinds is None:
        ctx.case(("ui", "exception"), nontrivial=True)
        return
    text = edit.get_edit_text()
    sig = ("ui", cmd, min(len(args), 3), tuple(sorted(f & {"empty", "sp", "tab", "nl", "sq", "dq", "bs", "esc", "badesc", "uni"})), (tuple(sorted(set(kinds))) if len(set(kinds)) <= 2 else ("many", len(set(kinds)), any(k.startswith(("up", "down")) for k in kinds))), hk)
    sample = {"line": line, "args": args, "keys": kinds, "history": entries}
    ctx.count("ui_history.text_preserved")
    if text != line:
        # every step re-displays the very text it started from (completion without candidates, cursor movement, delete+retype,
        # history walk back to the newest position): a different prompt text means the command line was rewritten
        ctx.violation("ui_history-prompt-text-changed", {"line": line, "text_after": text, "keys": kinds, "history": entries}, None)
        ctx.case(sig + ("text-changed",), nontrivial=True, sample=sample)
        return
    out = ctx.guard(execute, master_cm, probe, text, what=text)
    if out is None:
        ctx.case(sig, nontrivial=True, sample=sample)
        return
    received, exc = out
    ctx.count("ui_history.execute")
    judge(ctx, "ui_history", text, list(args), received, exc, extra={"keys": kinds})
    # the same text on a CommandManager that never saw the UI operations
    fresh = command.CommandManager(tctx.master)
    add_probes(fresh, probe)
    ctx.count("ui_history.fresh_manager_agrees")
    snap_ui, snap_fresh = parse_snapshot(master_cm, text), parse_snapshot(fresh, text)
    out2 = ctx.guard(execute, fresh, probe, text, what=text)
    if snap_ui != snap_fresh:
        ctx.violation("ui_history-parse-depends-on-earlier-operations", {"text": text, "keys": kinds, "after_ui": snap_ui, "fresh": snap_fresh}, None)
    elif out2 is not None and (out2[0], type(out2[1])) != (received, type(exc)):
        ctx.violation("ui_history-execute-depends-on-earlier-operations", {"text": text, "keys": kinds, "after_ui": [received, repr(exc)], "fresh": [out2[0], repr(out2[1])]}, None)
    ctx.case(sig, nontrivial=True, sample=sample)


# ---- prompt leg: <enter> -> ActionBar.execute_command -> commands.history.add -> CommandExecutor -----------------------

FAULTS = ["none", "none", "enoent", "isdir", "os:PermissionError", "os:ENOSPC", "os:BlockingIOError", "os:InterruptedError", "closed-file",
          "write:UnicodeEncodeError", "write:ValueError", "write:RuntimeError", "open:LookupError", "close:OSError", "close:ValueError"]
# every character str.strip()/str.isspace() treats as blank but the command lexer does not (it separates at " \r\n\t" only)
UBLANKS = ["\x0b", "\x0c", "\x1c", "\x1d", "\x1e", "\x1f", "\x85", "\xa0", "\u1680"] + [chr(c) for c in range(0x2000, 0x200B)] + ["\u2028", "\u2029", "\u202f", "\u205f", "\u3000"]
assert all(c.isspace() and c not in " \r\n\t" for c in UBLANKS)


def blank_matrix(c):
    """Argument lists with the blank c as last / only / first / middle edge character and as a whole argument."""
    return [["100" + c], [c], [c + "x", "mid" + c, "z"], ["a", c], ["a" + c + c, c + "b" + c], [c + c, "end"]]


def gen_blank_edge_arg(r):
    b = lambda: "".join(r.choice(UBLANKS) for _ in range(r.choice([1, 1, 2])))  # noqa: E731
    w = lambda: "".join(r.choice(PLAIN) for _ in range(r.choice([1, 2, 3])))  # noqa: E731
    return r.choice([lambda: w() + b(), lambda: b() + w(), b, lambda: b() + w() + b(), lambda: w() + b() + w()])()


def has_blank_edge(args):
    return any(a and (a[0] in UBLANKS or a[-1] in UBLANKS) for a in args)


PROMPT_MATRIX = [["plain"], ["two words", "it's"], ["\udc80"], ["a \udcff b", "x"], ["\u65e5\u672c \u8a9e"], ["\U0001f600 astral", ""], ["caf\u00e9"]]
SURR = ["\udc80", "\udcff", "\ud800", "a\udce9b"]


class _FaultyFile:
    def __init__(self, when, exc):
        self.when, self.exc = when, exc

    def __enter__(self):
        return self

    def write(self, data):
        if self.when == "write":
            raise self.exc
        return len(data)

    def __exit__(self, *a):
        if self.when == "close":
            raise self.exc
        return False


def make_fault(kind):
    """-> replacement for pathlib.Path.open on the history file (None = real file system)."""
    if kind in ("none", "enoent", "isdir"):
        return None
    if kind == "closed-file":
        def opener(path, *a, **kw):
            f = open(os.devnull, "a")
            f.close()
            return f  # entering / writing a closed file raises ValueError
        return opener
    when, name = kind.split(":")
    exc = {
        "PermissionError": PermissionError(errno.EACCES, "Permission denied"), "ENOSPC": OSError(errno.ENOSPC, "No space left on device"),
        "BlockingIOError": BlockingIOError(errno.EAGAIN, "Resource temporarily unavailable"), "InterruptedError": InterruptedError(errno.EINTR, "Interrupted"),
        "UnicodeEncodeError": UnicodeEncodeError("ascii", "\u00e9", 0, 1, "ordinal not in range(128)"), "ValueError": ValueError("I/O operation on closed file."),
        "RuntimeError": RuntimeError("history backend gone"), "LookupError": LookupError("unknown encoding: x-none"), "OSError": OSError(errno.EIO, "Input/output error"),
    }[name]
    if when in ("os", "open"):
        def opener(path, *a, **kw):
            raise exc
        return opener
    return lambda path, *a, **kw: _FaultyFile(when, exc)


def expected_write_failure(kind, text):
    """'non-oserror' | 'oserror' | None: how the history write is expected to fail (independent of mitmproxy)."""
    if kind in ("enoent", "isdir") or kind.startswith("os:") or kind == "close:OSError":
        return "oserror"
    if kind != "none":
        return "non-oserror"
    try:
        (text + "\n").encode(locale.getencoding())
    except UnicodeEncodeError:
        return "non-oserror"
    return None


def prompt_submit(tctx, probe, confroot, text, kind):
    """Run the real enter handler of the console prompt on text with the given history fault. -> (received|None, escaped exception|None)"""
    from mitmproxy.tools.console import statusbar

    ch = HISTORY["addon"]
    okdir = os.path.join(confroot, "ok")
    hist = os.path.join(okdir, "command_history")
    if os.path.isfile(hist):
        os.unlink(hist)
    confdir = {"enoent": os.path.join(confroot, "missing", "dir"), "isdir": os.path.join(confroot, "isdir")}.get(kind, okdir)
    ch.history = []
    ch.set_filter("")
    tctx.options.update(command_history=True, confdir=confdir)
    opener = make_fault(kind)
    orig_open = pathlib.Path.open
    if opener is not None:
        def patched(self, *a, **kw):
            if self.name == "command_history":
                return opener(self, *a, **kw)
            return orig_open(self, *a, **kw)
        pathlib.Path.open = patched
    probe.calls.clear()
    escaped = None
    try:
        try:
            statusbar.ActionBar.execute_command(types.SimpleNamespace(master=tctx.master), text)
        except Exception as e:  # noqa -- anything escaping the enter handler
            escaped = e
    finally:
        pathlib.Path.open = orig_open
        tctx.options.update(command_history=False)
    written = os.path.isfile(hist) and os.path.getsize(hist) > 0
    if os.path.isfile(hist):
        os.unlink(hist)
    received = tuple(probe.calls[0]) if len(probe.calls) == 1 else None
    return received, escaped, written, len(probe.calls)


def keybinding_submit(tctx, probe, text):
    """Bind the command line to a key in a fresh real Keymap and press it (Keymap.handle -> CommandExecutor)."""
    from mitmproxy.tools.console import keymap

    km = keymap.Keymap(tctx.master)
    km.add("f5", text, ["global"])
    probe.calls.clear()
    escaped = None
    try:
        unhandled = km.handle("global", "f5")
        if unhandled is not None:
            raise Inconclusive("key binding not found")
    except Inconclusive:
        raise
    except Exception as e:  # noqa
        escaped = e
    received = tuple(probe.calls[0]) if len(probe.calls) == 1 else None
    return received, escaped, False, len(probe.calls)


def prompt_case(ctx, tctx, probe, confroot, args, kind, typed, sep=" ", via="enter", trailing=""):
    from mitmproxy.tools.console.commander import commander

    line = sep.join(command_lexer.quote(x) for x in ["probe.cmd", *args]) + trailing  # console.command appends one space
    if typed:
        edit = commander.CommandEdit(tctx.master, "")
        for ch_ in line:
            edit.keypress(SIZE, ch_)
    else:
        edit = commander.CommandEdit(tctx.master, line)
    text = edit.get_edit_text()
    if text != line:
        ctx.violation("prompt-typed-text-differs", {"line": line, "text": text, "typed": typed}, None)
        return
    if has_blank_edge(args):
        ctx.count("prompt.arg_edge_is_unicode_blank")
        if args[-1] and args[-1][-1] in UBLANKS:
            ctx.count("prompt.last_arg_ends_in_unicode_blank")
    if via == "key":
        received, escaped, written, ncalls = keybinding_submit(tctx, probe, text)
        ctx.count("prompt.keybinding_execute")
    else:
        received, escaped, written, ncalls = prompt_submit(tctx, probe, confroot, text, kind)
        ctx.count("prompt.execute")
        exp = expected_write_failure(kind, text)
        ctx.count({"non-oserror": "prompt.history_write_fails_non_oserror", "oserror": "prompt.history_write_fails_oserror", None: "prompt.history_write_expected_ok"}[exp])
        if written:
            ctx.count("prompt.history_written")
    extra = {"history_fault": kind, "typed": typed, "via": via}
    if escaped is not None:
        ctx.violation("prompt-enter-raises", {"line": line, "args": args, "exc": repr(escaped)[:300], "command_called": ncalls, **extra}, None)
        return
    # CommandExecutor logs a CommandError instead of raising it: no call then means "execution failed"
    exc = None if ncalls else exceptions.CommandError("(logged by CommandExecutor)")
    if ncalls > 1:
        ctx.violation("prompt-command-called-twice", {"line": line, "calls": ncalls, **extra}, None)
        return
    judge(ctx, "prompt", text, list(args), received, exc, extra=extra)


def prompt_children(ctx):
    """Worker 0: real headless ConsoleMaster in child processes under a UTF-8 and a legacy (C) locale."""
    from vf.core import PY, REPO, ROOT

    base = {k: v for k, v in os.environ.items() if not k.startswith("LC_") and k not in ("LANG", "LANGUAGE")}
    base.update(PYTHONPATH=f"{ROOT}:{REPO}", PYTHONDONTWRITEBYTECODE="1", PYTHONCOERCECLOCALE="0")
    procs = []
    for name, env in (("utf8", {"PYTHONUTF8": "1", "LC_ALL": "C.UTF-8"}), ("c-locale", {"PYTHONUTF8": "0", "LC_ALL": "C", "LANG": "C"})):
        procs.append((name, subprocess.Popen([PY, "-m", "vf.gen.c45_prompt_child"], cwd=REPO, env={**base, **env}, stdout=subprocess.PIPE, stderr=subprocess.DEVNULL, text=True, encoding="ascii", errors="replace")))
    for name, p in procs:
        try:
            out, _ = p.communicate(timeout=90)
            payload = [ln for ln in out.splitlines() if ln.startswith("C45PROMPT ")]
            results = json.loads(payload[-1].split(" ", 1)[1])
        except (subprocess.TimeoutExpired, IndexError, ValueError):
            p.kill()
            ctx.count(f"prompt_console.{name}.inconclusive")
            continue
        for rec in results:
            ctx.count("prompt_console.execute")
            ctx.count(f"prompt_console.{name}")
            if not rec["encodable"] and rec["variant"] == "ok":
                ctx.count("prompt.history_write_fails_non_oserror")
            elif rec["variant"] != "ok":
                ctx.count("prompt.history_write_fails_oserror")
            ok = rec["raised"] is None and rec["received"] == rec["args"] and rec.get("prompt_text_ok")
            if not ok:
                ctx.violation("prompt_console-argument-lost", {"locale": name, **rec}, None)
            ctx.seen("prompt_console_locales", rec["locale_encoding"])


def r_trailing(args, c):
    """Deterministic choice for the fixed matrix: the space console.command appends, for half of the entries."""
    return " " if (len(args) + ord(c)) % 2 else ""


def run(ctx):
    tctx, cm, probe = make_manager()
    confroot = tempfile.mkdtemp(prefix="c45-conf-")
    os.makedirs(os.path.join(confroot, "ok"))
    os.makedirs(os.path.join(confroot, "isdir", "command_history"))
    try:
        if ctx.worker == 0 and ctx.only_case is None:
            ctx.guard(prompt_children, ctx, what="console prompt child processes")
            for args in PROMPT_MATRIX:  # fixed matrix first
                for kind in FAULTS[1:]:
                    ctx.guard(prompt_case, ctx, tctx, probe, confroot, args, kind, False, what=f"prompt matrix {kind}")
                    ctx.count("prompt.fixed_matrix")
            for c in UBLANKS:  # fixed matrix: every non-lexer blank as edge character / whole argument, prompt <enter> and key binding
                for args in blank_matrix(c):
                    for via in ("enter", "key"):
                        ctx.guard(prompt_case, ctx, tctx, probe, confroot, args, "none", False, " ", via, r_trailing(args, c), what=f"blank matrix U+{ord(c):04X} {via}")
                        ctx.count("prompt.fixed_matrix_blanks")
        for i in ctx.cases():
            r = ctx.rng
            wl = r.random()
            if wl < 0.08:
                def parg():
                    k = r.random()
                    if k < 0.3:
                        return "".join(r.choice(PLAIN + [" ", "'", '"'] + SURR) for _ in range(r.choice([1, 2, 4])))
                    if k < 0.5:
                        return "".join(r.choice(["\u65e5", "\u672c", " ", "\U0001f600", "\u00e9", "\u00df", "a", "\udc80"]) for _ in range(r.choice([1, 2, 4])))
                    return "".join(r.choice(PLAIN + [" ", "'", '"']) for _ in range(r.choice([0, 1, 2, 4])))

                args = [parg() for _ in range(r.choice([1, 1, 2, 3]))]
                if r.random() < 0.45:  # arguments whose first/last characters are blanks the lexer does not know
                    for pos in {r.choice([len(args) - 1, len(args) - 1, 0, r.randrange(len(args))])}:
                        args[pos] = gen_blank_edge_arg(r)
                kind = r.choice(FAULTS)
                typed = r.random() < 0.5
                via = "key" if r.random() < 0.3 else "enter"
                ctx.guard(prompt_case, ctx, tctx, probe, confroot, args, kind, typed, " " if r.random() < 0.8 else gen_sep(r), via, r.choice(["", "", " ", "  ", "\n"]), what="prompt")
                f = set().union(*(features(a) for a in args))
                surr = any(0xD800 <= ord(c) <= 0xDFFF for a in args for c in a)
                ctx.case(("prompt", via, kind if via == "enter" else "-", typed, surr, has_blank_edge(args), tuple(sorted(f & {"empty", "sp", "sq", "dq", "uni", "astral"}))), nontrivial=True, sample={"args": args, "history_fault": kind, "typed": typed})
            elif wl < 0.23:
                case_ui(ctx, r, tctx, probe)
            elif wl < 0.75:
                args = [gen_string(r) for _ in range(r.choice([1, 1, 2, 2, 3, 4]))]
                seps = [gen_sep(r) for _ in args]
                line = "probe.cmd" + "".join(s + command_lexer.quote(a) for s, a in zip(seps, args))
                if r.random() < 0.15:
                    line = r.choice([" ", "  "]) + line + r.choice([" ", "\t", "  "])
                received, exc = ctx.guard(execute, cm, probe, line, what=line) or (None, None)
                if received is None and exc is None:
                    ctx.case(("quoted", "harness"), nontrivial=False)
                    continue
                ctx.count("quoted_roundtrip")
                ok = judge(ctx, "quoted_roundtrip", line, list(args), received, exc)
                if ok:
                    ctx.count("quoted_roundtrip.args_identical", len(args))
                f = set().union(*(features(a) for a in args))
                sepk = "tab" if any("\t" in s for s in seps) else ("multi" if any(len(s) > 1 for s in seps) else "one")
                ctx.case(("quoted", len(args), tuple(sorted(f)), sepk), nontrivial=bool(f), sample={"args": args, "line": line, "received": received})
            else:
                toks = [gen_raw_token(r) for _ in range(r.choice([1, 2, 2, 3, 4]))]
                if r.random() < 0.12:  # unterminated quote at the very end
                    q = r.choice("'\"")
                    toks.append((q + "".join(r.choice(PLAIN + [" "]) for _ in range(r.randint(0, 3))), "open"))
                seps = [gen_sep(r) for _ in toks]
                line = "probe.cmd" + "".join(s + t for s, (t, _) in zip(seps, toks))
                tokens = ref.split_ref(line)
                if tokens[1:] != [t for t, _ in toks]:
                    raise Inconclusive(f"reference splitter disagrees with generator on {line!r}")
                expected = [ref.token_value(t) for t in tokens[1:]]
                received, exc = ctx.guard(execute, cm, probe, line, what=line) or (None, None)
                if received is None and exc is None:
                    ctx.case(("raw", "harness"), nontrivial=False)
                    continue
                ctx.count("raw_split.count")
                ctx.count("raw_split.value", sum(e is not None for e in expected))
                judge(ctx, "raw_split", line, expected, received, exc)
                kinds = tuple(sorted({k for _, k in toks}))
                f = set().union(*(features(t) for t, _ in toks))
                sepk = "tab" if any("\t" in s for s in seps) else ("multi" if any(len(s) > 1 for s in seps) else "one")
                ctx.case(("raw", len(toks), kinds, tuple(sorted(f - {"sq", "dq", "both"})), sepk), nontrivial=kinds != ("bare",), sample={"line": line, "expected": expected, "received": received})
    finally:
        shutil.rmtree(confroot, ignore_errors=True)
        tctx.__exit__(None, None, None)
