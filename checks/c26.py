"""C26 -- forwarded DNS messages keep their meaning.

Engine A: the real ``mitmproxy.proxy.layers.dns.DNSLayer`` is the top layer of the sans-io driver (reverse:dns mode, UDP and
TCP clients, random schedule and TCP segmentation), with a scripted client and a reactive upstream.  No addon touches a flow.
Every message the client sends (queries incl. EDNS / UPDATE / NOTIFY) and every message the upstream sends (responses) is
encoded by the harness's own compressing encoder "as real servers produce them" and compared with what the layer wrote to the
other side, both read by the independent reference decoder vf/ref/dns.py:

  delivered          every sent message arrives at the other side exactly once (matched by message id; ids are unique per case)
  decodes            the forwarded bytes are a well-formed message for the strict reference decoder
  same_meaning       header fields, section counts, questions, owner names (exact octets), type, class, TTL equal, and RDATA
                     equal after expanding compression in both for the types whose RDATA is defined to hold names
  opaque_bytes_equal records of types without names in RDATA (A, AAAA, TXT, HINFO, NULL, OPT, DS, HTTPS, unknown, ...): RDATA
                     byte for byte
  history.*          multi-message histories on one connection (a fixed matrix of shapes on both transports first, then 12% of the
                     random cases): 1-5 responses per query (AXFR-like series sharing an id, plain duplicates), queries sharing an
                     id pipelined or sent only after earlier answers arrived (client gated on the replies it received), responses
                     of different ids interleaved: every response the upstream wrote reaches the client exactly once, in the order
                     written, content-equal; every query the client sent reaches the upstream exactly once, in order; no close
"""
from vf import sansio
from vf.gen import c25_dnsgen as G25
from vf.gen import c26_dnsforward as G
from vf.peers import cut
from vf.ref import dns as R

PROPERTY = "C26"
LEVEL = "exploration"
ENGINE = "sansio"
TECHNIQUE = "runtime monitoring at the wire boundary of the real DNS layer; differential against an independent RFC 1035 codec"
BUDGET = {"quick": (2200, 14), "thorough": (200_000, 200)}
WORKERS = {"quick": 2, "thorough": 16}
REQUIRED = ["delivered", "decodes", "same_meaning", "opaque_bytes_equal", "dir.query", "dir.response", "transport.udp", "transport.tcp",
            "with.rdata_compression", "with.opaque_c0", "with.rdata_exotic_literal", "with.rdata_exotic_behind_pointer",
            "history.cases", "history.matrix", "history.random", "multi_response_same_id", "history.id_reused_after_answer",
            "history.response_delivered", "history.query_delivered"]
RULE = (
    "case = one client connection (UDP or TCP, TCP streams randomly segmented, random or fifo schedule) carrying 1-3 query/response "
    "exchanges with unique ids; messages are generated from a small zone of names sharing suffixes (LDH, mixed case, underscore, "
    "wildcard, 63-octet labels, IDNA A-labels; in 40% of zones about half of the names INSIDE record data carry labels with arbitrary octets -- literal dots, spaces, upper case, UTF-8/0x80+ octets, 0x20-mixed or IDNA-2008 xn-- labels -- written literally and, on recurrence, behind compression pointers; 12% of zones add such labels also to owner/question names: labels that are legal but not IDNA-2003 fixed points: 0x20-mixed-case "
    "or IDNA-2008 A-labels, labels containing '.', UTF-8 labels): plain/EDNS queries, UPDATE, NOTIFY, responses with CNAME chains and all "
    "name-bearing types (NS CNAME PTR MX SOA SRV NAPTR MINFO RP AFSDB RT PX SIG NXT KX DNAME RRSIG NSEC), A/AAAA/TXT/HINFO/NULL/OPT/DS/"
    "DNSKEY/HTTPS/CAA/unknown types, integer fields and text biased to octets >= 0xC0 (0xC00C, SRV ports 49152+, UTF-8/Latin-1 text); "
    "encoded with owner-name compression and RDATA-name compression for none / the RFC 1035 types / all RFC 3597 well-known types; "
    "history cases: ids per query from a pool of 1-4 (with repetition), 0-5 responses per query written when the same / the last / a random "
    "later query of the release group arrives, release groups gated on the number of replies the client has received; "
    "distinct = (transport, direction-merged wire feature set, outcome) resp. (transport, matrix/random, #queries, id repeated, max "
    "responses per query, #release groups, trigger mode, outcome); non-trivial = some message of the case contains a compression "
    "pointer or an opaque RDATA octet >= 0xC0"
)
ASSUMPTIONS = [
    "'as produced by real servers': names inside RDATA are compressed only in the RFC 3597 section 4 well-known types; every name-bearing "
    "type's RDATA follows its RFC layout; names are at most 255 octets",
    "'reads identically' compares names octet for octet (case is preserved data: DNS 0x20 relies on it)",
    "messages are matched by id; ids are unique within a case (history cases: matched by position in the order written)",
    "every upstream response whose id a delivered query has used is forwarded, also the 2nd..nth one for that id and after the id was "
    "reused (what the code does since 075f8e474: only a CLIENT query starts a new flow for an answered id)",
]
LEVEL_TEXT = (
    "Generated conversations are pushed through the real DNSLayer under a seeded scheduler and every forwarded message is compared with "
    "the sent one by an independent decoder; the input space (record types x compression forms x pointer-like data) is sampled, not "
    "enumerated, hence exploration."
)
LEVEL_NOTE = "Trusted: vf/ref/dns.py (strict RFC 1035 codec), vf/sansio.py's model of ConnectionHandler, the generator's RDATA layouts."

COMPRESS_MODES = ["none", "owner", "rfc1035", "rfc3597", "rfc3597"]


def first_diff(a: dict, b: dict):
    """a, b: R.semantic views -> None or (where, section, index, field, sent value, got value)."""
    for k in ("id", "qr", "opcode", "aa", "tc", "rd", "ra", "z", "rcode"):
        if a[k] != b[k]:
            return ("header", None, None, k, a[k], b[k])
    for sec in ("questions", "answers", "authorities", "additionals"):
        if len(a[sec]) != len(b[sec]):
            return ("count", sec, None, "len", len(a[sec]), len(b[sec]))
        for i, (x, y) in enumerate(zip(a[sec], b[sec])):
            for f in ("name", "type", "class", "ttl", "rdata"):
                if f in x and x[f] != y[f]:
                    return ("record", sec, i, f, x[f], y[f])
    return None


MECH_ORDER = ["label-with-octet-ge-0x80", "label-contains-dot", "ace-label-not-idna2003-canonical"]


def label_mechanism(labels):
    feats = {G.label_feature(lab) for lab in labels}
    for m in MECH_ORDER:
        if m in feats:
            return "name-" + m
    return None


def classify(sent: dict, diff, wire: bytes):
    """Mechanism from properties of the *sent* message (its bytes and their reference decoding) and the position of the difference.

    sent: R.decode(wire); diff: first_diff tuple or None when the message was not delivered / not decodable.
    mitmproxy holds question/owner names and the targets of compression pointers as IDNA text; labels written literally inside
    RDATA are copied, so an exotic label explains a difference only where it is an owner/question label or sits behind a pointer."""
    if diff is None or diff[0] in ("header", "count"):
        # whole message lost or mangled: only explained by an owner/question name mitmproxy's text model cannot represent
        return label_mechanism(G.owner_labels(sent))
    _, sec, i, field, _, _ = diff
    rr = sent[sec][i]
    if field == "name":
        return label_mechanism(rr["name"])
    if field == "rdata":
        t = rr["type"]
        names = rr.get("names") or []
        if names and t in G25.MITM_COMPRESSIBLE:
            m = label_mechanism(G.rdata_name_labels(wire, rr)[1])
            if m:
                return m
        if t in G25.MITM_COMPRESSIBLE and G.opaque_has_c0(rr):
            return "scanned-rdata-opaque-octet-ge-0xc0:" + G.TYPE_NAMES.get(t, "other")
        if t in G25.MITM_COMPRESSIBLE and len(names) >= 2 and rr["rdata"] != rr["rdata_expanded"]:
            # two names in one RDATA, compression present, and an earlier name whose text length differs from wire length - 2
            if any(len(n) == 0 or any(lab[:4] == b"xn--" for lab in n) for n in names[:-1]):
                return "second-rdata-name-after-compressed-idn-or-root-name"
    return None


def run_case(ctx, opts):
    r = ctx.rng
    transport = r.choice(["udp", "tcp"])
    ctx.count("transport." + transport)
    hostile = r.random() < 0.12
    zone = G.Zone(r, hostile=hostile, rdata_exotic=hostile or r.random() < 0.35)
    # a message the layer rejects takes the connection down with it, so zones with exotic labels carry a single exchange
    n = 1 if hostile else r.choice([1, 1, 2, 3])
    ids = r.sample(range(65536), n)
    if r.random() < 0.2:
        ids[0] = r.choice([0, 65535, 0xC00C])
        ids = list(dict.fromkeys(ids))
    sent_q, sent_r = {}, {}
    feats = set()
    for mid in ids:
        for response in (False, True):
            for _ in range(5):
                q = sent_q[mid][2]["questions"][0] if response and sent_q[mid][2]["questions"] and r.random() < 0.9 else None
                msg, f = G.realistic_message(r, zone, response=response, mid=mid, question=q)
                mode = r.choice(COMPRESS_MODES)
                rd_types = {"none": frozenset(), "owner": frozenset(), "rfc1035": R.COMPRESSIBLE_RDATA, "rfc3597": G.RFC3597_NAME_TYPES}[mode]
                try:
                    wire = G.encode(msg, compress_owner=mode != "none", rdata_types=rd_types)
                except ValueError:
                    continue
                if len(wire) <= 65535:
                    break
            else:
                raise RuntimeError("generator could not produce an encodable message")
            dec = R.decode(wire, allow_trailing=False)  # the harness's own encoder must satisfy the strict decoder
            wf = G.wire_features(wire, dec)
            (sent_r if response else sent_q)[mid] = (wire, dec, msg, f | wf | {"cmp:" + mode})
            feats |= f | wf

    def responder(k, m, peer):
        mid = int.from_bytes(m[:2], "big") if len(m) >= 2 else None
        if mid in sent_r and mid not in peer.__dict__.setdefault("answered", set()):
            peer.answered.add(mid)
            return [sent_r[mid][0]]
        return []

    ups = []

    def server_factory(drv, conn):
        p = G.DnsUpstream(transport, responder, r, r.choice(["whole", "random", "bytes"] if max(len(v[0]) for v in sent_r.values()) < 1500 else ["whole", "random"]))
        ups.append(p)
        return p

    sched = r.choice(["random", "random", "fifo"])
    d = G.make_driver(transport, opts, r, server_factory=server_factory, schedule=sched)
    if transport == "udp":
        segs = [sent_q[mid][0] for mid in ids]
    else:
        stream = b"".join(G.frame(sent_q[mid][0], "tcp") for mid in ids)
        segs = cut(stream, r, r.choice(["whole", "random", "random", "bytes"] if len(stream) < 1500 else ["whole", "random"]))
    d.attach_client_peer(sansio.ScriptPeer(segs))
    d.start()
    d.run()
    budget = d.budget_exceeded
    up_msgs = [m for p in ups for m in p.messages]
    up_bad = [p.bad_framing for p in ups if p.bad_framing]
    down_msgs, down_status, down_rest = G.client_messages(d, transport)
    d.teardown()
    if budget:
        ctx.count("inconclusive_cases")
        return None
    for e in d.exceptions:
        ctx.seen("layer_exceptions", f"{e[0]}@{e[1]}")
    ctx.seen("hook_sequences", ",".join(d.hook_names()))
    base = {"transport": transport, "schedule": sched, "hooks": d.hook_names(), "exceptions": [e[:2] for e in d.exceptions]}
    outcomes = set()
    if up_bad or down_status != "ok" or down_rest:
        ctx.violation("tcp-framing-of-forwarded-bytes-broken", {**base, "upstream": up_bad, "down": (down_status, down_rest[:100])})
        outcomes.add("framing")

    for direction, sent, got_list in (("query", sent_q, up_msgs), ("response", sent_r, down_msgs)):
        got_by_id = {}
        for m in got_list:
            got_by_id.setdefault(int.from_bytes(m[:2], "big") if len(m) >= 2 else -1, []).append(m)
        for mid in ids:
            wire, dec, msg, mf = sent[mid]
            if direction == "response" and mid not in {int.from_bytes(m[:2], "big") for m in up_msgs if len(m) >= 2}:
                continue  # the upstream never saw the query (reported under direction=query), so it sent no response
            ctx.count("dir." + direction)
            if "rdata-compressed" in mf:
                ctx.count("with.rdata_compression")
            if any(x.startswith("opaque-c0") for x in mf):
                ctx.count("with.opaque_c0")
            if "rdata-exotic-literal" in mf:
                ctx.count("with.rdata_exotic_literal")
            if "rdata-exotic-behind-pointer" in mf:
                ctx.count("with.rdata_exotic_behind_pointer")
            wit = {**base, "direction": direction, "sent": wire[:2500], "sent_len": len(wire), "features": sorted(mf)}
            got = got_by_id.get(mid, [])
            ctx.count("delivered")
            if len(got) != 1:
                outcomes.add(f"{direction}:delivered-{len(got)}x")
                ctx.violation(f"{direction}-delivered-{len(got)}-times", {**wit, "got": [g[:300] for g in got_list][:6]},
                              classify(dec, None, wire) if not got else None)
                continue
            g = got[0]
            ctx.count("decodes")
            try:
                gdec = R.decode(g, allow_trailing=False)
            except R.DecodeError as e:
                outcomes.add(f"{direction}:undecodable")
                ctx.violation(f"forwarded-{direction}-not-decodable", {**wit, "got": g[:2500], "error": str(e)}, classify(dec, None, wire))
                continue
            ctx.count("same_meaning")
            diff = first_diff(R.semantic(dec), R.semantic(gdec))
            # byte-for-byte clause on the types without names, evaluated separately so that evidence shows it ran
            n_opaque = 0
            for sec in ("answers", "authorities", "additionals"):
                for j, (x, y) in enumerate(zip(dec[sec], gdec[sec])):
                    if x["type"] not in R.LAYOUTS:
                        n_opaque += 1
                        if x["type"] == y["type"] and x["rdata"] != y["rdata"] and diff is None:
                            diff = ("record", sec, j, "rdata", x["rdata"], y["rdata"])
            if n_opaque:
                ctx.count("opaque_bytes_equal", n_opaque)
            if diff is not None:
                mech = classify(dec, diff, wire)
                where = diff[3] if diff[0] != "record" else f"{diff[1]}.{diff[3]}"
                tname = G.TYPE_NAMES.get(dec[diff[1]][diff[2]]["type"], "other") if diff[0] == "record" and diff[1] != "questions" else "-"
                outcomes.add(f"{direction}:differs:{where}:{tname}")
                ctx.violation(f"forwarded-{direction}-differs:{where}", {**wit, "got": g[:2500], "where": diff[:4], "type": tname,
                                                                       "sent_value": diff[4], "got_value": diff[5]}, mech)
            else:
                outcomes.add("same")
    nontrivial = any(x in feats for x in ("owner-compressed", "rdata-compressed")) or any(x.startswith("opaque-c0") for x in feats)
    keep = [x for x in sorted(feats) if not x.startswith(("cmp:", "q:", "z-", "opaque-c0:"))]
    c0 = sorted(x[10:] for x in feats if x.startswith("opaque-c0:"))
    sig = (transport, tuple(keep), tuple(c0[:2]), len(c0) > 2, tuple(sorted({o.split(":")[0] + ":" + o.split(":")[1] if ":" in o else o for o in outcomes})))
    first = sent_r[ids[0]]
    sample = {"transport": transport, "n_exchanges": len(ids), "response_sent": first[0][:300], "features": sorted(first[3]), "outcomes": sorted(outcomes)}
    return sig, nontrivial, sample


# ---- multi-message histories on one connection ---------------------------------------------------------------------------------
# shape = (ids per query, responses per query, release group per query, trigger mode): responses to query j are written by the upstream
# when it receives query trigger(j) >= j; the client holds back the queries of group g > 0 until it has received need(g) responses.
HISTORY_MATRIX = [
    ([7], [1], [0], "self"), ([7], [2], [0], "self"), ([7], [3], [0], "self"), ([7], [5], [0], "self"),  # AXFR-like answer series
    ([0, 0], [1, 1], [0, 0], "self"), ([0, 0], [1, 1], [0, 0], "last"),  # pipelined queries sharing an id
    ([0, 0], [1, 1], [0, 1], "self"), ([9, 9], [2, 2], [0, 1], "self"), ([9, 9, 9], [1, 2, 1], [0, 1, 2], "self"),  # id reused after the answer
    ([1, 2, 3], [2, 2, 1], [0, 0, 0], "last"), ([1, 2, 1, 2], [2, 1, 1, 3], [0, 0, 0, 0], "random"),  # answers interleaved across ids
    ([5, 5, 5], [2, 2, 2], [0, 0, 0], "self"), ([5, 6, 5], [3, 0, 2], [0, 0, 1], "random"), ([65535, 0, 65535, 0], [1, 4, 0, 2], [0, 0, 1, 1], "random"),
]


def run_history_case(ctx, opts, shape=None, transport=None):
    r = ctx.rng
    transport = transport or r.choice(["udp", "tcp"])
    if shape is None:
        n = r.choice([1, 2, 2, 3, 4, 6])
        pool = r.sample(range(65536), r.choice([1, 1, 2, 3])) + ([0] if r.random() < 0.3 else [])
        ids = [r.choice(pool) for _ in range(n)]
        counts = [r.choice([0, 1, 1, 1, 2, 2, 3, 5]) for _ in range(n)]
        groups, g = [], 0
        for _ in range(n):
            groups.append(g)
            if r.random() < 0.35:
                g += 1
        groups = [x - groups[0] for x in groups]
        mode = r.choice(["self", "self", "last", "random"])
        kind = "random"
    else:
        ids, counts, groups, mode = shape
        n = len(ids)
        kind = "matrix"
    zone = G.Zone(r)
    queries, responses = [], []  # responses[j] = wires of the answers to query j
    for j in range(n):
        for _ in range(8):
            qm, _f = G.realistic_message(r, zone, response=False, mid=ids[j])
            if qm["questions"]:
                break
        qmode = r.choice(COMPRESS_MODES)
        queries.append(G.encode(qm, compress_owner=qmode != "none"))
        ws = []
        for _k in range(counts[j]):
            rm, _f = G.realistic_message(r, zone, response=True, mid=ids[j], question=qm["questions"][0])
            rmode = r.choice(COMPRESS_MODES)
            w = G.encode(rm, compress_owner=rmode != "none", rdata_types={"none": frozenset(), "owner": frozenset(), "rfc1035": R.COMPRESSIBLE_RDATA, "rfc3597": G.RFC3597_NAME_TYPES}[rmode])
            if len(w) > 20000:
                w = G.encode({**rm, "answers": rm["answers"][:2], "authorities": [], "additionals": []}, compress_owner=True)
            ws.append(w)
        if counts[j] >= 2 and r.random() < 0.3:
            ws[-1] = ws[0]  # a plain duplicate
        responses.append(ws)
    # when is each response written?  trigger[j][k] = index of the query whose arrival at the upstream releases it
    last_of_group = {g: max(j for j in range(n) if groups[j] == g) for g in set(groups)}
    trigger = []
    for j in range(n):
        hi = last_of_group[groups[j]]  # never wait for a query the client holds back
        trigger.append([j if mode == "self" else hi if mode == "last" else r.randint(j, hi) for _ in range(counts[j])])
    emit_at = {t: [] for t in range(n)}
    for j in range(n):
        for k, t in enumerate(trigger[j]):
            emit_at[t].append((j, k))
    for t in emit_at:
        if mode != "self":
            r.shuffle(emit_at[t])  # interleaves the ids; the delivery order must follow the order written
    avail_before_group = {}
    for g in sorted(set(groups)):
        avail_before_group[g] = sum(len(emit_at[t]) for t in range(n) if groups[t] < g)
    need = {g: (r.randint(0, avail_before_group[g]) if r.random() < 0.5 else avail_before_group[g]) for g in avail_before_group}
    sent_up = []  # (j, k, wire) in the order written

    def responder(kq, m, peer):
        acts = []
        if kq < n:
            for j, k in emit_at[kq]:
                sent_up.append((j, k, responses[j][k]))
                acts.append(responses[j][k])
        return acts

    ups = []

    def server_factory(drv, conn):
        p = G.DnsUpstream(transport, responder, r, r.choice(["whole", "random", "split", "bytes"] if sum(len(w) for ws in responses for w in ws) < 3000 else ["whole", "random", "split"]), coalesce=r.random() < 0.7)
        ups.append(p)
        return p

    def gate_for(g):
        k = need[g]
        return lambda drv: sum(1 for _, c, _d in drv.out_log if c is drv.client) >= k

    segs = []
    first_seg_of_group = {}
    for g in sorted(set(groups)):
        part = [queries[j] for j in range(n) if groups[j] == g]
        if transport == "udp":
            ss = list(part)
        else:
            stream = b"".join(G.frame(q, "tcp") for q in part)
            m = r.choice(["whole", "random", "split", "bytes"] if len(stream) < 1200 else ["whole", "random", "split"])
            ss = cut(stream, r, r.randrange(1, max(2, len(stream))) if m == "split" else m)
        if g > 0 and ss:
            ss[0] = (ss[0], gate_for(g))
        first_seg_of_group[g] = len(segs)
        segs += ss
    sched = r.choice(["random", "random", "fifo"])
    d = G.make_driver(transport, opts, r, server_factory=server_factory, schedule=sched, max_steps=6000)
    d.attach_client_peer(sansio.ScriptPeer(segs))
    d.start()
    d.run()
    if d.budget_exceeded:
        d.teardown()
        ctx.count("inconclusive_cases")
        return None
    held_back = len(d.inbox[d.client])
    up_msgs = [m for p in ups for m in p.messages]
    down_msgs, down_status, down_rest = G.client_messages(d, transport)
    closes = [x[2] for x in d.log if x[0] == "cmd" and x[2].startswith("CloseConnection")]
    d.teardown()
    ctx.count("history.cases")
    ctx.count("history." + kind)
    seen_ids, multi, reused_after = set(), 0, 0
    for j, k, w in sent_up:
        if (ids[j], "answered") in seen_ids:
            multi += 1
        seen_ids.add((ids[j], "answered"))
    for j in range(n):
        if groups[j] > 0 and ids[j] in ids[:j] and need[groups[j]] > 0:
            reused_after += 1
    if multi:
        ctx.count("multi_response_same_id", multi)
    if reused_after:
        ctx.count("history.id_reused_after_answer", reused_after)
    wit = {"kind": "history", "shape": kind, "transport": transport, "schedule": sched, "ids": ids, "responses_per_query": counts, "groups": groups,
           "trigger": trigger, "need": need, "written_by_upstream": [(j, k) for j, k, _ in sent_up], "queries_held_back": held_back,
           "delivered_to_upstream": len(up_msgs), "delivered_to_client": len(down_msgs), "closes": closes, "hooks": d.hook_names()[:60],
           "exceptions": [e[:2] for e in d.exceptions]}
    outcomes = set()
    if down_status != "ok" or down_rest or any(p.bad_framing for p in ups):
        ctx.violation("tcp-framing-of-forwarded-bytes-broken", wit)
        outcomes.add("framing")

    def sem(b):
        try:
            return R.semantic(R.decode(b, allow_trailing=False))
        except R.DecodeError:
            return ("undecodable", bytes(b[:40]))

    # every response the upstream wrote is delivered to the client exactly once, in the order written, content-equal
    ctx.count("history.response_delivered", len(sent_up))
    exp = [sem(w) for _, _, w in sent_up]
    got = [sem(m) for m in down_msgs]
    if got != exp:
        first = next((i for i, (a, b) in enumerate(zip(exp, got)) if a != b), min(len(exp), len(got)))
        lost = len(exp) - len(got)
        same_multiset = sorted(map(repr, exp)) == sorted(map(repr, got))
        what = "reordered" if same_multiset else "lost" if lost > 0 and got == [e for e in exp if e in got][: len(got)] else "differs"
        outcomes.add("responses-" + what)
        j, k = (sent_up[first][0], sent_up[first][1]) if first < len(sent_up) else (None, None)
        ctx.violation(f"history:responses-{what}", {**wit, "first_difference_at": first, "query_index": j, "response_index": k,
                                                    "nth_response_for_its_id": (sum(1 for jj, _, _ in sent_up[:first] if ids[jj] == ids[j]) + 1) if j is not None else None,
                                                    "sent": sent_up[first][2][:300] if first < len(sent_up) else None,
                                                    "got": down_msgs[first][:300] if first < len(down_msgs) else None})
    else:
        outcomes.add("responses-ok")
    # every query the client sent reaches the upstream exactly once, in order, content-equal
    # if a gate never opened (only possible when responses were lost) judge the queries of the groups that were released
    consumed = len(segs) - held_back
    released = [j for j in range(n) if first_seg_of_group[groups[j]] < consumed]
    ctx.count("history.query_delivered", len(released))
    expq = [sem(queries[j]) for j in released]
    gotq = [sem(m) for m in up_msgs]
    if gotq != expq and not (held_back and gotq == expq[: len(gotq)]):
        outcomes.add("queries-differ")
        first = next((i for i, (a, b) in enumerate(zip(expq, gotq)) if a != b), min(len(expq), len(gotq)))
        ctx.violation("history:queries-lost-duplicated-or-reordered", {**wit, "first_difference_at": first})
    else:
        outcomes.add("queries-ok")
    if closes:
        outcomes.add("closed")
        ctx.violation("history:connection-closed-on-well-formed-traffic", wit)
    sig = ("history", transport, kind, min(n, 4), len(set(ids)) < n, max(counts) if counts else 0, max(groups), mode, tuple(sorted(outcomes)))
    return sig, n >= 2 or max(counts) >= 2, {"kind": "history", "transport": transport, "ids": ids, "responses_per_query": counts, "groups": groups,
                                             "written": [(j, k) for j, k, _ in sent_up], "outcomes": sorted(outcomes)}


def run(ctx):
    tctx, _ = sansio.addon_context()
    opts = tctx.options
    matrix = [(sh, tr) for sh in HISTORY_MATRIX for tr in ("tcp", "udp")]
    for i in ctx.cases():
        if i < len(matrix):
            res = ctx.guard(run_history_case, ctx, opts, matrix[i][0], matrix[i][1], what="c26 history matrix case")
        elif ctx.rng.random() < 0.12:
            res = ctx.guard(run_history_case, ctx, opts, what="c26 history case")
        else:
            res = ctx.guard(run_case, ctx, opts, what="c26 case")
        if res is None:
            ctx.case(("aborted",), False)
            continue
        sig, nontrivial, sample = res
        ctx.case(sig, nontrivial, sample)
