"""C31 -- Content-Encoding round trips; the one-entry codec cache is transparent.

Three kinds of generated case, all observed at the public boundary (Message.content / raw_content /
headers / decode() / encode(), and mitmproxy.net.encoding.encode / decode):

* ``assign``  -- a request/response with a (possibly hostile) Content-Encoding value; ``m.content = b``
  must not raise, ``m.content`` must read back ``b``, the raw body must decode to ``b`` with the
  *reference* decoder (vf/ref/c31_codecs.py: gzip / zlib / brotli / zstd modules called directly,
  strict) when the retained header names a supported coding, and without Transfer-Encoding
  Content-Length must equal len(raw_content).  The assignment is repeated (same body -> cache hit,
  other body -> cache replacement).
* ``recode``  -- a message whose raw body was produced by a reference encoder (random level), by
  mitmproxy, or is invalid (truncated, flipped byte, wrong magic, junk, trailing garbage, two streams,
  raw deflate, zlib-in-gzip, empty): content of a canonical reference stream must equal the original
  body; invalid data may raise only ValueError and never raises with strict=False; ``decode()`` then
  ``encode(c2)`` must preserve the content and produce a reference-decodable body.
* ``history`` -- 2..30 mixed module-level and message-level operations over 3 bodies x 3 codings
  (valid and invalid encoded forms, cross-coding decodes).  Every operation is executed twice: for
  real (cache state = whatever the history left) and on a twin copy with ``encoding._cache`` emptied
  (the real cache is restored afterwards).  Decoded results must be equal; encoded results / raw
  bodies must be equal *as contents* under the reference decoder; message header sets must agree.
  Independently of the twin, every result is compared with the reference model.
"""
import codecs

from mitmproxy import http
from mitmproxy.net import encoding
from vf.ref import c31_codecs as ref

PROPERTY = "C31"
LEVEL = "exploration"
BUDGET = {"quick": (1400, 15), "thorough": (60_000, 200)}
WORKERS = {"quick": 2, "thorough": 16}
ENGINE = "direct"
TECHNIQUE = "differential (reference codecs) + metamorphic (empty-cache twin) monitoring"
REQUIRED = [
    "assign.content_roundtrip",
    "assign.raw_decodes_with_reference",
    "assign.content_length",
    "recode.reference_stream_decodes",
    "recode.decode_encode_preserves",
    "recode.invalid_only_valueerror",
    "history.twin_compare",
    "history.encode_decodes_with_reference",
    "history.steps_with_cache_hit",
]
RULE = (
    "case = one of assign / recode / history (see module docstring), all choices from ctx.rng: body class "
    "(empty, 1 B, ascii, repetitive<=4 KB, random<=2 KB, rarely 64 KB-1 MB), coding (identity gzip deflate br zstd in "
    "random letter case; aliases; unknown / list / padded / non-ASCII names; Python text and binary codec names), "
    "stale Content-Length, Transfer-Encoding, invalid-data kind, 2..30 history steps over 3 bodies x 3 codings. "
    "distinct = (kind, coding class+name, spelling class, body class, header flags / source kind, target coding / "
    "set of op kinds, #hits bucket, length bucket); non-trivial = assign/recode: body non-empty or coding not identity; "
    "history: at least one predicted cache hit and one cache replacement"
)
ASSUMPTIONS = [
    "reference decoders are the gzip, zlib, brotli and zstd library entry points called directly and strictly "
    "(whole input = complete stream(s)); mitmproxy's own encoder/decoder functions are never used as oracle",
    "a zero-length raw body denotes empty content under every coding (recipient practice); counted as history.empty_raw_tolerated",
    "for the mitmproxy-specific alias 'deflateraw' bodies are compared as deflate contents (zlib or bare RFC 1951) between real and twin run only",
    "for codings outside the five supported ones only totality, content round trip and Content-Length are required",
    "the twin run empties the private encoding._cache and restores it, and every case starts with an empty cache; this is the only private state touched",
]
LEVEL_TEXT = (
    "Exploration over inputs and call histories: random bodies, coding spellings, invalid streams and 2-30 step "
    "histories are executed against the real Message/encoding code and compared with independent library decoders "
    "and with an empty-cache twin. It shows absence of violations on the sampled cases only."
)
LEVEL_NOTE = "Trusted: CPython gzip/zlib, brotli and zstd bindings (shared with mitmproxy as libraries, but called directly), vf/ref/c31_codecs.py."

EMPTY_CACHE = encoding.CachedDecode(None, None, None, None)

UNKNOWN = ["x-unknown", "gzip, br", " gzip", "gzip ", "compress", "x-gzip", "zopfli", "gz\x00ip", "gzíp", "\udcff", "br;q=1", "*"]
TEXTCODECS = ["utf8", "latin-1", "utf-16", "ascii", "rot13", "unicode_escape", "cp1252", "UTF-8"]
BINCODECS = ["hex", "zlib", "base64", "bz2"]
ALIASES = ["none", "deflateraw", "NONE"]


# ---------------------------------------------------------------------------------------------
# generators
# ---------------------------------------------------------------------------------------------

def gen_body(r, allow_big=True):
    k = r.random()
    if k < 0.10:
        return b"", "empty"
    if k < 0.17:
        return bytes([r.getrandbits(8)]), "one"
    if k < 0.42:
        n = r.randint(2, 80)
        return bytes(r.choice(b"abcdefghijklmnopqrstuvwxyz <>/=\"\r\n") for _ in range(n)), "ascii"
    if k < 0.70:
        unit = bytes(r.getrandbits(8) for _ in range(r.randint(1, 12)))
        return (unit * r.randint(2, 400))[:4096], "rep"
    if k < 0.985 or not allow_big:
        return r.randbytes(r.randint(2, 2048)), "rand"
    n = r.choice([65536, 200_000, 1 << 20])
    if r.random() < 0.5:
        return r.randbytes(n), "big-rand"
    return (r.randbytes(r.randint(1, 64)) * (n // 2))[:n], "big-rep"


def spell(r, c):
    k = r.random()
    if k < 0.5:
        return c, "lower"
    if k < 0.65:
        return c.upper(), "upper"
    if k < 0.8:
        return c.title(), "title"
    return "".join(ch.upper() if r.random() < 0.5 else ch for ch in c), "mixed"


def gen_coding(r, weights=(55, 6, 14, 10, 8, 7)):
    """-> (header value or None, class, canonical supported name or None, spelling class)"""
    klass = r.choices(["supported", "alias", "unknown", "textcodec", "bincodec", "absent"], weights)[0]
    if klass == "supported":
        c = r.choice(ref.SUPPORTED)
        s, sc = spell(r, c)
        return s, klass, c, sc
    if klass == "alias":
        return r.choice(ALIASES), klass, None, "-"
    if klass == "unknown":
        return r.choice(UNKNOWN), klass, None, "-"
    if klass == "textcodec":
        return r.choice(TEXTCODECS), klass, None, "-"
    if klass == "bincodec":
        return r.choice(BINCODECS), klass, None, "-"
    return None, klass, None, "-"


def mk_msg(r, ce, raw, te=False, stale_cl=None, kind=None):
    fields = []
    if r.random() < 0.5:
        fields.append((b"X-Pad", b"1"))
    if ce is not None:
        fields.append((r.choice([b"Content-Encoding", b"content-encoding", b"CONTENT-ENCODING"]), ce.encode("utf-8", "surrogateescape")))
    if te:
        fields.append((b"Transfer-Encoding", b"chunked"))
    if stale_cl is not None:
        fields.append((b"Content-Length", str(stale_cl).encode()))
    r.shuffle(fields)
    kind = kind or r.choice(["req", "resp"])
    if kind == "resp":
        return http.Response(b"HTTP/1.1", 200, b"OK", http.Headers(fields), raw, None, 0.0, 0.0)
    return http.Request("example.com", 80, b"POST", b"http", b"", b"/p", b"HTTP/1.1", http.Headers(fields), raw, None, 0.0, 0.0)


def corrupt(r, coding, body):
    """Invalid / non-canonical raw data for `coding`. -> (data, kind)"""
    good, _ = ref.ref_encode(coding, body, r) if coding != "identity" else (body, "")
    kind = r.choice(["truncate", "flip", "magic", "junk", "trailing", "two-streams", "raw-deflate", "zlib-wrapped", "empty", "other-coding"])
    if kind == "truncate" and len(good) > 1:
        return good[: r.randint(1, len(good) - 1)], kind
    if kind == "flip" and good:
        i = r.randrange(len(good))
        return good[:i] + bytes([good[i] ^ (1 << r.randrange(8))]) + good[i + 1 :], kind
    if kind == "magic" and len(good) > 2:
        return r.randbytes(2) + good[2:], kind
    if kind == "trailing":
        return good + r.choice([b"\x00", b"junk", b"\r\n", r.randbytes(5)]), kind
    if kind == "two-streams":
        other, _ = ref.ref_encode(coding, r.choice([b"second", b"", body]), r) if coding != "identity" else (b"x", "")
        return good + other, kind
    if kind == "raw-deflate":
        return ref.raw_deflate(body), kind
    if kind == "zlib-wrapped":
        import zlib

        return zlib.compress(body), kind
    if kind == "empty":
        return b"", kind
    if kind == "other-coding":
        oc = r.choice([c for c in ref.SUPPORTED if c not in (coding, "identity")])
        return ref.ref_encode(oc, body, r)[0], kind
    return r.randbytes(r.randint(1, 40)), "junk"


# ---------------------------------------------------------------------------------------------
# classification (conditions on the input / history only)
# ---------------------------------------------------------------------------------------------

def names_str_only_codec(name):
    """The coding value is a Python codec name whose encoder/decoder rejects bytes (a text codec such as utf8, rot13)."""
    if not isinstance(name, str):
        return False
    n = name.lower()
    if n in ("identity", "none", "gzip", "deflate", "deflateraw", "br", "zstd"):
        return False
    try:
        ci = codecs.lookup(n)
    except Exception:
        return False
    for f in (ci.encode, ci.decode):
        try:
            f(b"x")
        except TypeError:
            return True
        except Exception:
            pass
    return False


def classify_exception(exc, coding_values):
    if isinstance(exc, TypeError) and any(names_str_only_codec(c) for c in coding_values):
        return "content-encoding-names-str-only-codec"
    return None


def strict_ok(coding, data, expect):
    try:
        return ref.ref_decode(coding, data) == expect
    except ref.RefDecodeError:
        return False


# ---------------------------------------------------------------------------------------------
# shared monitors
# ---------------------------------------------------------------------------------------------

def check_cl(ctx, m, mon, wit):
    if "transfer-encoding" in m.headers:
        ctx.count(mon + "_skipped_te")
        return
    ctx.count(mon)
    vals = m.headers.get_all("content-length")
    if vals != [str(len(m.raw_content))]:
        ctx.violation("content-length-mismatch", {**wit, "content_length": vals, "raw_len": len(m.raw_content)})


def effective(m, aliases=False):
    ce = m.headers.get("content-encoding")
    if not ce:
        return "identity"
    if aliases and ce.lower() in ("deflateraw", "none"):
        return {"deflateraw": "deflate", "none": "identity"}[ce.lower()]
    return ce.lower() if ce.lower() in ref.SUPPORTED else None


def check_raw(ctx, m, expect, mon, wit, tolerant=False, mech=None):
    eff = effective(m)
    if eff is None:
        ctx.count(mon + "_skipped_other_codec")
        return True
    ctx.count(mon)
    try:
        if m.raw_content == b"" and eff != "identity":
            ctx.count("empty_raw_tolerated")
        got = ref.ref_decode(eff, m.raw_content, empty_ok=True, raw_deflate_ok=tolerant)
    except ref.RefDecodeError as e:
        ctx.violation("raw-not-reference-decodable", {**wit, "coding": eff, "raw": m.raw_content[:200], "err": str(e), "expect": expect[:100]}, mech)
        return False
    if got != expect:
        ctx.violation("raw-decodes-to-other-content", {**wit, "coding": eff, "raw": m.raw_content[:200], "ref": got[:100], "expect": expect[:100]}, mech)
        return False
    return True


# ---------------------------------------------------------------------------------------------
# kind 1: assign
# ---------------------------------------------------------------------------------------------

def case_assign(ctx, r):
    ce, klass, canon, sc = gen_coding(r)
    te = r.random() < 0.15
    stale = r.choice([None, None, 0, 7, 999999])
    b, bclass = gen_body(r)
    raw0 = r.choice([b"", None, b"old-body"])
    m = mk_msg(r, ce, raw0, te, stale)
    bodies = [(b, bclass)]
    b2, b2class = gen_body(r, allow_big=False)
    bodies += r.choice([[(b, bclass)], [(b2, b2class)], [(b2, b2class), (b, bclass)]])
    for n, (body, _) in enumerate(bodies):
        wit = {"kind": "assign", "content_encoding": ce, "te": te, "stale_cl": stale, "body": body[:120], "body_len": len(body), "assignment": n}
        ctx.count("assign.no_exception")
        try:
            m.content = body
        except Exception as e:  # set_content documents no exception for bytes input
            ctx.violation(f"assign-raises:{type(e).__name__}", {**wit, "exc": repr(e)[:200]}, classify_exception(e, [ce]))
            break
        ctx.count("assign.content_roundtrip")
        try:
            back = m.content
        except Exception as e:
            ctx.violation(f"read-after-assign-raises:{type(e).__name__}", {**wit, "exc": repr(e)[:200], "headers": list(m.headers.fields)}, classify_exception(e, [ce]))
            break
        if back != body:
            ctx.violation("content-roundtrip-differs", {**wit, "back": back[:120], "raw": m.raw_content[:120]})
        if check_raw(ctx, m, body, "assign.raw_decodes_with_reference", wit) and klass == "supported" and effective(m) != canon:
            # header was dropped or rewritten for a supported coding: still consistent, only recorded
            ctx.count("assign.supported_header_not_retained")
        check_cl(ctx, m, "assign.content_length", wit)
        if ce is not None and ce != "" and klass in ("unknown",) and "content-encoding" not in m.headers:
            ctx.count("assign.unknown_coding_header_removed")
    nontrivial = bool(b) or (canon or klass) != "identity"
    sig = ("assign", klass, canon or (ce if klass != "unknown" else UNKNOWN.index(ce)), sc, bclass, te, stale is not None, len(bodies))
    return sig, nontrivial, {"kind": "assign", "content_encoding": ce, "body": b[:60], "body_len": len(b), "raw": (m.raw_content or b"")[:40], "headers": [list(f) for f in m.headers.fields]}


# ---------------------------------------------------------------------------------------------
# kind 2: recode
# ---------------------------------------------------------------------------------------------

def case_recode(ctx, r):
    c = r.choice(ref.SUPPORTED)
    b, bclass = gen_body(r)
    src = r.choices(["reference", "mitmproxy", "invalid"], [45, 15, 40])[0]
    spelled, sc = spell(r, c)
    canonical = False
    if src == "reference":
        raw, variant = ref.ref_encode(c, b, r)
        canonical = True
    elif src == "mitmproxy":
        tmp = mk_msg(r, c, b"")
        tmp.content = b
        raw, variant = tmp.raw_content, "mitm"
        canonical = True
    else:
        raw, variant = corrupt(r, c, b)
    m = mk_msg(r, spelled, raw, te=r.random() < 0.1, stale_cl=r.choice([None, len(raw), 3]))
    wit = {"kind": "recode", "coding": spelled, "source": src, "variant": variant, "raw": raw[:160], "raw_len": len(raw), "body": b[:100], "body_len": len(b)}
    c2, k2, canon2, sc2 = gen_coding(r, (70, 4, 12, 8, 6, 0))
    sig = ("recode", c, sc, src, variant if src == "invalid" else variant.split("-")[0], bclass, k2, canon2 or c2)
    sample = {"kind": "recode", "coding": spelled, "source": f"{src}/{variant}", "raw": raw[:40], "raw_len": len(raw), "then_encode": c2}
    nontrivial = bool(b) or c != "identity"

    # --- reading the content
    try:
        c0 = m.content
    except ValueError:
        c0 = None
    except Exception as e:
        ctx.count("recode.invalid_only_valueerror")
        ctx.violation(f"content-raises:{type(e).__name__}", {**wit, "exc": repr(e)[:200]})
        return sig, nontrivial, sample
    if canonical:
        ctx.count("recode.reference_stream_decodes")
        if c0 != b:
            ctx.violation("reference-stream-decoded-wrongly", {**wit, "got": None if c0 is None else c0[:100]})
            return sig, nontrivial, sample
    if c0 is None:
        # invalid data: only ValueError, and the non-strict accessors are total
        ctx.count("recode.invalid_only_valueerror")
        ctx.seen("invalid_kinds_rejected", f"{c}/{variant}")
        try:
            if m.get_content(strict=False) != raw:
                ctx.violation("nonstrict-content-not-raw", wit)
            m2 = m.copy()
            try:
                m2.decode()
                ctx.violation("decode-accepts-what-content-rejects", wit)
            except ValueError:
                pass
            m.decode(strict=False)
            m.get_content(strict=False)
        except Exception as e:
            ctx.violation(f"invalid-data-raises:{type(e).__name__}", {**wit, "exc": repr(e)[:200]})
        return sig, nontrivial, sample
    if src == "invalid":
        ctx.seen("invalid_kinds_accepted_leniently", f"{c}/{variant}")
        ctx.count("recode.invalid_accepted_leniently")

    # --- decode() then encode(c2)
    ctx.count("recode.decode_encode_preserves")
    try:
        m.decode()
    except Exception as e:
        ctx.violation(f"decode-raises:{type(e).__name__}", {**wit, "exc": repr(e)[:200]})
        return sig, nontrivial, sample
    if raw:
        if "content-encoding" in m.headers:
            ctx.violation("decode-keeps-content-encoding", {**wit, "headers": list(m.headers.fields)})
        if m.raw_content != c0:
            ctx.violation("decode-raw-differs-from-content", {**wit, "raw_after": m.raw_content[:100], "content_before": c0[:100]})
        check_cl(ctx, m, "recode.content_length_after_decode", wit)
    if m.content != c0:
        ctx.violation("decode-changes-content", {**wit, "after": m.content[:100], "before": c0[:100]})
    if c2 is None:
        return sig, nontrivial, sample
    wit2 = {**wit, "encode": c2}
    try:
        m.encode(c2)
        raised = None
    except ValueError as e:
        raised = e
    except Exception as e:
        ctx.violation(f"encode-raises:{type(e).__name__}", {**wit2, "exc": repr(e)[:200]}, classify_exception(e, [c2]))
        return sig, nontrivial, sample
    if raised is not None and k2 == "supported":
        ctx.violation("encode-rejects-supported-coding", {**wit2, "exc": repr(raised)[:200]})
        return sig, nontrivial, sample
    ctx.count("recode.encode_result")
    try:
        after = m.content
    except Exception as e:
        ctx.violation(f"content-after-encode-raises:{type(e).__name__}", {**wit2, "exc": repr(e)[:200], "headers": list(m.headers.fields)}, classify_exception(e, [c2]))
        return sig, nontrivial, sample
    if after != c0:
        ctx.violation("encode-changes-content", {**wit2, "after": after[:100], "before": c0[:100], "raised": repr(raised)})
    if raised is None:
        if k2 == "supported" and effective(m) != canon2:
            ctx.violation("encode-header-not-set", {**wit2, "headers": list(m.headers.fields)})
        mech = None
        if c in ("gzip", "deflate") and canon2 == c and m.raw_content == raw and not strict_ok(c, raw, c0):
            # the body handed back is the original non-strict gzip / deflate input (served from the cache filled by the decode)
            mech = "encode-returns-cached-nonstrict-original"
        check_raw(ctx, m, c0, "recode.raw_decodes_with_reference", wit2, mech=mech)
        check_cl(ctx, m, "recode.content_length_after_encode", wit2)
    return sig, nontrivial, sample


# ---------------------------------------------------------------------------------------------
# kind 3: history with empty-cache twin
# ---------------------------------------------------------------------------------------------

def outcome(fn):
    try:
        return ("ok", fn())
    except ValueError:
        return ("ValueError", None)
    except Exception as e:  # noqa
        return ("!" + type(e).__name__, repr(e)[:200])


def apply_op(op, msgs):
    name = op[0]
    if name == "dec":
        return outcome(lambda: encoding.decode(op[1], op[2]))
    if name == "enc":
        return outcome(lambda: encoding.encode(op[1], op[2]))
    if name == "text":
        return outcome(lambda: encoding.decode(encoding.encode(op[1], op[2]), op[2]))
    m = msgs[op[1]]
    if name == "get":
        return outcome(lambda: m.content)
    if name == "get_lax":
        return outcome(lambda: m.get_content(strict=False))
    if name == "set":
        return outcome(lambda: m.set_content(op[2]))
    if name == "decode":
        return outcome(lambda: m.decode())
    if name == "encode":
        return outcome(lambda: m.encode(op[2]))
    raise AssertionError(name)


def predicted_hit(op, cache, msgs):
    """Evidence only: would this operation be answered from the one-entry cache? (own reading of the key)"""
    def dec_hit(data, c):
        return cache.encoded is not None and cache.encoded == data and cache.encoding == c.lower()

    def enc_hit(data, c):
        return cache.decoded is not None and cache.decoded == data and cache.encoding == c.lower()

    name = op[0]
    if name == "dec":
        return dec_hit(op[1], op[2])
    if name == "enc":
        return enc_hit(op[1], op[2])
    if name in ("get", "get_lax", "decode"):
        m = msgs[op[1]]
        ce = m.headers.get("content-encoding")
        return bool(ce) and m.raw_content is not None and dec_hit(m.raw_content, ce)
    if name == "set":
        ce = msgs[op[1]].headers.get("content-encoding") or "identity"
        return enc_hit(op[2], ce)
    return False


def hdrs_wo_cl(m):
    return [f for f in m.headers.fields if f[0].lower() != b"content-length"]


def case_history(ctx, r):
    codings = r.sample(["gzip", "deflate", "br", "zstd", "identity", "deflateraw"], 3)
    supported = [c for c in codings if c in ref.SUPPORTED]
    bodies = [gen_body(r, allow_big=False)[0] for _ in range(3)]
    if r.random() < 0.3:
        bodies[1] = bodies[0]  # equal but distinct objects
        bodies[1] = bytes(bytearray(bodies[1]))
    # encoded forms: (data, coding it was made for, original body or None if not canonical)
    forms = []
    for b in bodies:
        for c in codings:
            cc = "deflate" if c == "deflateraw" else c
            forms.append((ref.ref_encode(cc, b, r)[0], c, b))
            if r.random() < 0.5:
                d, kind = corrupt(r, cc, b)
                forms.append((d, c, None))
    msgs, model = [], []
    for _ in range(3):
        d, c, orig = r.choice(forms)
        msgs.append(mk_msg(r, spell(r, c)[0] if r.random() < 0.9 else None, d, te=r.random() < 0.1))
        model.append(orig if msgs[-1].headers.get("content-encoding") else d)
    nonstrict_inputs = set()  # (coding, data) decoded earlier in this history that the strict reference rejects / reads differently
    steps = r.randint(2, 30)
    opnames = set()
    hits = 0
    replaced = 0
    log = []
    for step in range(steps):
        k = r.random()
        if k < 0.25:
            d, c, orig = r.choice(forms)
            if r.random() < 0.25:
                c = r.choice(codings)  # cross-coding decode
                orig = None
            op = ("dec", d, spell(r, c)[0])
        elif k < 0.45:
            op = ("enc", r.choice(bodies), spell(r, r.choice(codings))[0])
        elif k < 0.50:
            op = ("text", r.choice(["abc", "héllo", ""]), r.choice(["utf8", "latin-1", "utf-16"]))
        elif k < 0.68:
            op = (r.choice(["get", "get", "get_lax"]), r.randrange(3))
        elif k < 0.86:
            op = ("set", r.randrange(3), r.choice(bodies))
        elif k < 0.93:
            op = ("decode", r.randrange(3))
        else:
            op = ("encode", r.randrange(3), spell(r, r.choice(codings))[0])
        opnames.add(op[0])
        log.append((op[0],) + tuple(x if not isinstance(x, bytes) else f"<{len(x)}B {x[:12]!r}>" for x in op[1:]))
        wit = {"kind": "history", "step": step, "op": log[-1], "history": log[-12:], "codings": codings}

        pre_cache = encoding._cache
        if predicted_hit(op, pre_cache, msgs):
            hits += 1
            ctx.count("history.steps_with_cache_hit")
        # remember what is about to be decoded
        dec_input = None
        if op[0] == "dec":
            dec_input = (op[2].lower(), op[1])
        elif op[0] in ("get", "get_lax", "decode"):
            m = msgs[op[1]]
            ce = m.headers.get("content-encoding")
            if ce and m.raw_content is not None:
                dec_input = (ce.lower(), m.raw_content)
        twins = [m.copy() for m in msgs]
        pre_raw = msgs[op[1]].raw_content if op[0] in ("set", "decode", "encode") else None
        real = apply_op(op, msgs)
        post_cache = encoding._cache
        if post_cache is not pre_cache and pre_cache.encoding is not None:
            replaced += 1
        encoding._cache = EMPTY_CACHE
        try:
            twin = apply_op(op, twins)
        finally:
            encoding._cache = post_cache
        ctx.count("history.twin_compare")

        if real[0].startswith("!") or twin[0].startswith("!"):
            ctx.violation(f"history-raises:{(real[0] if real[0].startswith('!') else twin[0])[1:]}", {**wit, "real": real, "twin": twin})
            break
        if real[0] != twin[0]:
            ctx.violation("history-dependent-outcome", {**wit, "real": (real[0], real[1] if real[1] is None else real[1][:80]), "twin": (twin[0], twin[1] if twin[1] is None else twin[1][:80])})
            break
        if dec_input and real[0] == "ok" and dec_input[0] in ref.SUPPORTED and dec_input[0] != "identity":
            got = real[1] if op[0] != "decode" else msgs[op[1]].raw_content
            if isinstance(got, bytes) and not strict_ok(dec_input[0], dec_input[1], got):
                nonstrict_inputs.add(dec_input)

        def mech_for(encoded, coding):
            if coding in ("gzip", "deflate") and (coding, encoded) in nonstrict_inputs:
                return "encode-returns-cached-nonstrict-original"
            return None

        name = op[0]
        if name in ("dec", "text", "get", "get_lax"):
            if real[1] != twin[1]:
                ctx.violation("history-dependent-decode", {**wit, "real": real[1][:100] if real[1] is not None else None, "twin": twin[1][:100] if twin[1] is not None else None})
                break
            if name == "dec" and real[0] == "ok":
                # independent: canonical reference streams decode to their original body
                for d, c, orig in forms:
                    if orig is not None and d == op[1] and c == op[2].lower() and c in ref.SUPPORTED:
                        ctx.count("history.decode_matches_reference")
                        if real[1] != orig:
                            ctx.violation("history-decode-wrong", {**wit, "got": real[1][:100], "expect": orig[:100]})
                        break
            if name == "get" and real[0] == "ok" and model[op[1]] is not None:
                ctx.count("history.message_content_matches_model")
                if real[1] != model[op[1]]:
                    ctx.violation("history-message-content-wrong", {**wit, "got": real[1][:100], "expect": model[op[1]][:100]})
                    break
        elif name == "enc":
            c = op[2].lower()
            if real[0] == "ok" and c in ref.SUPPORTED:
                ctx.count("history.encode_decodes_with_reference")
                if real[1] == b"" and op[1] == b"" and c != "identity":
                    ctx.count("history.empty_raw_tolerated")
                for who, val in (("real", real[1]), ("twin", twin[1])):
                    try:
                        ok = ref.ref_decode(c, val, empty_ok=True) == op[1]
                    except ref.RefDecodeError:
                        ok = False
                    if not ok:
                        ctx.violation(
                            f"history-{who}-encode-not-reference-decodable",
                            {**wit, "encoded": val[:160], "body": op[1][:100], "twin_encoded": twin[1][:60]},
                            mech_for(val, c) if who == "real" else None,
                        )
                        break
            elif real[0] == "ok" and real[1] != twin[1]:
                # deflateraw alias: compare as deflate contents
                try:
                    same = ref.ref_decode("deflate", real[1], True, True) == ref.ref_decode("deflate", twin[1], True, True) == op[1]
                except ref.RefDecodeError:
                    same = False
                if not same:
                    ctx.violation("history-dependent-encode", {**wit, "real": real[1][:100], "twin": twin[1][:100]})
                    break
        else:  # set / decode / encode on a message: compare post-states
            m, t = msgs[op[1]], twins[op[1]]
            if hdrs_wo_cl(m) != hdrs_wo_cl(t):
                ctx.violation("history-dependent-headers", {**wit, "real": list(m.headers.fields), "twin": list(t.headers.fields)})
                break
            if (m.raw_content is None) != (t.raw_content is None):
                ctx.violation("history-dependent-raw-none", wit)
                break
            if m.raw_content is not None and real[0] == "ok":
                if name == "set":
                    model[op[1]] = op[2]
                    check_cl(ctx, m, "history.content_length", wit)
                if name == "encode":
                    # Message.encode does not decode first: the new content is the previous raw body
                    model[op[1]] = pre_raw
                eff = effective(m, aliases=True)
                alias_tol = effective(m) is None  # deflateraw / none aliases: only twin equivalence as deflate contents
                if eff is not None and model[op[1]] is not None:
                    ctx.count("history.message_raw_decodes_with_reference")
                    for who, mm in (("real", m), ("twin", t)):
                        try:
                            ok = ref.ref_decode(eff, mm.raw_content, empty_ok=True, raw_deflate_ok=alias_tol) == model[op[1]]
                        except ref.RefDecodeError:
                            ok = False
                        if not ok:
                            ctx.violation(
                                f"history-{who}-message-raw-not-reference-decodable",
                                {**wit, "coding": eff, "raw": mm.raw_content[:160], "expect": model[op[1]][:100], "twin_raw": t.raw_content[:60]},
                                mech_for(mm.raw_content, eff) if who == "real" else None,
                            )
                            break
                elif m.raw_content != t.raw_content:
                    # content not known to the model (invalid start) or other codec: bodies must at least be contents-equal
                    same = False
                    if eff is not None:
                        try:
                            same = ref.ref_decode(eff, m.raw_content, True, alias_tol) == ref.ref_decode(eff, t.raw_content, True, alias_tol)
                        except ref.RefDecodeError:
                            same = False
                    if not same:
                        ctx.violation(
                            "history-dependent-raw",
                            {**wit, "real": m.raw_content[:160], "twin": t.raw_content[:100]},
                            mech_for(m.raw_content, eff) if eff else None,
                        )
                        break
            elif real[0] == "ValueError" and name == "set":
                ctx.violation("set-content-raises-valueerror", wit)
                break
    nontrivial = hits >= 1 and replaced >= 1
    sig = ("history", tuple(sorted(opnames)), tuple(sorted(codings)), min(hits, 4), min(replaced, 4), steps // 6)
    return sig, nontrivial, {"kind": "history", "codings": codings, "bodies": [b[:24] for b in bodies], "ops": log[:14], "cache_hits": hits, "cache_replacements": replaced}


def run(ctx):
    for i in ctx.cases():
        r = ctx.rng
        # every case starts from an empty cache: histories are generated inside a case, and a case must replay alone
        encoding._cache = EMPTY_CACHE
        kind = r.choices(["assign", "recode", "history"], [35, 30, 35])[0]
        if kind == "assign":
            sig, nt, sample = case_assign(ctx, r)
        elif kind == "recode":
            sig, nt, sample = case_recode(ctx, r)
        else:
            sig, nt, sample = case_history(ctx, r)
        ctx.case(sig, nontrivial=nt, sample=sample)
