"""C16 -- generated leaf certificates are valid for the identity the client asked for.

The real TlsConfig addon (taddons.context, throw-away confdir under /tmp) is asked for the certificate of a generated
connection context (client SNI or, without SNI, the local address; server address; optional synthetic upstream
certificate minted with `cryptography`; default mitmproxy CA or a custom root+intermediate CA file). Monitors on the
CertStoreEntry returned by TlsConfig.get_cert (and, for a share of the cases, on the certificate actually installed in
the pyOpenSSL connection built by the real tls_start_client hook, verified through an in-memory handshake):

* issued_by_ca      issuer name == CA subject and the signature verifies with the CA key
* valid_now         notBefore <= now <= notAfter
* server_auth       ExtendedKeyUsage contains serverAuth
* strict_verify     two independent strict verifiers accept the chain for the requested identity:
                    cryptography.x509.verification (PolicyBuilder...build_server_verifier) and OpenSSL X509_verify_cert
                    with X509_V_FLAG_X509_STRICT + host/ip check (no partial wildcards, never check subject);
                    a verifier that cannot express the identity syntax (underscore, trailing dot) is inconclusive
* names_subset      every SAN / subject CN / O comes from {SNI or local address, server address, upstream CN/SANs/O}
* total             get_cert / tls_start_client do not raise
"""
from __future__ import annotations

import atexit
import datetime
import ipaddress
import os
import time
import unicodedata

from cryptography import x509
from cryptography.hazmat.primitives import hashes
from cryptography.hazmat.primitives import serialization
from cryptography.hazmat.primitives.asymmetric import rsa
from cryptography.x509 import verification
from cryptography.x509.oid import ExtendedKeyUsageOID
from cryptography.x509.oid import NameOID
from OpenSSL import SSL
from OpenSSL import crypto

from mitmproxy import certs as mcerts
from mitmproxy import connection
from mitmproxy.addons import tlsconfig
from mitmproxy.proxy import context
from mitmproxy.test import taddons
from mitmproxy.tls import TlsData

from vf.gen import c15_pki as P

PROPERTY = "C16"
LEVEL = "exploration"
ENGINE = "direct"
TECHNIQUE = "differential against two strict X.509 verifiers (cryptography, OpenSSL X509_STRICT) + construction-time identity sets"
BUDGET = {"quick": (700, 15), "thorough": (60_000, 200)}
WORKERS = {"quick": 2, "thorough": 16}
REQUIRED = ["issued_by_ca", "valid_now", "server_auth", "strict_verify_cryptography", "strict_verify_openssl", "names_subset", "handshake_verified", "stale_custom_cert_checked",
            "issued_at_t0", "issued_at_later_wall_clock", "issued_at_earlier_wall_clock", "issued_after_197_days_uptime",
            *[f"issued_under_tz:{z}" for z in ("UTC", "UTC-12", "UTC-5", "UTC-3:30", "UTC+5:30", "UTC+9", "UTC+12", "UTC+12:45", "UTC+14")]]
RULE = (
    "case = (SNI class: short / random host / 63-byte label / 253-byte name / name longer than a CN / A-label / mixed case / "
    "trailing dot / underscore / IPv4 / IPv6 literal / absent with IPv4, IPv6, v4-mapped or scoped local address) x (server "
    "address: none / same or other host name / U-label / IPv4 / IPv6) x (upstream certificate: none / option off / CN only / CN+SAN / "
    "mixed SAN types incl. wildcard, IP, email, URI, directoryName / CN with spaces, non-ASCII, empty label, 64-byte label / no CN / "
    "organization / CRL distribution point valid, unparsable, ldap, scheme-less / SANs mirroring the connection's own identities in "
    "the wrong GeneralName type (IP literal as dNSName), in another letter case, or duplicated across CN and SAN) x (optional runtime "
    "history of the `certs` option through the real configure(): add / replace / remove of custom certificates registered by exact, "
    "wildcard, '*', bare-file, SAN or CN, after which the connection's SNI, server address or upstream SAN hits the spec that is "
    "no longer configured; a still-configured spec is a control and exempt) x (process time zone at issue time: UTC, UTC-12, -5, -3:30, +5:30, +9, +12, +12:45, +14, "
    "set with TZ/tzset around the real issuance while validity is judged with the true UTC clock) x (virtual wall clock of the issuance relative to process start, same process: +0, +1, +100, +197..+200, +400 days "
    "and set back by 1, 100, 400 days, installed as the `datetime` name mitmproxy.certs reads; verifiers run at the same virtual now; "
    "a leaf served from the store cache is judged at its own issue time; the CA is created 600 virtual days earlier) x (CA: mitmproxy default / custom root + "
    "intermediate with non-SHA1 key identifier) x (observation: get_cert, or tls_start_client + in-memory strict handshake). "
    "distinct = that class tuple; non-trivial = a certificate was produced and both legs of strict verification were evaluated, "
    "or get_cert raised"
)
ASSUMPTIONS = [
    "client SNI values are restricted to what a ClientHello can carry after mitmproxy's own parsing (LDH/underscore labels <= 63, <= 253 bytes, A-labels, IP literals); server addresses are valid host names, U-label names or IP literals",
    "the reference identity for a scoped link-local local address is the address without the zone",
    "a verifier that cannot represent the identity (cryptography: underscore, trailing dot) is inconclusive and the other one decides",
    "the wall clock is virtual: the `datetime` name in mitmproxy.certs is replaced by a pass-through shim whose datetime.now()/utcnow() add an offset to the real time (time zone handling unchanged); 'time of issue' is that virtual now, also handed to both verifiers; the process time zone is set with TZ + tzset",
    "the CAs (mitmproxy's own, created 600 virtual days before t0; the custom chain with a +-800 day window) are valid over the whole range of virtual times, so only the leaf decides",
]
LEVEL_TEXT = (
    "Exploration: identity and upstream-certificate forms are sampled from classes. Each produced certificate is decided "
    "exactly by two independent strict verifiers and by set inclusion against identities known by construction."
)
LEVEL_NOTE = "trusted: cryptography's path validator, OpenSSL X509_verify_cert, the throw-away custom CA built by vf/gen/c15_pki.py"

ALPH = "abcdefghijklmnopqrstuvwxyz0123456789"
ULABELS = {"bücher": "xn--bcher-kva", "münchen": "xn--mnchen-3ya", "例え": "xn--r8jz45g", "café": "xn--caf-dma"}


def rl(r, n=None):
    return "".join(r.choice(ALPH) for _ in range(n or r.choice([1, 2, 5, 9, 14])))


def rhost(r):
    return ".".join(rl(r) for _ in range(r.choice([1, 2, 2, 3]))) + r.choice([".test", ".example", ".co.invalid"])


def gen_sni(r):
    """-> (class, sni or None, sockname host)"""
    k = r.choice(["short", "host", "host", "label63", "name253", "longer-than-cn", "alabel", "mixedcase", "trailingdot", "underscore", "ipv4", "ipv6", "digits",
                  "none-v4", "none-v4", "none-v6", "none-v4mapped", "none-scoped"])
    sock = "127.0.0.1"
    if k == "short":
        return k, "a.test", sock
    if k == "host":
        return k, rhost(r), sock
    if k == "label63":
        return k, rl(r, 63) + "." + rhost(r), sock
    if k == "name253":
        return k, ".".join([rl(r, 63), rl(r, 63), rl(r, 63), rl(r, 61)]), sock
    if k == "longer-than-cn":
        return k, ".".join([rl(r, 30), rl(r, 20), rl(r, r.choice([10, 11, 12, 40]))]) + ".test", sock
    if k == "alabel":
        return k, r.choice(list(ULABELS.values())) + "." + rhost(r), sock
    if k == "mixedcase":
        h = rhost(r)
        return k, "".join(c.upper() if r.random() < 0.5 else c for c in h), sock
    if k == "trailingdot":
        return k, rhost(r) + ".", sock
    if k == "underscore":
        return k, "_" + rl(r) + "." + rl(r) + "_" + rl(r) + "." + rhost(r), sock
    if k == "ipv4":
        return k, f"192.0.2.{r.randrange(1, 255)}", sock
    if k == "ipv6":
        return k, f"2001:db8::{r.randrange(1, 65535):x}", sock
    if k == "digits":
        return k, f"{r.randrange(1000)}.{r.randrange(1000)}.test", sock
    if k == "none-v4":
        return k, None, f"10.{r.randrange(256)}.{r.randrange(256)}.{r.randrange(1, 255)}"
    if k == "none-v6":
        return k, None, r.choice(["::1", f"fd00::{r.randrange(1, 65535):x}"])
    if k == "none-v4mapped":
        return k, None, f"::ffff:192.0.2.{r.randrange(1, 255)}"
    return k, None, "fe80::1%eth0"


def gen_addr(r, sni):
    k = r.choice(["none", "none", "same", "host", "host", "ulabel", "ipv4", "ipv6", "upper"])
    if k == "none":
        return k, None
    if k == "same":
        if sni is None:
            return "host", (rhost(r), 443)
        return k, (sni, 443)
    if k == "host":
        return k, (rhost(r), 443)
    if k == "ulabel":
        return k, (r.choice(list(ULABELS)) + "." + rhost(r), 443)
    if k == "ipv4":
        return k, (f"203.0.113.{r.randrange(1, 255)}", 443)
    if k == "ipv6":
        return k, (f"2001:db8:1::{r.randrange(1, 65535):x}", 443)
    return k, (rhost(r).upper(), 8443)


def _swapcase_some(r, s):
    out = "".join(c.upper() if c.islower() and r.random() < 0.6 else c for c in s)
    return out if out != s else s.upper()


def mirror_sans(r, idents):
    """SANs that repeat the connection's own identities (SNI or local address, server address) inside the upstream
    certificate: the same value in the 'wrong' GeneralName type (an IP literal as dNSName -- a common mis-issuance),
    the same DNS name in another case, and the correctly typed duplicate, in random order."""
    out = []
    for v in idents:
        bare = v.partition("%")[0]
        if _is_ip(bare):
            forms = [f"dns:{bare}"]  # wrong type
            if r.random() < 0.4:
                forms.append(f"ip:{bare}")  # and the right one
            if ":" in bare and r.random() < 0.3:
                forms.append("dns:" + ipaddress.ip_address(bare).exploded)
        else:
            a = dns_norm(v).rstrip(".")
            if not a or any(len(x) > 63 or not x for x in a.split(".")):
                continue
            forms = ["dns:" + _swapcase_some(r, a)]
            if r.random() < 0.4:
                forms.append("dns:" + a)
        out.extend(forms)
    r.shuffle(out)
    return out


def gen_upstream(r, pki, sni, sock="127.0.0.1", addr=None):
    """-> (class, upstream cryptography cert or None, use_option: bool)"""
    k = r.choice(["none", "none", "option-off", "cn-dns", "cn+san", "san-mixed", "san-exotic", "cn-spaces", "cn-nonascii", "cn-emptylabel", "cn-label64",
                  "cn-64-dns", "no-cn", "org", "org-nonascii", "crl-valid", "crl-unparsable", "crl-ldap", "crl-noscheme", "san-dup-sni", "cn-ip", "cn-wildcard",
                  "san-mirror-identity", "san-mirror-identity", "san-mirror-all", "cn+san-mirror-identity"])
    if k == "none":
        return k, None, True
    h = rhost(r)
    kw = {"cn": h, "sans": None}
    first = sni if sni is not None else sock
    if k in ("san-mirror-identity", "san-mirror-all", "cn+san-mirror-identity"):
        idents = [first] + ([addr[0]] if addr and k != "san-mirror-identity" else [])
        sans = mirror_sans(r, idents)
        if r.random() < 0.5:
            sans.insert(r.randrange(len(sans) + 1), f"dns:{h}")
        kw["sans"] = sans or [f"dns:{h}"]
        if k == "cn+san-mirror-identity":
            bare = first.partition("%")[0].rstrip(".")
            kw["cn"] = bare if 0 < len(bare) <= 64 and all(0 < len(x) <= 63 for x in (bare.split(".") if not _is_ip(bare) else ["x"])) else h
        cert = pki.leaf(issuer="root_b", **kw)
        return k, cert, True
    if k == "option-off":
        kw["sans"] = ["dns:leak." + h, "ip:198.51.100.77"]
        kw["org"] = "Leaky Org"
    elif k == "cn-dns":
        pass
    elif k == "cn+san":
        kw["sans"] = [f"dns:{h}", f"dns:*.{h}", f"dns:{rhost(r)}"]
    elif k == "san-mixed":
        kw["sans"] = [f"dns:*.{h}", "ip:198.51.100.9", "ip:2001:db8::9", "email:admin@" + h, "uri:https://" + h + "/x"]
    elif k == "san-exotic":
        kw["sans"] = [x509.DirectoryName(P.name("dir " + rl(r), "dir org")), x509.RegisteredID(x509.ObjectIdentifier("1.3.6.1.4.1.99999.1")), x509.DNSName(h),
                      x509.OtherName(x509.ObjectIdentifier("1.3.6.1.4.1.311.20.2.3"), b"\x0c\x03abc")]
    elif k == "cn-spaces":
        kw["cn"] = r.choice(["Some Org Ltd", "Example Intermediate CA 1", "my server", "host name.test"])
    elif k == "cn-nonascii":
        kw["cn"] = r.choice(["Bücher GmbH", "例え.テスト", "bücher.example", "Ünïcödé Sérvér"])
    elif k == "cn-emptylabel":
        kw["cn"] = r.choice(["a..b", ".example.test", "host..example.test", ".."])
    elif k == "cn-label64":
        kw["cn"] = r.choice([rl(r, 64), "Very Long Descriptive Common Name Without Any Dots In It At All 01"[:64].ljust(64, "x")])
    elif k == "cn-64-dns":
        kw["cn"] = ".".join([rl(r, 20), rl(r, 20), rl(r, 17)]) + ".test"
        assert len(kw["cn"]) == 64
    elif k == "no-cn":
        kw["cn"] = None
        kw["sans"] = [f"dns:{h}"]
    elif k == "org":
        kw["org"] = r.choice(["Example Org", "O" * 64, "A, B & C \"quoted\" <org>"])
        kw["sans"] = [f"dns:{h}"]
    elif k == "org-nonascii":
        kw["org"] = "Bücher & Söhne 例え"
    elif k == "crl-valid":
        kw["crl_urls"] = [f"http://crl.{h}/root.crl", "http://second.test/2.crl"]
        kw["sans"] = [f"dns:{h}"]
    elif k == "crl-unparsable":
        kw["crl_urls"] = [r.choice(["http://[::1/x.crl", "http://[invalid/x", "//[x"])]
    elif k == "crl-ldap":
        kw["crl_urls"] = ["ldap://ldap.test/cn=crl,dc=test?certificateRevocationList;binary"]
    elif k == "crl-noscheme":
        kw["crl_urls"] = [r.choice(["crl.test/x.crl", "/just/a/path", "x", "http:///nohost"])]
    elif k == "san-dup-sni":
        kw["sans"] = [f"dns:{sni}" if sni and not _is_ip(sni) else f"dns:{h}", f"dns:{h}"]
        if sni and not _is_ip(sni):
            kw["cn"] = sni if len(sni) <= 64 else h
    elif k == "cn-ip":
        kw["cn"] = r.choice(["198.51.100.20", "2001:db8::20"])
    elif k == "cn-wildcard":
        kw["cn"] = "*." + h
    cert = pki.leaf(issuer="root_b", **kw)
    return k, cert, k != "option-off"


def _sans_repr(cert):
    if cert is None:
        return None
    try:
        return [repr(g)[:80] for g in cert.extensions.get_extension_for_class(x509.SubjectAlternativeName).value][:12]
    except x509.ExtensionNotFound:
        return None


def _is_ip(s):
    try:
        ipaddress.ip_address(s)
        return True
    except ValueError:
        return False


# ---------------------------------------------------------------------------------------------
# environment: real TlsConfig with two certificate stores (default CA, custom root+intermediate)
# ---------------------------------------------------------------------------------------------

# ---------------------------------------------------------------------------------------------
# virtual wall clock: the clock source mitmproxy.certs reads (datetime.datetime.now through its module-level `datetime`
# name) is replaced by a shim that adds CLOCK["delta"] seconds to the real time; everything else of the datetime module is
# passed through. The oracles judge at the same virtual now.
# ---------------------------------------------------------------------------------------------

CLOCK = {"delta": 0.0}
DAY_S = 86400.0


def vnow_utc():
    return datetime.datetime.fromtimestamp(time.time() + CLOCK["delta"], datetime.timezone.utc)


class _VirtualDatetime(datetime.datetime):
    @classmethod
    def now(cls, tz=None):
        # plain datetime objects (not the subclass), local time of the process TZ when tz is None -- like the real one
        return datetime.datetime.fromtimestamp(time.time() + CLOCK["delta"], tz)

    @classmethod
    def utcnow(cls):
        return datetime.datetime.fromtimestamp(time.time() + CLOCK["delta"], datetime.timezone.utc).replace(tzinfo=None)

    @classmethod
    def today(cls):
        return cls.now()


class _DatetimeModuleShim:
    datetime = _VirtualDatetime

    def __getattr__(self, name):
        return getattr(datetime, name)


class wall_clock:
    def __init__(self, delta_days):
        self.delta = delta_days * DAY_S

    def __enter__(self):
        self.old = CLOCK["delta"]
        CLOCK["delta"] = self.delta

    def __exit__(self, *a):
        CLOCK["delta"] = self.old
        return False


_STATE = {}


def state():
    if _STATE:
        return _STATE
    pki = P.Pki(prefix="vf-c16-")
    atexit.register(pki.cleanup)
    ta = tlsconfig.TlsConfig()
    tctx = taddons.context(ta)
    assert mcerts.datetime is datetime or isinstance(mcerts.datetime, _DatetimeModuleShim)
    mcerts.datetime = _DatetimeModuleShim()
    d_default = pki.dir / "conf-default"
    with wall_clock(-600):  # the CA is older than the leaves: created by the real code 600 (virtual) days ago
        tctx.configure(ta, confdir=str(d_default))  # the real code creates its CA here
    store_default = ta.certstore
    # custom CA: RSA intermediate (key identifier = truncated SHA-256, RFC 7093) under an EC root; file = key + intermediate + root
    # a custom chain that is valid over the whole range of virtual wall-clock times
    wroot_key = P.key()
    wroot = P.make_cert(subject=P.name("vf custom root (wide validity)", "vf custom"), pubkey=wroot_key.public_key(), issuer_cert=None, issuer_key=wroot_key, ca=True,
                        not_before=P.now() - 900 * P.DAY, not_after=P.now() + 900 * P.DAY)
    wroot_file = pki.dir / "custom-root-wide.pem"
    wroot_file.write_bytes(P.pem_cert(wroot))
    ikey = rsa.generate_private_key(public_exponent=65537, key_size=2048)
    h = hashes.Hash(hashes.SHA256())
    h.update(ikey.public_key().public_bytes(serialization.Encoding.DER, serialization.PublicFormat.PKCS1))
    ski = h.finalize()[:20]
    b = (
        x509.CertificateBuilder()
        .subject_name(P.name("vf custom intermediate", "vf custom"))
        .issuer_name(wroot.subject)
        .public_key(ikey.public_key())
        .serial_number(x509.random_serial_number())
        .not_valid_before(P.now() - 800 * P.DAY)
        .not_valid_after(P.now() + 800 * P.DAY)
        .add_extension(x509.BasicConstraints(ca=True, path_length=0), critical=True)
        .add_extension(x509.KeyUsage(False, False, False, False, False, True, True, False, False), critical=True)
        .add_extension(x509.SubjectKeyIdentifier(ski), critical=False)
        .add_extension(x509.AuthorityKeyIdentifier.from_issuer_public_key(wroot.public_key()), critical=False)
    )
    icert = b.sign(wroot_key, hashes.SHA256())
    d_custom = pki.dir / "conf-custom"
    d_custom.mkdir()
    (d_custom / "mitmproxy-ca.pem").write_bytes(
        ikey.private_bytes(serialization.Encoding.PEM, serialization.PrivateFormat.TraditionalOpenSSL, serialization.NoEncryption())
        + P.pem_cert(icert)
        + P.pem_cert(wroot)
    )
    tctx.configure(ta, confdir=str(d_custom))
    store_custom = ta.certstore
    assert store_custom.default_chain_file is not None and store_default.default_chain_file is None
    root_default = store_default.default_ca.to_cryptography()
    rd = pki.dir / "root-default.pem"
    rd.write_bytes(P.pem_cert(root_default))
    _STATE.update(
        pki=pki, ta=ta, tctx=tctx,
        stores={"default": store_default, "custom": store_custom},
        roots={"default": root_default, "custom": wroot},
        rootfiles={"default": str(rd), "custom": str(wroot_file)},
        issued_at={},
        inters={"default": [], "custom": [icert]},
        confdirs={"default": str(d_default), "custom": str(d_custom)},
        upstream_opt=None,
    )
    return _STATE


# ---------------------------------------------------------------------------------------------
# strict verifiers
# ---------------------------------------------------------------------------------------------

def verify_cryptography(leaf, inters, root, ident, is_ip):
    """-> ('ok'|'fail'|'inconclusive', detail)"""
    try:
        subject = verification.IPAddress(ipaddress.ip_address(ident)) if is_ip else verification.DNSName(ident)
    except ValueError as e:
        return "inconclusive", f"subject syntax: {e}"
    try:
        v = verification.PolicyBuilder().store(verification.Store([root])).time(vnow_utc()).build_server_verifier(subject)
    except ValueError as e:
        return "inconclusive", f"subject syntax: {e}"
    try:
        v.verify(leaf, inters)
        return "ok", ""
    except verification.VerificationError as e:
        return "fail", str(e)[:300]


_HOSTFLAGS = SSL._lib.X509_CHECK_FLAG_NO_PARTIAL_WILDCARDS | SSL._lib.X509_CHECK_FLAG_NEVER_CHECK_SUBJECT


class Unrepresentable(Exception):
    pass


def _strict_param(param, ident, is_ip):
    SSL._lib.X509_VERIFY_PARAM_set_flags(param, SSL._lib.X509_V_FLAG_X509_STRICT)
    SSL._lib.X509_VERIFY_PARAM_set_hostflags(param, _HOSTFLAGS)
    SSL._lib.X509_VERIFY_PARAM_set_time(param, int(time.time() + CLOCK["delta"]))  # verify at the virtual now
    if is_ip:
        packed = ipaddress.ip_address(ident).packed
        assert SSL._lib.X509_VERIFY_PARAM_set1_ip(param, packed, len(packed)) == 1
    else:
        hb = ident.encode("ascii")
        if SSL._lib.X509_VERIFY_PARAM_set1_host(param, hb, len(hb)) != 1:
            raise Unrepresentable(f"OpenSSL refuses {ident!r} as a reference host name")


def verify_openssl(leaf, inters, root, ident, is_ip):
    """X509_verify_cert with X509_STRICT and the identity check, no handshake."""
    store = crypto.X509Store()
    store.add_cert(crypto.X509.from_cryptography(root))
    param = SSL._lib.X509_VERIFY_PARAM_new()
    param = SSL._ffi.gc(param, SSL._lib.X509_VERIFY_PARAM_free)
    _strict_param(param, ident, is_ip)
    assert SSL._lib.X509_STORE_set1_param(store._store, param) == 1
    sc = crypto.X509StoreContext(store, crypto.X509.from_cryptography(leaf), chain=[crypto.X509.from_cryptography(c) for c in inters] or None)
    try:
        sc.verify_certificate()
        return "ok", ""
    except crypto.X509StoreContextError as e:
        return "fail", str(e)[:300]


def handshake_verify(ssl_server: SSL.Connection, rootfile, ident, is_ip):
    """Strict pyOpenSSL client against the connection object built by the real tls_start_client hook.
    -> (ok, detail, leaf seen by the client, number of chain certs seen)"""
    cctx = SSL.Context(SSL.TLS_CLIENT_METHOD)
    cctx.load_verify_locations(rootfile)
    cctx.set_verify(SSL.VERIFY_PEER)
    c = SSL.Connection(cctx)
    _strict_param(SSL._lib.SSL_get0_param(c._ssl), ident, is_ip)
    if not is_ip and not ident.endswith("."):
        c.set_tlsext_host_name(ident.encode("ascii"))
    c.set_connect_state()
    cdone = sdone = False
    err = None
    for _ in range(20):
        if not cdone:
            try:
                c.do_handshake()
                cdone = True
            except SSL.WantReadError:
                pass
            except SSL.Error as e:
                err = f"client: {e!r}"
                vr = SSL._lib.SSL_get_verify_result(c._ssl)
                if vr:
                    err += " / " + SSL._ffi.string(SSL._lib.X509_verify_cert_error_string(vr)).decode()
                break
        try:
            ssl_server.bio_write(c.bio_read(65536))
        except SSL.WantReadError:
            pass
        if not sdone:
            try:
                ssl_server.do_handshake()
                sdone = True
            except SSL.WantReadError:
                pass
            except SSL.Error as e:
                err = f"server: {e!r}"
                break
        try:
            c.bio_write(ssl_server.bio_read(65536))
        except SSL.WantReadError:
            pass
        if cdone and sdone:
            break
    if err is None and not (cdone and sdone):
        err = "handshake did not finish"
    seen = c.get_peer_certificate(as_cryptography=True) if cdone else None
    chain = c.get_peer_cert_chain(as_cryptography=True) if cdone else None
    return err is None, err or "", seen, len(chain or [])


# ---------------------------------------------------------------------------------------------
# identity sets
# ---------------------------------------------------------------------------------------------

def dns_norm(s: str) -> str:
    """A-label lower-case form of a host name from the tables used by the generator."""
    out = []
    for lab in s.split("."):
        out.append(ULABELS.get(lab.lower(), lab).lower())
    return ".".join(out)


def cn_matches(dns_value: str, cn: str) -> bool:
    """Is the dNSName plausibly 'the upstream CN' (ASCII as is, or its IDNA/ACE spelling)?"""
    if dns_value.lower() == cn.lower():
        return True
    try:
        dec = dns_value.encode("ascii").decode("idna")
    except (UnicodeError, ValueError):
        return False
    f = lambda x: unicodedata.normalize("NFKC", x).casefold()  # noqa
    return f(dec) == f(cn)


def allowed_names(sni, sock, addr, upstream, upstream_used):
    ids = set()  # ('dns', lower a-label) / ('ip', ip object)
    first = sni if sni is not None else sock

    def add(v):
        try:
            ids.add(("ip", ipaddress.ip_address(v.partition("%")[0])))  # the zone of a scoped address is not part of the identity
        except ValueError:
            ids.add(("dns", dns_norm(v)))

    add(first)
    if addr:
        add(addr[0])
    return ids


def check_names(leaf, sni, sock, addr, upstream, upstream_used):
    """-> list of problems: names in the leaf that come from nowhere."""
    probs = []
    ids = allowed_names(sni, sock, addr, upstream, upstream_used)
    up_cn = up_org = None
    up_sans = []
    if upstream is not None and upstream_used:
        a = upstream.subject.get_attributes_for_oid(NameOID.COMMON_NAME)
        up_cn = a[0].value if a else None
        o = upstream.subject.get_attributes_for_oid(NameOID.ORGANIZATION_NAME)
        up_org = o[0].value if o else None
        try:
            up_sans = list(upstream.extensions.get_extension_for_class(x509.SubjectAlternativeName).value)
        except x509.ExtensionNotFound:
            up_sans = []

    def ok_dns(v):
        if ("dns", v.lower()) in ids:
            return True
        if up_cn is not None and cn_matches(v, up_cn):
            return True
        return any(isinstance(g, x509.DNSName) and g.value.lower() == v.lower() for g in up_sans)

    def ok_ip(ip):
        if ("ip", ip) in ids:
            return True
        if up_cn is not None and _is_ip(up_cn) and ipaddress.ip_address(up_cn) == ip:
            return True
        return any(isinstance(g, x509.IPAddress) and g.value == ip for g in up_sans)

    try:
        sans = list(leaf.extensions.get_extension_for_class(x509.SubjectAlternativeName).value)
    except x509.ExtensionNotFound:
        sans = []
        probs.append("leaf has no subjectAltName")
    for g in sans:
        if isinstance(g, x509.DNSName):
            if not ok_dns(g.value):
                probs.append(f"SAN dNSName {g.value!r} from nowhere")
        elif isinstance(g, x509.IPAddress):
            if not ok_ip(g.value):
                probs.append(f"SAN iPAddress {g.value} from nowhere")
        elif g not in up_sans:
            probs.append(f"SAN {g!r} from nowhere")
    cn = leaf.subject.get_attributes_for_oid(NameOID.COMMON_NAME)
    if cn:
        v = cn[0].value
        raw = {x for x in (sni if sni is not None else sock, addr[0] if addr else None) if x}
        if not (v in raw or (_is_ip(v) and ok_ip(ipaddress.ip_address(v))) or ok_dns(v)):
            probs.append(f"subject CN {v!r} from nowhere")
    org = leaf.subject.get_attributes_for_oid(NameOID.ORGANIZATION_NAME)
    if org and org[0].value != up_org:
        probs.append(f"subject O {org[0].value!r} from nowhere")
    others = [a for a in leaf.subject if a.oid not in (NameOID.COMMON_NAME, NameOID.ORGANIZATION_NAME)]
    if others:
        probs.append(f"subject attributes {others!r} from nowhere")
    return probs


def classify(kind, up_k, up_cn, sni_k, exc=None):
    """Mechanism from the generated input only (for escapes additionally gated on the exception class)."""
    if kind == "raises" and up_cn is not None and isinstance(exc, UnicodeError):
        labels = up_cn.split(".")
        if any(len(x) > 63 for x in labels):
            return "upstream-cn-label-longer-than-63"
        if any(x == "" for x in labels[:-1]) or up_cn.startswith("."):
            return "upstream-cn-empty-label"
    return None


# ---------------------------------------------------------------------------------------------

def gen_certs_history(r, pki):
    """A runtime history of the `certs` option (add / replace / remove of custom certificates) and a victim name that
    was covered by a spec which is no longer configured at the end (or, control, still is).

    -> (kind, spec form, [certs option values in order], victim name, covered_at_end: bool, custom cert)
    Victim names live under .gone.test, surviving specs under .kept.test, so coverage at the end is known by construction."""
    v = f"{rl(r)}.{rl(r)}.gone.test"
    k_name = f"{rl(r)}.{rl(r)}.kept.test"
    form = r.choice(["exact", "wildcard", "star", "bare-file", "via-san", "via-cn"])
    if form in ("via-san", "via-cn"):
        cert_v = pki.leaf(cn=v if form == "via-cn" else "custom leaf", sans=[f"dns:{v}"] if form == "via-san" else [f"dns:other.{rl(r)}.gone.test"], issuer="root_b")
    else:
        cert_v = pki.leaf(cn="custom leaf", sans=[f"dns:{v}", "dns:*." + v.partition(".")[2]], issuer="root_b")
    f_v = pki.chain_file([cert_v])
    spec_v = {
        "exact": f"{v}={f_v}", "wildcard": f"*.{v.partition('.')[2]}={f_v}", "star": f"*={f_v}", "bare-file": str(f_v),
        "via-san": f"unrelated.{rl(r)}.gone.test={f_v}", "via-cn": f"unrelated.{rl(r)}.gone.test={f_v}",
    }[form]
    cert_k = pki.leaf(cn="kept leaf", sans=[f"dns:{k_name}"], issuer="root_b")
    spec_k = f"{k_name}={pki.chain_file([cert_k])}"
    kind = r.choice(["add-remove", "add-remove", "add-replace", "add2-remove1", "add-remove-add-other", "kept-control"])
    if kind == "add-remove":
        steps = [[spec_v], []]
    elif kind == "add-replace":
        steps = [[spec_v], [spec_k]]
    elif kind == "add2-remove1":
        steps = [[spec_k, spec_v] if r.random() < 0.5 else [spec_v, spec_k], [spec_k]]
    elif kind == "add-remove-add-other":
        steps = [[spec_v], [], [spec_k]]
    else:
        return kind, "exact", [[spec_k]], k_name, True, cert_k
    return kind, form, steps, v, False, cert_v


def run_case(ctx, r, tz="UTC"):
    st = state()
    pki, ta, tctx = st["pki"], st["ta"], st["tctx"]
    sni_k, sni, sock = gen_sni(r)
    addr_k, addr = gen_addr(r, sni)
    ca_k = r.choice(["default", "default", "custom"])
    via_hook = r.random() < 0.3
    hist = None
    if r.random() < 0.15:
        # runtime history over the `certs` option; the connection then hits the name of a spec that was configured earlier
        hist = gen_certs_history(r, pki)
        route = r.choice(["sni", "sni", "address", "upstream-san"]) if not hist[4] else "sni"
        if route == "sni":
            sni_k, sni, sock = "hist-victim", hist[3], "127.0.0.1"
            if addr_k == "same":
                addr = (sni, 443)
        elif route == "address":
            addr_k, addr = "hist-victim", (hist[3], 443)
    up_k, upstream, use_opt = gen_upstream(r, pki, sni, sock, addr)
    if hist is not None and route == "upstream-san":
        up_k, upstream, use_opt = "hist-victim", pki.leaf(cn=rhost(r), sans=[f"dns:{rhost(r)}", f"dns:{hist[3]}"], issuer="root_b"), True
    if st["upstream_opt"] != use_opt:
        tctx.options.update(upstream_cert=use_opt)
        st["upstream_opt"] = use_opt
    if hist is None:
        ta.certstore = st["stores"][ca_k]
    else:
        # real option updates through TlsConfig.configure; the store in use is the one the addon builds itself
        ctx.count("certs_option_histories")
        first = True
        for val in hist[2]:
            kw = {"certs": list(val)}
            if first and tctx.options.confdir != st["confdirs"][ca_k]:
                kw["confdir"] = st["confdirs"][ca_k]
            if first and list(tctx.options.certs) == list(val) and "confdir" not in kw:
                tctx.options.update(certs=[])  # make sure the first step is a real change
            first = False
            tctx.options.update(**kw)
    client = connection.Client(peername=("198.51.100.7", 51234), sockname=(sock, 8080), timestamp_start=1.0, state=connection.ConnectionState.OPEN)
    client.sni = sni
    cx = context.Context(client, tctx.options)
    if addr:
        cx.server.address = addr
    if upstream is not None:
        cx.server.certificate_list = [mcerts.Cert(upstream)]
    up_cn = None
    if upstream is not None:
        a = upstream.subject.get_attributes_for_oid(NameOID.COMMON_NAME)
        up_cn = a[0].value if a else None
    ident = sni if sni is not None else sock.partition("%")[0]
    is_ip = _is_ip(ident)
    w = {
        "sni": sni, "sockname": sock, "server_address": list(addr) if addr else None, "upstream_class": up_k, "upstream_cert_option": use_opt,
        "upstream_subject": upstream.subject.rfc4514_string() if upstream is not None else None,
        "upstream_sans": _sans_repr(upstream),
        "ca": ca_k, "via": "tls_start_client" if via_hook else "get_cert", "identity": ident, "process_tz": f"{tz} (TZ={TZS[tz]})",
    }
    sig = (sni_k, addr_k, up_k, ca_k, "hook" if via_hook else "get")
    if hist is not None:
        w["certs_option_history"] = {"kind": hist[0], "spec_form": hist[1], "steps": [[x.rpartition("/")[0].rpartition("=")[0] + "=<file>" if "=" in x else "<file>" for x in v] for v in hist[2]], "victim": hist[3], "route": route, "covered_by_current_certs": hist[4]}
        sig = (*sig, "hist", hist[0], hist[1], route)
    ctx.count("total")
    ssl_conn = None
    try:
        if via_hook:
            td = TlsData(client, cx)
            ta.tls_start_client(td)
            ssl_conn = td.ssl_conn
            entry = ta.get_cert(cx)  # cached: the same entry the hook used
        else:
            entry = ta.get_cert(cx)
    except Exception as e:  # noqa -- totality
        import traceback

        from vf.core import exc_site

        mech = classify("raises", up_k, up_cn if use_opt else None, sni_k, e)
        ctx.violation(f"get_cert-raises:{type(e).__name__}@{exc_site(e)}", {**w, "exc": repr(e)[:300], "tb": traceback.format_exc()[-700:]}, mech)
        return (*sig, "raise"), True, w
    leaf = entry.cert.to_cryptography()
    if hist is not None and hist[4]:
        ctx.count("custom_cert_current_control")
        ctx.seen("custom_cert_current_control", "served" if leaf == hist[5] else "not served")
        return (*sig, "custom-current"), True, {"sni": sni, "certs_option_history": w["certs_option_history"]}
    if hist is not None:
        ctx.count("stale_custom_cert_checked")
    # only fresh issuances are judged at the current virtual time; a leaf served from the store's cache is judged at the
    # (virtual) time it was issued
    fp = leaf.fingerprint(hashes.SHA256())
    if fp in st["issued_at"]:
        ctx.count("cached_leaf_judged_at_its_issue_time")
        CLOCK["delta"] = st["issued_at"][fp]
    else:
        st["issued_at"][fp] = CLOCK["delta"]
        d = CLOCK["delta"] / DAY_S
        ctx.count("issued_at_t0" if d == 0 else ("issued_at_later_wall_clock" if d > 0 else "issued_at_earlier_wall_clock"))
        if d >= 197:
            ctx.count("issued_after_197_days_uptime")
    w["virtual_wall_clock"] = f"t0{CLOCK['delta'] / DAY_S:+.0f}d"
    ca_cert = st["stores"][ca_k].default_ca.to_cryptography()
    root = st["roots"][ca_k]
    inters = st["inters"][ca_k]
    w["leaf_subject"] = leaf.subject.rfc4514_string()
    try:
        w["leaf_sans"] = [repr(g)[:90] for g in leaf.extensions.get_extension_for_class(x509.SubjectAlternativeName).value][:12]
    except x509.ExtensionNotFound:
        w["leaf_sans"] = None

    ctx.count("issued_by_ca")
    try:
        leaf.verify_directly_issued_by(ca_cert)
    except Exception as e:  # noqa
        ctx.violation("not-issued-by-ca", {**w, "exc": repr(e)[:200], "leaf_issuer": leaf.issuer.rfc4514_string()})
    ctx.count("valid_now")
    ctx.count(f"issued_under_tz:{tz}")
    now = vnow_utc()
    if not (leaf.not_valid_before_utc <= now <= leaf.not_valid_after_utc):
        ctx.violation("not-valid-now", {**w, "not_before": str(leaf.not_valid_before_utc), "not_after": str(leaf.not_valid_after_utc), "now": str(now)})
    ctx.count("server_auth")
    try:
        eku = leaf.extensions.get_extension_for_class(x509.ExtendedKeyUsage).value
        if ExtendedKeyUsageOID.SERVER_AUTH not in eku:
            ctx.violation("eku-lacks-serverauth", w)
    except x509.ExtensionNotFound:
        ctx.violation("eku-missing", w)
    try:
        bc = leaf.extensions.get_extension_for_class(x509.BasicConstraints).value
        if bc.ca:
            ctx.violation("leaf-is-ca", w)
    except x509.ExtensionNotFound:
        pass

    # strict verification for the requested identity
    ctx.count("strict_verify_cryptography")
    v1, d1 = verify_cryptography(leaf, inters, root, ident, is_ip)
    ctx.count("strict_verify_openssl")
    try:
        v2, d2 = verify_openssl(leaf, inters, root, ident, is_ip)
    except (UnicodeEncodeError, Unrepresentable) as e:
        v2, d2 = "inconclusive", repr(e)
        ctx.seen("openssl_inconclusive_classes", sni_k)
    if v1 == "inconclusive":
        ctx.count("cryptography_inconclusive")
        ctx.seen("cryptography_inconclusive_classes", sni_k)
    if v1 == "fail":
        ctx.violation("strict-verify-fails:cryptography", {**w, "detail": d1, "openssl": v2}, classify("verify", up_k, up_cn if use_opt else None, sni_k))
    if v2 == "fail":
        ctx.violation("strict-verify-fails:openssl", {**w, "detail": d2, "cryptography": v1}, classify("verify", up_k, up_cn if use_opt else None, sni_k))
    ctx.seen("verifier_verdict_pairs", f"cryptography={v1} openssl={v2}")
    if v1 == "inconclusive" and v2 == "inconclusive":
        ctx.count("inconclusive_cases")

    ctx.count("names_subset")
    for p in check_names(leaf, sni, sock, addr, upstream, use_opt):
        ctx.violation("name-from-nowhere", {**w, "problem": p}, classify("names", up_k, up_cn if use_opt else None, sni_k))

    if ssl_conn is not None:
        ctx.count("handshake_verified")
        try:
            ok, detail, seen, nchain = handshake_verify(ssl_conn, st["rootfiles"][ca_k], ident, is_ip)
        except (UnicodeEncodeError, Unrepresentable) as e:
            ok, detail, seen, nchain = None, repr(e), None, 0
        if ok is False:
            ctx.violation("strict-handshake-fails", {**w, "detail": detail}, classify("verify", up_k, up_cn if use_opt else None, sni_k))
        elif ok and seen != leaf:
            ctx.violation("presented-cert-differs-from-get_cert", {**w, "presented_subject": seen.subject.rfc4514_string() if seen else None})
    return (*sig, v1, v2), True, {k: w[k] for k in ("sni", "sockname", "server_address", "upstream_class", "ca", "via", "leaf_subject", "leaf_sans")}


# Process time zones under which certificates are issued (POSIX TZ strings, no tzdata needed; POSIX sign: 'JST-9' is UTC+9).
TZS = {
    "UTC": "UTC0", "UTC-12": "AAA12", "UTC-5": "EST5", "UTC-3:30": "NST3:30", "UTC+5:30": "IST-5:30", "UTC+9": "JST-9",
    "UTC+12": "NZST-12", "UTC+12:45": "CHAST-12:45", "UTC+14": "LINT-14",
}


class process_tz:
    """Run a block with the process time zone set (os.environ['TZ'] + time.tzset()); each worker is its own process."""

    def __init__(self, name):
        self.name = name

    def __enter__(self):
        self.old = os.environ.get("TZ")
        os.environ["TZ"] = TZS[self.name]
        time.tzset()

    def __exit__(self, *a):
        if self.old is None:
            os.environ.pop("TZ", None)
        else:
            os.environ["TZ"] = self.old
        time.tzset()
        return False


def run(ctx):
    try:
        names = sorted(TZS)
        # the CA itself is created by the real code under one of the zones, too (fixed per worker)
        ca_tz = names[(ctx.worker * 5 + 3) % len(names)]
        with process_tz(ca_tz):
            state()
        ctx.seen("ca_created_under_tz", ca_tz)
        for i in ctx.cases():
            tz = ctx.rng.choice(names)
            # wall clock of this issuance relative to process start (same process, same imported mitmproxy.certs):
            # forwards by a day .. beyond the leaf lifetime, and set back
            days = ctx.rng.choice([0, 0, 0, 1, 100, 197, 198, 199, 200, 400, -1, -100, -400])
            with process_tz(tz), wall_clock(days):
                sig, nt, sample = run_case(ctx, ctx.rng, tz)
            tz_class = "utc" if tz == "UTC" else ("east" if "+" in tz else "west")
            clock_class = "t0" if days == 0 else ("back" if days < 0 else ("later" if days < 197 else "beyond-leaf-lifetime"))
            ctx.case((*sig, tz_class, clock_class), nt, {**sample, "process_tz": tz, "wall_clock_days_after_start": days} if isinstance(sample, dict) else sample)
    finally:
        if _STATE:
            _STATE["pki"].cleanup()
