"""C48 -- exported commands reproduce the request and are shell-safe; the raw export parses back.

Monitors (per generated request, built from explicit components so that the expectation never comes from mitmproxy):

* shell_exec        -- the string returned by the real ``export.curl_command`` / ``export.httpie_command`` (encoded as
                       ``export.file`` writes it) is run by a real ``bash`` (curl and httpie forms) or ``dash`` (curl form) in a
                       jail: PATH holds only stub ``curl``/``http``/``touch``/``id`` programs that dump their argv NUL-separated,
                       cwd is an empty directory.  Refuted by: any stub other than the one expected, != 1 invocation, a file
                       created in the jail, shell diagnostics on stderr, non-zero exit.  A sample of runs is additionally traced
                       with ``strace -f -e trace=execve,openat,unlink,rename`` (execve of anything but the shell and the stub,
                       or a file opened for writing outside the jail, refutes).
* shell_model       -- the same strings (all three forms, every case) are tokenised by a small, strict model of POSIX quoting
                       (vf/ref/c48_shell.py); it must find exactly one inert simple command.
* argv_semantics    -- the argv (from the real shell, else from the model) is interpreted per curl / httpie documentation
                       (vf/ref/c48_curl.py, calibrated against curl 7.88.1 on loopback) and compared with the request:
                       method, URL (literal string + curl's globbing / dot-segment / fragment / reject rules), header multiset
                       (minus Content-Length and a Host equal to the URL host; ``--compressed`` stands for Accept-Encoding), and --
                       for UTF-8 text bodies without NUL -- exactly the body.
* channels          -- every export is obtained through all public channels on the same flow: the module-level functions, the
                       ``export`` command (text), ``export.file`` writing a real temp file, ``export.clip`` (pyperclip stubbed).
                       The bytes ``export.file`` wrote are what the shells execute, what the quoting model parses and what the
                       HTTP/1 reference parses; a module-function result that differs from the file is checked by the same
                       oracles.  The text channels (display/clipboard) may escape what is not valid UTF-8: they must be ``str``
                       without lone surrogates, equal to each other, and equal to the file whenever the file is valid UTF-8.
* raw_parse_back    -- ``export.raw`` is parsed by the independent RFC 9112 reference (vf/ref/http1.py) and compared with the
                       request (method, target, version, headers, body).
"""
import gzip
import os
import re
import shutil
import subprocess
import tempfile

from mitmproxy import exceptions
from mitmproxy import http
from mitmproxy.addons import export
from mitmproxy.test import taddons
from mitmproxy.test import tflow
from vf.core import Inconclusive
from vf.core import exc_site
from vf.core import short
from vf.ref import c48_curl as RC
from vf.ref import c48_shell as RS
from vf.ref import http1 as H1

PROPERTY = "C48"
LEVEL = "exploration"
ENGINE = "direct"
TECHNIQUE = "real bash/dash execution of the exported strings in a stub jail (+strace sample), POSIX-quoting model, curl/httpie argv model, HTTP/1 reference parse"
BUDGET = {"quick": (400, 12), "thorough": (40_000, 200)}
WORKERS = {"quick": 6, "thorough": 16}
REQUIRED = ["matrix_cases", "shell_exec", "shell_model", "argv_semantics", "raw_parse_back", "channel.file", "channel.func", "text_channels"]
RULE = (
    "first a fixed matrix (bodies starting with - or @, with control characters / NUL / trailing newlines / % / backslashes / non-ASCII / binary; header-name and empty-value edge cases; 6 Host forms x default/non-default port x scheme; method, path and framing specials) split over the workers, then random cases; case = request built from (method, scheme, host, default/non-default port, path+query, Host header in {absent, host, host:port, host:otherport, otherhost, otherhost:port}, 0-5 headers, body kind, content-encoding, "
    "http version, preserve-original-ip option) with shell metacharacters, quotes, control characters, %, backslashes, leading -/@, "
    "non-ASCII and raw non-UTF-8 bytes (header values, request target, binary bodies); each case: every export through all four public channels (functions, export, export.file, export.clip), all three exports through the quoting model and the raw export through "
    "the HTTP/1 reference, one export (rotating curl/bash, curl/dash, httpie/bash) executed by a real shell; distinct = distinct "
    "(executed form, hostile-feature classes per field, body kind, header specials, outcome) tuple; non-trivial = at least one field "
    "contains a shell-special, control, percent, backslash or non-ASCII character"
)
ASSUMPTIONS = [
    "the exported string reaches the shell as export.file writes it (UTF-8 with surrogateescape), executed as a script file by bash --norc --noprofile / dash",
    "NUL cannot occur in an argv element: fields other than the body never contain NUL; bodies with NUL or that are not valid UTF-8 are only checked for shell safety, not exactness",
    "header names are non-empty, contain no ':' and no NUL (HTTP/1 and HTTP/2 parsers cannot produce others); hosts are DNS names or IPv4 literals (IPv6 bracket handling is C33's subject); a Host header, when present, names the same port as the request",
    "methods are compared case-insensitively (Request.method upper-cases), header values modulo surrounding SP/HTAB (DESIGN 3.1), an Accept-Encoding header is represented by --compressed irrespective of its value, curl's own default headers (User-Agent, Accept, Content-Type for -d) are not part of the comparison",
    "for the raw export only framing-consistent requests are in the domain (token method, target without SP/CTL, token header names, values without CR/LF/NUL)",
    "curl semantics are those of curl 7.88 (globbing on, dot-segment squashing on, fragment not sent, URLs with space/control rejected, 'Name:' removes a header, leading '@' reads a file); httpie semantics as documented (request-item separators, METHOD must be alphabetic, 'Name:' unsets)",
]
LEVEL_TEXT = (
    "Randomised exploration. Shell safety is decided by real shells (the program under whose rules the property is stated) on one form per "
    "case and by a strict quoting model on all forms; request fidelity is decided by documented curl/httpie argument semantics. Bounded by the "
    "generated fields and by the modelled subset of curl/httpie behaviour."
)
LEVEL_NOTE = "Trusted: /usr/bin/bash, /usr/bin/dash, strace, gcc-built argv-dump stub, vf/ref/http1.py, the curl/httpie models (curl model cross-checked against the installed curl 7.88.1 during authoring)."

BASH = "/usr/bin/bash"
DASH = "/usr/bin/dash"
STRACE = "/usr/bin/strace"

STUB_C = r"""
#include <stdio.h>
#include <stdlib.h>
#include <string.h>
#include <unistd.h>
int main(int argc, char **argv) {
    const char *out = getenv("VF_OUT");
    char path[4096];
    if (!out) return 3;
    snprintf(path, sizeof path, "%s.%ld", out, (long)getpid());
    FILE *f = fopen(path, "wb");
    if (!f) return 4;
    for (int i = 0; i < argc; i++) { fwrite(argv[i], 1, strlen(argv[i]), f); fputc(0, f); }
    fclose(f);
    return 0;
}
"""
STUB_SH = "#!/usr/bin/dash\nprintf '%s\\0' \"$0\" \"$@\" > \"$VF_OUT.$$\"\n"
STUBS = ["curl", "http", "touch", "id", "cat", "sh", "rm", "printf_", "echo_"]

META = ["$(touch PWNED)", "`touch PWNED`", "; touch PWNED;", "| touch PWNED", "&& touch PWNED", "|| id", "\n touch PWNED\n", "> PWNED", ">> PWNED", "< /etc/passwd", "$PATH", "${IFS}", "$$", "$'\\x41'", "*", "?", "~", "!", "#", "'", '"', "'\"'\"'", "\\", "\\n", "\\x41", "\\\\", "%s", "%", "%41", "%d%n", " ", "\t", "&", "(", ")", "<", ">", "=", "a=b", "{a,b}", "[1-2]", "\r", "\x01", "\x1b[2J", "\x7f", "é", "日本", "-v", "--data", "@/etc/passwd", "\\'", "''", "\"$(id)\""]
PLAIN = ["a", "value", "x1", "foo-bar", "A_B", "1", "application/json", "k=v", "a,b", "x.y", "token123"]


def hostile(r, n=None, p=0.6):
    return "".join(r.choice(META) if r.random() < p else r.choice(PLAIN) for _ in range(n or r.randint(1, 3)))


def feat(s: str):
    """coarse hostile-feature classes of a field"""
    f = set()
    if any(c in s for c in "$`;|&<>()*?~!#{}[]= \t"):
        f.add("meta")
    if "'" in s or '"' in s:
        f.add("quote")
    if "\\" in s:
        f.add("bs")
    if "%" in s:
        f.add("pct")
    if any(ord(c) < 32 or ord(c) == 127 for c in s):
        f.add("ctl")
    if any(ord(c) > 127 for c in s):
        f.add("hi")
    if s[:1] in ("-", "@"):
        f.add("lead")
    return f


# ------------------------------------------------------------------------------------------------
# request generation (all components explicit; expectation derived from them only)
# ------------------------------------------------------------------------------------------------

def gen_spec(r):
    sp = {}
    x = r.random()
    if x < 0.45:
        sp["method"] = r.choice(["GET", "GET", "POST", "PUT", "DELETE", "PATCH", "OPTIONS", "HEAD"])
    elif x < 0.6:
        sp["method"] = r.choice(["M-SEARCH", "PROPFIND", "X_Y", "REPORT", "PURGE"])
    else:
        sp["method"] = (hostile(r, r.randint(1, 2)).replace("\x00", "") or "X").upper()
    sp["scheme"] = r.choice(["http", "https"])
    sp["host"] = r.choice(["example.com", "example.com", "10.0.0.1", "a-b.example.org", "sub.domain.example", "localhost"]) if r.random() < 0.8 else ("h" + hostile(r, 1, 0.9).replace("/", "").replace(":", "").replace("#", "").replace("?", "").replace("@", "") + ".test")
    sp["port"] = r.choice([80, 443, 8080, 8443, 22, 65535]) if r.random() < 0.5 else (80 if sp["scheme"] == "http" else 443)
    segs = []
    for _ in range(r.randint(0, 3)):
        y = r.random()
        if y < 0.5:
            segs.append(r.choice(PLAIN))
        elif y < 0.9:
            segs.append(hostile(r, 1, 1.0).replace("/", "").replace("?", "").replace("\x00", ""))
        else:
            segs.append(r.choice(["..", ".", "{a,b}", "[1-3]", "a#frag", "%2e%2e", "a b"]))
    path = "/" + "/".join(segs)
    if r.random() < 0.5:
        path += "?" + "&".join(f"{r.choice(PLAIN)}={hostile(r, 1, 0.7) if r.random() < 0.6 else r.choice(PLAIN)}" for _ in range(r.randint(1, 3)))
    if r.random() < 0.08:
        path += ("&" if "?" in path else "?") + "q=caf\udce9"  # a raw latin-1 byte (0xE9) in the request target
    sp["path"] = path.replace("\x00", "")
    default = 80 if sp["scheme"] == "http" else 443
    sp["netloc"] = sp["host"] if sp["port"] == default else f"{sp['host']}:{sp['port']}"
    z = r.random()
    other_port = r.choice([p_ for p_ in (80, 443, 8080, 8443, 9999) if p_ != sp["port"]])
    if z < 0.22:
        sp["host_header"], sp["hh_form"] = None, "absent"
    elif z < 0.47:
        sp["host_header"], sp["hh_form"] = sp["host"], "host"  # port-less, equal to request.host
    elif z < 0.72:
        sp["host_header"], sp["hh_form"] = f"{sp['host']}:{sp['port']}", "host:port"
    elif z < 0.82:
        sp["host_header"], sp["hh_form"] = f"{sp['host']}:{other_port}", "host:otherport"
    elif z < 0.92:
        sp["host_header"], sp["hh_form"] = "other.example.net", "otherhost"
    else:
        sp["host_header"], sp["hh_form"] = f"other.example.net:{sp['port']}", "otherhost:port"
    sp["authority"] = sp["netloc"] if r.random() < 0.3 else ""
    hdrs = []
    for _ in range(r.randint(0, 5)):
        y = r.random()
        if y < 0.45:
            name = r.choice(["X-Test", "User-Agent", "Cookie", "accept", "Content-Type", "x-a", "Authorization", "Referer"])
        elif y < 0.6:
            name = r.choice(["Accept-Encoding", "accept-encoding", "Content-Length", "@file", "-H", "X-Dup", "X-Dup"])
        else:
            name = hostile(r, 1, 0.8).replace(":", "").replace("\x00", "").replace("\n", "").replace("\r", "").strip(" \t") or "x"
        y = r.random()
        if y < 0.3:
            val = r.choice(PLAIN)
        elif y < 0.38:
            val = r.choice(["", " ", "  v", "v  ", "\t"])
        else:
            val = hostile(r, None, 0.7).replace("\x00", "")
        if name.lower() == "content-length":
            continue
        if val.strip() == "":
            val = "".join(c for c in val if c in " \t")  # blank values: SP/HTAB only (CR/LF-only values are not HTTP)
        hdrs.append((name, val))
    # body
    y = r.random()
    if y < 0.35:
        body, bk = b"", "none"
    elif y < 0.5:
        body, bk = (r.choice(PLAIN) + "=" + hostile(r, None, 0.5).replace("\x00", "")).encode(), "text"
    elif y < 0.75:
        t = hostile(r, r.randint(1, 5), 0.6).replace("\x00", "")
        t = t + r.choice(["", "", "\n", "\n\n", "\r\n"]) if r.random() < 0.5 else r.choice(["a\nb", "line1\nline2\n", "{\n \"k\": \"100%\"\n}\n", "x\ty", "-v\nx", "a\\nb\nc", "%s\n"]) + t
        body, bk = t.encode(), "text-ctl" if any(ord(c) < 32 for c in t) else "text"
    elif y < 0.82:
        body, bk = ("@" + r.choice(["file", "/etc/passwd", hostile(r, 1)])).replace("\x00", "").encode(), "lead-at"
    elif y < 0.88:
        body, bk = bytes(r.getrandbits(8) for _ in range(r.randint(1, 40))), "binary"
    elif y < 0.93:
        body, bk = (hostile(r, 2) + "\x00" + "tail").encode(), "nul"
    else:
        body, bk = r.choice(["café", "naïve=1", "日本=x", "a=é\n"]).encode("utf-8"), "utf8"
    sp["body"] = body
    sp["body_kind"] = bk
    ct = r.random()
    if body and ct < 0.6:
        cts = r.choice(["application/json", "application/x-www-form-urlencoded", "text/plain", "text/plain; charset=utf-8", "text/plain; charset=ISO-8859-1", "application/octet-stream", "text/html"])
        hdrs = [(n, v) for n, v in hdrs if n.lower() != "content-type"] + [("Content-Type", cts)]
    sp["gzip"] = bool(body) and r.random() < 0.05
    sp["has_cl"] = r.random() < 0.9
    sp["version"] = r.choice(["HTTP/1.1", "HTTP/1.1", "HTTP/1.1", "HTTP/1.0", "HTTP/2.0"])
    if sp["version"] == "HTTP/2.0":
        sp["authority"] = sp["netloc"]
        sp["host_header"], sp["hh_form"] = None, "absent"  # HTTP/2: :authority instead of Host
    sp["headers"] = hdrs
    sp["preserve_ip"] = r.random() < 0.3
    sp["peer"] = r.choice([None, ("10.9.8.7", 443), ("10.0.0.1", 80), ("2001:db8::1", 443)])
    sp["raw8"] = r.random() < 0.2  # put raw non-UTF-8 bytes into one header value
    return sp


TOK_NAMES = ["X-Test", "User-Agent", "Cookie", "accept", "Content-Type", "x-a", "Authorization", "Referer", "Accept-Encoding", "X-Dup", "X-Dup", "!#$%&'*+-.^_`|~", "1"]


def gen_tame_spec(r):
    """A framing-consistent request (the raw export's domain) with hostile *values*."""
    sp = gen_spec(r)
    sp["method"] = r.choice(["GET", "POST", "PUT", "DELETE", "PATCH", "OPTIONS", "M-SEARCH", "get", "!#$%&'*+-.^_`|~"])
    sp["path"] = "".join(c for c in sp["path"] if 0x20 < ord(c) != 0x7F) or "/"
    if not re.match(r"^[A-Za-z0-9.-]+(:[0-9]+)?$", sp["netloc"]):
        sp["host"] = "example.com"
        default = 80 if sp["scheme"] == "http" else 443
        sp["netloc"] = sp["host"] if sp["port"] == default else f"{sp['host']}:{sp['port']}"
        if sp["host_header"] is not None:
            sp["host_header"], sp["hh_form"] = sp["netloc"], "host:port" if ":" in sp["netloc"] else "host"
        if sp["authority"]:
            sp["authority"] = sp["netloc"]
    hdrs = []
    for n, v in sp["headers"]:
        if not re.match(r"^[!#$%&'*+\-.^_`|~0-9A-Za-z]+$", n):
            n = r.choice(TOK_NAMES)
        v = v.replace("\r", "").replace("\n", "").replace("\x00", "")
        hdrs.append((n, v))
    sp["headers"] = hdrs
    sp["te_chunked"] = bool(sp["body"]) and sp["version"] == "HTTP/1.1" and r.random() < 0.15
    if sp["te_chunked"]:
        sp["has_cl"] = False
        sp["gzip"] = False
    return sp


def b(s: str) -> bytes:
    return s.encode("utf-8", "surrogateescape")


def build_flow(sp):
    fields = []
    if sp["host_header"] is not None:
        fields.append((b"Host", b(sp["host_header"])))
    for i, (n, v) in enumerate(sp["headers"]):
        vb = b(v)
        if sp["raw8"] and i == 0 and n.lower() != "content-type":
            vb += b"\xff\xfe"
        fields.append((b(n), vb))
    content = sp["body"]
    if sp.get("te_chunked"):
        fields.append((b"Transfer-Encoding", b"chunked"))
    if sp["gzip"]:
        content = gzip.compress(content)
        fields.append((b"Content-Encoding", b"gzip"))
    if sp["has_cl"] and (content or sp["method"] not in ("GET", "HEAD")):
        fields.append((b"Content-Length", str(len(content)).encode()))
    req = http.Request(
        host=sp["host"],
        port=sp["port"],
        method=b(sp["method"]),
        scheme=b(sp["scheme"]),
        authority=b(sp["authority"]),
        path=b(sp["path"]),
        http_version=sp["version"].encode(),
        headers=http.Headers(fields),
        content=content,
        trailers=None,
        timestamp_start=1.0,
        timestamp_end=2.0,
    )
    f = tflow.tflow()
    f.request = req
    f.response = None
    f.server_conn.peername = sp["peer"]
    return f


def sesc(x: bytes) -> str:
    return x.decode("utf-8", "surrogateescape")


def expected(sp):
    """What a faithful command must encode (strings in the surrogateescape view of the original bytes)."""
    hdrs = []
    for i, (n, v) in enumerate(sp["headers"]):
        if sp["raw8"] and i == 0 and n.lower() != "content-type":
            v = v + sesc(b"\xff\xfe")
        hdrs.append((n, v))
    return {
        "method": sp["method"],
        "url": f"{sp['scheme']}://{sp['netloc']}{sp['path']}",
        "headers": hdrs,  # Host and Content-Length handled separately
        "host": sp["netloc"],
        "body": sp["body"],
    }


# ------------------------------------------------------------------------------------------------
# jail
# ------------------------------------------------------------------------------------------------

class Jail:
    def __init__(self):
        self.root = tempfile.mkdtemp(prefix="vf-c48-")
        self.bin = os.path.join(self.root, "bin")
        self.work = os.path.join(self.root, "w")
        os.mkdir(self.bin)
        os.mkdir(self.work)
        src = os.path.join(self.root, "stub.c")
        exe = os.path.join(self.root, "stub")
        with open(src, "w") as fp:
            fp.write(STUB_C)
        ok = False
        # the compiled stub is cached across workers/runs (keyed by its source); built atomically
        import hashlib

        cache = os.path.join(tempfile.gettempdir(), "vf-c48-stub-" + hashlib.sha1(STUB_C.encode()).hexdigest()[:12])
        try:
            if not os.path.exists(cache):
                p = subprocess.run(["/usr/bin/gcc", "-O1", "-o", exe, src], capture_output=True, timeout=60, stdin=subprocess.DEVNULL)
                if p.returncode == 0 and os.path.exists(exe):
                    tmp = cache + f".{os.getpid()}"
                    shutil.copy(exe, tmp)
                    os.chmod(tmp, 0o755)
                    os.replace(tmp, cache)
            if os.path.exists(cache):
                shutil.copy(cache, exe)
                ok = True
        except Exception:
            ok = False
        for name in STUBS:
            dst = os.path.join(self.bin, name)
            if ok:
                shutil.copy(exe, dst)
            else:
                with open(dst, "w") as fp:
                    fp.write(STUB_SH)
            os.chmod(dst, 0o755)
        self.compiled = ok
        self.script = os.path.join(self.root, "cmd.sh")
        self.trace = os.path.join(self.root, "trace")

    def close(self):
        shutil.rmtree(self.root, ignore_errors=True)

    def run(self, cmd_bytes: bytes, shell: str, trace=False):
        for fn in os.listdir(self.work):
            p = os.path.join(self.work, fn)
            shutil.rmtree(p, ignore_errors=True) if os.path.isdir(p) else os.unlink(p)
        with open(self.script, "wb") as fp:
            fp.write(cmd_bytes + b"\n")
        argv = [BASH, "--norc", "--noprofile", self.script] if shell == "bash" else [DASH, self.script]
        if trace:
            argv = [STRACE, "-f", "-qq", "-o", self.trace, "-e", "trace=execve,openat,unlink,unlinkat,rename,renameat,renameat2"] + argv
        env = {"PATH": self.bin, "VF_OUT": os.path.join(self.work, "out"), "LC_ALL": "C.UTF-8"}
        try:
            p = subprocess.run(argv, env=env, cwd=self.work, stdin=subprocess.DEVNULL, capture_output=True, timeout=20)
        except subprocess.TimeoutExpired:
            raise Inconclusive("shell timeout")
        inv = []
        other = []
        for fn in sorted(os.listdir(self.work)):
            if fn.startswith("out."):
                with open(os.path.join(self.work, fn), "rb") as fp:
                    parts = fp.read().split(b"\x00")
                inv.append(parts[:-1])
            else:
                other.append(fn)
        res = {"rc": p.returncode, "stderr": p.stderr, "stdout": p.stdout, "invocations": inv, "files": other, "trace": None}
        if trace:
            try:
                with open(self.trace, "r", errors="replace") as fp:
                    res["trace"] = fp.read()
            except OSError:
                res["trace"] = ""
        return res


EXECVE = re.compile(r'execve\("([^"]*)".*\) = 0')
OPENW = re.compile(r'openat\([^,]+, "([^"]*)", ([A-Z_|]+)')
UNLINK = re.compile(r'(unlink|unlinkat|rename|renameat|renameat2)\(')


def trace_findings(jail, trace: str, stub: str):
    bad = []
    allowed = {BASH, DASH, os.path.join(jail.bin, stub)}
    for m in EXECVE.finditer(trace):
        if m.group(1) not in allowed:
            bad.append(("execve", m.group(1)))
    for m in OPENW.finditer(trace):
        path, flags = m.group(1), m.group(2)
        if ("O_WRONLY" in flags or "O_RDWR" in flags or "O_CREAT" in flags) and not path.startswith(jail.work) and path not in ("/dev/null", "/dev/tty"):
            bad.append(("open-for-write", path))
    for line in trace.splitlines():
        if UNLINK.search(line) and "= 0" in line:
            bad.append(("unlink/rename", line[:120]))
    return bad


# ------------------------------------------------------------------------------------------------
# comparison
# ------------------------------------------------------------------------------------------------

def strip_ows(s):
    return s.strip(" \t")


def has_ctl(text):
    return any(ord(c) < 32 for c in text)


def body_text(sp):
    """The body as text if it is in the exactness domain (valid UTF-8, no NUL), else None."""
    try:
        t = sp["body"].decode("utf-8")
    except UnicodeDecodeError:
        return None
    return None if "\x00" in t else t


def classify_body(sp, text, got, shell):
    """Mechanism for a body mismatch (predicates on the request + what was received)."""
    if text.startswith("@"):
        return "curl-data-leading-at-reads-file"
    if got is not None and any(c >= 0x80 for c in sp["body"]):
        for enc in ("latin-1",):
            cand = sp["body"].decode(enc)  # how mitmproxy reads a body without / with a non-UTF-8 charset declaration
            if got in (cand, cand.rstrip("\n")):
                return "body-non-ascii-transcoded-via-guessed-or-declared-charset"
    if has_ctl(text):
        if shell == "dash":
            return "printf-hex-escape-not-supported-by-dash"
        if got is not None and text.endswith("\n") and got == text.rstrip("\n"):
            return "command-substitution-strips-trailing-newlines"
        if "%" in text or "\\" in text:
            return "printf-interprets-percent-or-backslash"
        if text.startswith("-"):
            return "printf-format-leading-dash-taken-as-option"
    return None


def classify_diag(sp, text):
    """The shell printed a diagnostic / failed although only the stub ran: explain from the body (the only part that is not a
    plain quoted word).  printf is used by the export iff the decoded body has a character < 0x20."""
    if not sp["body"]:
        return None
    t = text if text is not None else sp["body"].decode("latin-1")
    if b"\x00" in sp["body"]:
        return "body-nul-dropped-by-command-substitution"
    if has_ctl(t):
        if "%" in t or "\\" in t:
            return "printf-interprets-percent-or-backslash"
        if t.startswith("-"):
            return "printf-format-leading-dash-taken-as-option"
    return None


def split_hostport(h):
    m = re.match(r"^(.*):([0-9]+)$", h, re.S)
    return (m.group(1), int(m.group(2))) if m else (h, None)


def default_port(sp):
    return 80 if sp["scheme"] == "http" else 443


def acceptable_urls(sp):
    """URLs that address the request's scheme, port and path.  The host may be request.host or the Host header's host name
    (mitmproxy deliberately puts the Host header's name into the URL for SNI/virtual hosting and pins the address with
    --resolve); the port must be the port the request was sent to."""
    hosts = [sp["host"]]
    if sp["host_header"] is not None:
        hosts.append(split_hostport(sp["host_header"])[0])
    port = "" if sp["port"] == default_port(sp) else f":{sp['port']}"
    return [f"{sp['scheme']}://{h}{port}{sp['path']}" for h in hosts]


def same_host_header(sp, want, got):
    """Host header values agree: same name; ports equal, or one side leaves out the port the request is sent to."""
    wn, wp = split_hostport(strip_ows(want))
    gn, gp = split_hostport(strip_ows(got))
    if wn != gn:
        return False
    if wp == gp:
        return True
    return (wp is None and gp == sp["port"]) or (gp is None and wp == sp["port"])


def classify_url(sp):
    """The URL argument does not address scheme://host:port/path: explain from the Host header."""
    hh = sp["host_header"]
    if hh is None and sp["version"] == "HTTP/2.0" and sp["authority"]:
        hh = sp["authority"]  # Request.host_header falls back to :authority for HTTP/2
    if hh is None:
        return None
    if ":" in hh and not re.match(r"^[A-Za-z0-9._-]+:[0-9]+$", hh):
        # parse_authority(check=False) hands back the whole "host:port" string as the host; url.unparse then brackets it like IPv6
        return "host-header-not-a-valid-hostname-with-port-breaks-url"
    name, port = split_hostport(hh)
    if hh == sp["host"]:
        return None  # that header is popped as redundant; request.url (with the real port) must be used
    if port is None and sp["port"] != default_port(sp):
        return "host-header-without-port-drops-nondefault-request-port"
    if port is not None and port != sp["port"]:
        return "host-header-port-replaces-request-port"
    return None


def expected_header_list(sp, exp):
    """Headers the command must carry explicitly or implicitly (Host), Content-Length excluded."""
    return [(n, v) for n, v in exp["headers"] if n.lower() != "content-length"]


def compare_curl(ctx, sp, exp, argv, body_known, shell, what):
    """argv: list[str]; the -d element may be ('printf-subst', fmt) when only the model ran."""
    ctx.count("argv_semantics")
    viol = []
    plain = [a if isinstance(a, str) else "\0SUBST" for a in argv]
    try:
        m = RC.interpret_curl(plain)
    except RC.ArgError as e:
        return [("curl-args-malformed", None, {"err": str(e)})]
    text = body_text(sp)
    # ---- things that make curl do something else than argv says
    if m["unknown"]:
        viol.append(("curl-unknown-option-or-headerline", None, {"unknown": m["unknown"]}))
    if m["header_files"]:
        viol.append(("curl-header-read-from-file", "curl-header-name-leading-at-reads-file", {"files": m["header_files"]}))
    # ---- method
    if m["method"].upper() != exp["method"].upper():
        mech = "curl-get-with-body-becomes-post" if exp["method"].upper() == "GET" and sp["body"] and m["method_opt"] is None else None
        viol.append(("curl-method-differs", mech, {"expected": exp["method"], "got": m["method"]}))
    # ---- url
    if len(m["urls"]) != 1 or m["urls"][0] not in acceptable_urls(sp):
        viol.append(("curl-url-differs", classify_url(sp), {"expected": acceptable_urls(sp), "got": m["urls"], "host_header": sp["host_header"], "request_port": sp["port"]}))
    else:
        for eff in sorted(RC.url_effects(m["urls"][0], m["globoff"], m["path_as_is"])):
            viol.append(("curl-url-processing", "curl-url-" + eff, {"url": m["urls"][0], "effect": eff}))
    # ---- headers
    want = []
    n_ae = 0
    host_hdr = sp["host_header"]
    for n, v in expected_header_list(sp, exp):
        if n.lower() == "accept-encoding":
            n_ae += 1
        else:
            want.append((n, strip_ows(v)))
    got = []
    got_host = None
    for n, v in m["headers"]:
        if n.lower() == "content-length":
            continue
        if n.lower() == "host" and got_host is None:
            got_host = v
            continue
        got.append((n, strip_ows(v)))
    if got_host is None and len(m["urls"]) == 1:
        mm = re.match(r"^[a-z]+://([^/?#]*)", m["urls"][0])
        got_host = mm.group(1) if mm else None
    eff_host = host_hdr if host_hdr is not None else sp["netloc"]
    if got_host is not None and not same_host_header(sp, eff_host, got_host):
        viol.append(("curl-host-differs", classify_url(sp), {"expected": eff_host, "got": got_host}))
    if bool(n_ae) != bool(m["compressed"]):
        viol.append(("curl-accept-encoding-differs", None, {"expected": n_ae, "got": m["compressed"]}))
    if sorted(want) != sorted(got):
        missing = [h for h in want if h not in got]
        extra = [h for h in got if h not in want]
        removed = {n for n in m["removed"]}
        by_mech = {}
        for n, v in missing:
            if n.startswith("@") and m["header_files"]:
                mech = "curl-header-name-leading-at-reads-file"
            elif v == "" and n in removed:
                mech = "curl-empty-header-value-removes-header"
            else:
                mech = None
            by_mech.setdefault(mech, []).append((n, v))
        if extra:
            by_mech.setdefault(None, [])
        for mech, lst in by_mech.items():
            viol.append(("curl-headers-differ", mech, {"missing": lst[:4], "extra": extra[:4] if mech is None else [], "removed": sorted(removed)[:4]}))
    # ---- resolve
    want_res = []
    url_host = split_hostport(sp["host_header"])[0] if sp["host_header"] is not None else sp["host"]
    if sp["preserve_ip"] and sp["peer"] and url_host != sp["peer"][0]:
        want_res = [f"{url_host}:{sp['port']}:[{sp['peer'][0]}]"]
    if m["resolve"] != want_res:
        viol.append(("curl-resolve-differs", classify_url(sp), {"expected": want_res, "got": m["resolve"]}))
    # ---- body
    if not sp["body"]:
        if m["data"] is not None or m["data_file"] is not None:
            viol.append(("curl-body-unexpected", None, {"got": m["data"]}))
    elif text is not None:
        ctx.count("body_exactness")
        gotb = m["data"]
        if m["data_file"] is not None:
            viol.append(("curl-body-read-from-file", classify_body(sp, text, None, shell), {"file": m["data_file"]}))
        elif gotb == "\0SUBST":
            pass  # model could not evaluate printf: decided by real-shell runs only
        elif gotb != text:
            viol.append(("curl-body-differs", classify_body(sp, text, gotb, shell), {"expected": text, "got": gotb}))
    return viol


def compare_httpie(ctx, sp, exp, argv, shell, what):
    ctx.count("argv_semantics")
    viol = []
    plain = [a if isinstance(a, str) else "\0SUBST" for a in argv]
    try:
        m = RC.interpret_httpie(plain)
    except RC.ArgError as e:
        return [("httpie-args-malformed", None, {"err": str(e)})]
    if m["method"].upper() != exp["method"].upper():
        viol.append(("httpie-method-differs", None, {"expected": exp["method"], "got": m["method"]}))
    elif not m["method_is_alpha"]:
        viol.append(("httpie-method-taken-for-url", "httpie-method-not-alphabetic-taken-for-url", {"method": m["method"]}))
    if m["url"] not in acceptable_urls(sp):
        viol.append(("httpie-url-differs", classify_url(sp), {"expected": acceptable_urls(sp), "got": m["url"], "host_header": sp["host_header"], "request_port": sp["port"]}))
    want = [(n, v.strip()) for n, v in expected_header_list(sp, exp)]
    got = []
    got_host = None
    for n, v in m["headers"]:
        if n.lower() == "content-length":
            continue
        if n.lower() == "host" and got_host is None:
            got_host = v
            continue
        got.append((n, v.strip()))
    if got_host is None:
        mm = re.match(r"^[a-z]+://([^/?#]*)", m["url"])
        got_host = mm.group(1) if mm else None
    eff_host = sp["host_header"] if sp["host_header"] is not None else sp["netloc"]
    if got_host is not None and not same_host_header(sp, eff_host, got_host):
        viol.append(("httpie-host-differs", classify_url(sp), {"expected": eff_host, "got": got_host}))
    if sorted(want) != sorted(got):
        missing = [h for h in want if h not in got]
        extra = [h for h in got if h not in want]
        mech = None
        seps = set("=@;\\")
        by_mech = {}
        for n, v in missing:
            if any(c in seps for c in n):
                mech = "httpie-header-name-contains-item-separator"
            elif v == "" and n in m["removed"]:
                mech = "httpie-empty-header-value-unsets-header"
            else:
                mech = None
            by_mech.setdefault(mech, []).append((n, v))
        explained_extra = all(any(c in seps for c in n) for n, v in missing) if missing else False
        if extra and not ("httpie-header-name-contains-item-separator" in by_mech):
            by_mech.setdefault(None, [])
        for mech, lst in by_mech.items():
            viol.append(("httpie-headers-differ", mech, {"missing": lst[:4], "extra": extra[:4], "other_items": m["other_items"][:3]}))
    elif m["other_items"]:
        viol.append(("httpie-non-header-items", None, {"items": m["other_items"][:3]}))
    return viol


def in_raw_domain(sp):
    tok = re.compile(r"^[!#$%&'*+\-.^_`|~0-9A-Za-z]+$")
    if not tok.match(sp["method"]) or sp["method"].upper() == "CONNECT":
        return False
    if any(ord(c) <= 0x20 or ord(c) == 0x7F for c in sp["path"]):
        return False
    if any(ord(c) <= 0x20 or ord(c) == 0x7F for c in sp["netloc"]):
        return False
    for n, v in sp["headers"]:
        if not tok.match(n) or any(c in v for c in "\r\n\x00"):
            return False
    return True


def check_raw(ctx, sp, exp, f, ch, fmt="raw"):
    got = export_all(ctx, ch, fmt, f, sp)
    if not got:
        ctx.violation("raw-export-refused", {"format": fmt, "spec": short(repr(sp), 500)})
        return "refused"
    out = "ok"
    for chan, raw in got.items():
        r1 = check_raw_bytes(ctx, sp, raw, f"{fmt}/{chan}")
        if r1 != "ok":
            out = r1
    return out


def check_raw_bytes(ctx, sp, raw, chan):
    ctx.count("raw_parse_back")
    try:
        msg, pos = H1.parse_request(raw, 0, lenient=False)
    except (H1.Reject, H1.Incomplete) as e:
        mech = None
        ctx.violation("raw-export-not-parsable", {"channel": chan, "raw": raw[:600], "reason": f"{type(e).__name__}: {e}"}, mechanism=mech)
        return "unparsable"
    diffs = []
    if msg["method"] != sp["method"]:
        diffs.append(("method", sp["method"], msg["method"]))
    target = (f"{sp['scheme']}://{sp['authority']}{sp['path']}" if sp["authority"] else sp["path"]).encode("utf-8", "surrogateescape")
    if msg["target"] != target:
        diffs.append(("target", target, msg["target"]))
    if msg["version"] != sp["version"]:
        diffs.append(("version", sp["version"], msg["version"]))
    want = []
    if sp["host_header"] is not None:
        want.append(("host", b(sp["host_header"])))
    for i, (n, v) in enumerate(sp["headers"]):
        vb = b(v) + (b"\xff\xfe" if sp["raw8"] and i == 0 and n.lower() != "content-type" else b"")
        want.append((n.lower(), vb.strip(b" \t")))
    if sp.get("te_chunked"):
        want.append(("transfer-encoding", b"chunked"))
    got = [(n, v) for n, v in msg["headers"] if n not in ("content-length",)]
    if want != got:
        diffs.append(("headers", want[:6], got[:6]))
    body_mech = None
    if msg["body"] != sp["body"] or pos != len(raw):
        diffs.append(("body", sp["body"][:200], msg["body"][:200], pos, len(raw)))
    for d in diffs:
        ctx.violation("raw-parse-back-differs", {"channel": chan, "what": d[0], "expected": d[1], "got": d[2], "raw": raw[:400]}, mechanism=body_mech if d[0] == "body" else None)
    return "differs" if diffs else "ok"


# ------------------------------------------------------------------------------------------------
# run
# ------------------------------------------------------------------------------------------------

class Channels:
    """Every public way to obtain an export: module-level functions, the `export` command (text), `export.file` (a real file)
    and `export.clip` (pyperclip stubbed)."""

    def __init__(self, e, root):
        self.e = e
        self.path = os.path.join(root, "export.out")
        self.clipped = []
        self._old_copy = export.pyperclip.copy
        export.pyperclip.copy = self.clipped.append

    def close(self):
        export.pyperclip.copy = self._old_copy

    def file(self, fmt, f):
        if os.path.exists(self.path):
            os.unlink(self.path)
        self.e.file(fmt, f, self.path)
        if not os.path.exists(self.path):
            return None
        with open(self.path, "rb") as fp:
            return fp.read()

    def func(self, fmt, f):
        v = export.formats[fmt](f)
        return v if isinstance(v, bytes) else v.encode("utf-8", "surrogateescape")

    def command(self, fmt, f):
        return self.e.export_str(fmt, f)

    def clip(self, fmt, f):
        del self.clipped[:]
        self.e.clip(fmt, f)
        return self.clipped[-1] if self.clipped else None


def export_all(ctx, ch, fmt, f, sp):
    """Run one format through all four channels.  Returns {channel: bytes} for the byte channels that need the independent
    oracle (the file always, the module function only when it differs from the file), or {} when the export was refused.
    The text channels (`export`, `export.clip`) are display/clipboard text and may escape what is not valid UTF-8: they must
    be str, free of lone surrogates, equal to each other, and -- when the exported bytes are valid UTF-8 -- equal to the file."""
    res = {}
    for name in ("file", "func", "command", "clip"):
        ctx.count("channel." + name)
        try:
            res[name] = getattr(ch, name)(fmt, f)
        except exceptions.CommandError as ex:
            res[name] = exceptions.CommandError
        except Exception as ex:
            res[name] = None
            ctx.violation(f"export-raises:{type(ex).__name__}@{exc_site(ex)}", {"channel": name, "format": fmt, "spec": short(repr(sp), 600), "exc": repr(ex)})
    refused = [n for n, v in res.items() if v is exceptions.CommandError]
    if refused:
        if len(refused) != 4:
            ctx.violation("export-channels-disagree-on-refusal", {"format": fmt, "refused": refused, "spec": short(repr(sp), 600)})
        return {}
    fb = res["file"]
    if fb is None:
        ctx.violation("export-file-not-written", {"format": fmt, "spec": short(repr(sp), 600)})
    out = {}
    if isinstance(fb, bytes):
        out["file"] = fb
    if isinstance(res["func"], bytes) and res["func"] != fb:
        out["func"] = res["func"]
    t, c = res["command"], res["clip"]
    ctx.count("text_channels")
    for name, v in (("command", t), ("clip", c)):
        if v is None:
            continue
        if not isinstance(v, str):
            ctx.violation("text-channel-not-str", {"channel": name, "format": fmt, "type": type(v).__name__})
            continue
        try:
            enc = v.encode("utf-8")
        except UnicodeEncodeError:
            ctx.violation("text-channel-has-lone-surrogates", {"channel": name, "format": fmt, "text": short(repr(v), 300)})
            continue
        if isinstance(fb, bytes):
            try:
                fb.decode("utf-8")
            except UnicodeDecodeError:
                ctx.count("text_channel_escaped_non_utf8")
            else:
                if enc != fb:
                    ctx.violation("text-channel-differs-from-file", {"channel": name, "format": fmt, "text": short(repr(v), 400), "file": fb[:400]})
    if isinstance(t, str) and c != t:
        ctx.violation("clipboard-differs-from-export-command", {"format": fmt, "command": short(repr(t), 300), "clip": short(repr(c), 300)})
    return out


def to_script(cmd: str) -> bytes:
    return cmd.encode("utf-8", "surrogateescape")


# ------------------------------------------------------------------------------------------------
# fixed matrix: the deciding input classes, enumerated before the random cases in every run (split over the workers)
# ------------------------------------------------------------------------------------------------

def base_spec(**kw):
    sp = {
        "method": "POST", "scheme": "http", "host": "example.com", "port": 80, "path": "/p?a=1", "netloc": "example.com",
        "host_header": "example.com", "hh_form": "host", "authority": "", "headers": [("X-Test", "v"), ("Content-Type", "text/plain; charset=utf-8")],
        "body": b"", "body_kind": "none", "gzip": False, "has_cl": True, "version": "HTTP/1.1", "preserve_ip": False, "peer": None, "raw8": False,
    }
    sp.update(kw)
    if "netloc" not in kw:
        sp["netloc"] = sp["host"] if sp["port"] == default_port(sp) else f"{sp['host']}:{sp['port']}"
    return sp


def matrix():
    """[(spec, form)] -- small and fixed; every class that decides one of the recorded findings, mutants or seeds."""
    out = []
    bodies = [
        ("dash+ctl", b"-v\nx"), ("dash+ctl2", b"-d\x01"), ("dash-plain", b"-v"), ("at", b"@file"), ("at+ctl", b"@f\nx"), ("nul", b"a\x00b"),
        ("nl1", b"line\n"), ("nl2", b"line\n\n"), ("crlf", b"a\r\nb\r\n"), ("pct+ctl", b"a%sb%d\n"), ("pct-end", b"100%\n"), ("bs+ctl", b"a\\nb\\x41\\\n"),
        ("bs-plain", b"a\\nb"), ("utf8+ctl", "caf\u00e9\n".encode()), ("utf8", "caf\u00e9=\u65e5\u672c".encode()), ("binary", b"\xff\x00\xfe"), ("plain", b"k=v&x=1"),
        ("quotes+ctl", b"'q'\"d\"\n"), ("subst+ctl", b"$(touch PWNED)`touch PWNED`\n;touch PWNED\n"), ("tab", b"a\tb"), ("ctl-only", b"\x01"),
    ]
    for name, body in bodies:
        key = name in ("dash+ctl", "nl1", "pct+ctl", "plain", "subst+ctl")  # the body encoder is shared by curl and httpie: all classes under curl/bash, key ones also under httpie and dash
        for form in ("curl-bash",) + (("httpie-bash", "curl-dash") if key else ()):
            out.append((base_spec(body=body, body_kind="m:" + name, matrix="body:" + name), form))
    hdr_sets = [
        [("X-Empty", ""), ("X-Blank", "  "), ("X-Lead", "   v"), ("X-Trail", "v  "), ("Accept-Encoding", "gzip"), ("X-Dup", "1"), ("X-Dup", "2")],
        [("@file", "x"), ("-H", "y"), ("a=b", "c"), ("a;b", "c"), ("a@b", "c"), ("a\\:b".replace(":", ""), "c"), ("X-Q", "'\"$(touch PWNED)`id`; touch PWNED\n touch PWNED\n"), ("X-Pct", "%s%d\\n")],
    ]
    for k, hs in enumerate(hdr_sets):
        for form in ("curl-bash", "httpie-bash", "curl-dash"):
            out.append((base_spec(headers=hs, method="PUT", raw8=(k == 0), matrix=f"headers:{k}"), form))
    forms = ["curl-bash", "httpie-bash"]
    n = 0
    for scheme, port in (("http", 80), ("http", 8080), ("https", 443), ("https", 8443)):
        for hh_form in ("absent", "host", "host:port", "host:otherport", "otherhost", "otherhost:port"):
            hh = {"absent": None, "host": "example.com", "host:port": f"example.com:{port}", "host:otherport": "example.com:9999", "otherhost": "other.example.net", "otherhost:port": f"other.example.net:{port}"}[hh_form]
            out.append((base_spec(scheme=scheme, port=port, host_header=hh, hh_form=hh_form, method="GET", matrix=f"host:{scheme}:{port}:{hh_form}", preserve_ip=(n % 3 == 0), peer=("10.9.8.7", port)), forms[n % 2]))
            n += 1
    for name, kw in [
        ("get+body", dict(method="GET", body=b"k=v", body_kind="m:plain")), ("m-search", dict(method="M-SEARCH")), ("hostile-method", dict(method="X;TOUCH PWNED;$(ID)")),
        ("glob", dict(path="/a{b,c}/[1-3]")), ("dotseg", dict(path="/a/../b/./c")), ("fragment", dict(path="/a#frag")), ("space", dict(path="/a b")),
        ("rawbyte", dict(path="/caf\udce9?x=\udcff")), ("meta-path", dict(path="/'\"$(touch PWNED)`id`;&|<>*?~!/x")), ("gzip", dict(body=b"a=1\n", body_kind="m:nl1", gzip=True)),
        ("h2", dict(version="HTTP/2.0", authority="example.com", host_header=None, hh_form="absent")), ("nocl", dict(body=b"abc", body_kind="m:plain", has_cl=False)),
        ("chunked", dict(body=b"hello chunked body, longer than sixteen bytes", body_kind="m:plain", has_cl=False, headers=[("Transfer-Encoding", "chunked"), ("X-Test", "v")])),
        ("utf8-nocharset", dict(body="caf\u00e9".encode(), body_kind="m:utf8", headers=[("X-Test", "v")])), ("utf8-latin1", dict(body="caf\u00e9".encode(), body_kind="m:utf8", headers=[("Content-Type", "text/plain; charset=ISO-8859-1")])),
    ]:
        for form in forms:
            out.append((base_spec(matrix="misc:" + name, **kw), form))
    return out


def work_items(ctx):
    """Matrix items of this worker first, then the random cases (time/count budget applies to the random part only)."""
    forms = ["curl-bash", "curl-dash", "httpie-bash"]
    mx = matrix()
    if ctx.only_case is not None and ctx.only_case < 0:
        k = -ctx.only_case - 1
        ctx.case_index = ctx.only_case
        yield ("matrix", k, ctx.case_rng(k, "matrix"), mx[k][0], mx[k][1])
        return
    if ctx.only_case is None:
        for k, (sp, form) in enumerate(mx):
            if k % ctx.nworkers == ctx.worker:
                ctx.case_index = -(k + 1)
                ctx.count("matrix_cases")
                yield ("matrix", k, ctx.case_rng(k, "matrix"), sp, form)
    for i in ctx.cases():
        r = ctx.rng
        yield ("random", i, r, gen_spec(r), forms[(i + ctx.worker) % 3])


def run(ctx):
    jail = Jail()
    e = export.Export()
    ch = None
    try:
        with taddons.context(e) as tctx:
            ch = Channels(e, jail.root)
            for tag, i, r, sp, form in work_items(ctx):
                exp = expected(sp)
                f = build_flow(sp)
                tctx.configure(e, export_preserve_original_ip=sp["preserve_ip"])
                outcome = []
                cmds = {}
                text = body_text(sp)
                extra_models = []
                for kind in ("curl", "httpie"):
                    got = export_all(ctx, ch, kind, f, sp)
                    if "file" in got:
                        cmds[kind] = got["file"].decode("utf-8", "surrogateescape")  # exactly the bytes export.file wrote
                    else:
                        cmds[kind] = None
                        ctx.count("export_refused")
                        if text is not None:
                            ctx.violation("export-refuses-text-body", {"kind": kind, "spec": short(repr(sp), 600)})
                    if "func" in got:
                        ctx.count("function_differs_from_file")
                        extra_models.append((kind, got["func"].decode("utf-8", "surrogateescape")))
                # ---- quoting model on both commands
                for kind, cmd, chan in [(k, cmds[k], "file") for k in ("curl", "httpie")] + [(k, c, "func") for k, c in extra_models]:
                    if cmd is None:
                        continue
                    ctx.count("shell_model")
                    what = {"form": kind + "-model", "channel": chan, "cmd": short(cmd, 600)}
                    try:
                        words, here = RS.parse(cmd)
                    except RS.Unsafe as ex:
                        ctx.violation("quoting-model-rejects-command", {**what, "reason": str(ex)})
                        outcome.append("model-reject")
                        continue
                    if not words or words[0] != ("curl" if kind == "curl" else "http"):
                        ctx.violation("quoting-model-wrong-program", {**what, "words": words[:3]})
                        continue
                    argv = []
                    for w in words:
                        if isinstance(w, tuple):
                            v = RS.printf_simple(w[1])
                            if v is None:
                                argv.append(w)
                            else:
                                argv.append(v.replace("\x00", "").rstrip("\n"))  # command substitution semantics
                        else:
                            argv.append(w)
                    viol = compare_curl(ctx, sp, exp, argv, False, "model", what) if kind == "curl" else compare_httpie(ctx, sp, exp, argv, "model", what)
                    for k, mech, wit in viol:
                        ctx.violation(k, {**what, **wit}, mechanism=mech)
                        outcome.append(mech or k)
                # ---- one real shell execution
                kind, shell = form.split("-")
                cmd = cmds[kind]
                if cmd is not None and tag == "matrix" and ctx.time_left() < 0.25 * ctx.seconds:
                    # machine too slow for the whole matrix within the tier's budget: the remaining matrix items are decided by the
                    # quoting/printf model only (it evaluates mitmproxy's own printf encoding), the real shell by the random part
                    ctx.count("matrix_shell_skipped")
                    cmd = None
                if cmd is not None:
                    ctx.count("shell_exec")
                    trace = tag == "random" and (i % 20) == 0
                    res = ctx_run(ctx, jail, to_script(cmd), shell, trace)
                    if res is not None:
                        stub = "curl" if kind == "curl" else "http"
                        what = {"form": form, "cmd": short(cmd, 600)}
                        inv = res["invocations"]
                        names = [os.path.basename(x[0].decode("latin-1")) for x in inv]
                        safe = True
                        if [n for n in names if n != stub] or res["files"]:
                            safe = False
                            ctx.violation("shell-runs-other-command-or-creates-file", {**what, "programs": names, "files": res["files"], "stderr": res["stderr"][:300]})
                        elif len(inv) != 1:
                            safe = False
                            ctx.violation("shell-stub-invocations", {**what, "count": len(inv), "rc": res["rc"], "stderr": res["stderr"][:300]}, mechanism=classify_diag(sp, text))
                        if res["stderr"] or res["rc"] != 0:
                            # a diagnostic while exactly the stub ran is a symptom, not a clause of the property: the argv
                            # comparison below decides (bodies outside the exactness domain, e.g. NUL, only warn here)
                            ctx.count("shell_diagnostics")
                            ctx.seen("shell_stderr", re.sub(rb"^\S+: line \d+: ", b"", res["stderr"]).decode("latin-1")[:60])
                        if trace and res["trace"] is not None:
                            ctx.count("strace_runs")
                            for tk, tv in trace_findings(jail, res["trace"], stub):
                                ctx.violation("strace-" + tk, {**what, "detail": tv})
                        if safe and len(inv) == 1:
                            argv = [sesc(x) for x in inv[0]]
                            argv[0] = os.path.basename(argv[0])
                            viol = compare_curl(ctx, sp, exp, argv, True, shell, what) if kind == "curl" else compare_httpie(ctx, sp, exp, argv, shell, what)
                            for k, mech, wit in viol:
                                ctx.violation(k, {**what, **wit}, mechanism=mech)
                                outcome.append(mech or k)
                # ---- raw export
                raw_out = "skipped"
                if in_raw_domain(sp):
                    raw_out = check_raw(ctx, sp, exp, f, ch, "raw")
                sp2 = gen_tame_spec(r)
                if in_raw_domain(sp2):
                    raw2 = check_raw(ctx, sp2, expected(sp2), build_flow(sp2), ch, r.choice(["raw", "raw_request"]))
                    raw_out = raw_out + "/" + raw2 + ("/chunked" if sp2["te_chunked"] else "") + ("/gzip" if sp2["gzip"] else "")
                feats = {
                    "m": tuple(sorted(feat(sp["method"]))),
                    "p": tuple(sorted(feat(sp["path"]))),
                    "h": tuple(sorted(set().union(*[feat(n) | feat(v) for n, v in sp["headers"]]) if sp["headers"] else ())),
                }
                specials = tuple(sorted({("empty" if strip_ows(v) == "" else "ae" if n.lower() == "accept-encoding" else "at" if n.startswith("@") else "") for n, v in sp["headers"]} - {""}))
                nontrivial = bool(feats["m"] or feats["p"] or feats["h"] or sp["body_kind"] not in ("none",))
                union = tuple(sorted(set(feats["m"]) | set(feats["p"]) | set(feats["h"])))
                sig = (tag if tag == "random" else sp.get("matrix"), form, bool(feats["m"]), union, sp["body_kind"], specials, sp["hh_form"], sp["port"] == default_port(sp))
                ctx.case(sig, nontrivial=nontrivial, sample={"form": form, "cmd": short(cmds.get(kind) or "", 400), "method": sp["method"], "path": sp["path"], "body_kind": sp["body_kind"]})
    finally:
        if ch is not None:
            ch.close()
        jail.close()


def ctx_run(ctx, jail, script, shell, trace):
    try:
        return jail.run(script, shell, trace)
    except Inconclusive:
        ctx.count("inconclusive_cases")
        return None
