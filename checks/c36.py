"""C36 -- flow files round-trip every flow type; reading arbitrary bytes fails only with FlowReadException.

Four kinds of case (1 in 8 is a round-trip case, 1 in 8 a writer history with failed saves, 1 in 8 a backup round trip -- after
the fixed matrix flow type x edit class, which runs first in every tier --, the rest are hostile-bytes cases):

(a) round trip (metamorphic + differential): a sequence of 1-20 generated flows of mixed type (vf/gen/flows.py: every
    serialised field randomised) is written with the real FlowWriter / FilteredFlowWriter (BytesIO or a real file) and read
    back with the real FlowReader.  Monitors:
      roundtrip_state            loaded flows' get_state() == the states captured before writing, same order
      roundtrip_attributes       an attribute-level snapshot of each loaded flow (vars()/dataclass fields walked by the harness,
                                 independent of get_state/set_state; only `live`, the resume event and the socket `state` are
                                 exempt) equals the snapshot of the flow that was written
      ref_decode_of_written_file the bytes written decode, with the harness's own codec (vf/ref/c36_tnetstring.py), to the
                                 same states (the writer really produces the documented format)
      reader_accepts_ref_encoding tnetstring.loads(ref.encode(state)) == state (the reader agrees with the reference encoder)
      reserialise_same_states    writing the loaded flows again yields a file carrying the same states (dict order may differ)
    States are compared type-strictly after mapping tuples to lists (the format has a single sequence type); NaN == NaN.
(c) writer history with faults: 3-8 save attempts in one process on one or two writers/files (FlowWriter, FilteredFlowWriter,
    BytesIO or real file, sometimes a fresh writer object on the same file); some of the flows cannot be serialised (a live
    object / set / complex number in metadata at various depths, lone-surrogate text in comment / metadata / error message,
    metadata nested thousands deep).  Monitors:
      failed_save_leaves_file_unchanged   a save of such a flow raises and the file's bytes are unchanged (no other file changes)
      save_appends_exactly_one_record     every successful save appends exactly one well-formed record that decodes (reference
                                          codec) to the flow's state -- in particular the saves AFTER a failed one (save_after_failed_save)
      history_file_reads_back             at the end every file reads back (real FlowReader) to exactly the successfully saved
                                          flows, in order
(d) backup behaviour across save + load: a generated flow of each type gets backup() and then edits confined to the type-specific
    part (request / response / websocket / messages / dns message), to the base part (comment / marked / metadata / error), to
    both, or no edit; it is saved and loaded with the real writer / reader.  get_state() alone cannot show a lost backup, so
    the monitors (backup_roundtrip.<edit class>) compare behaviour: modified() of the original and of the loaded flow equal the
    generator's expectation (an edit was made or not), both hold a backup, and after revert() both are in exactly the state
    captured before backup() and report modified() False.
(e) value classes: a flow carrying a value of a *subclass* of a serialisable type at a place where addons can put one (status code,
    port, dns id, close code, address port; comment, marker, error message, sni, close reason, metadata values and keys, nested;
    timestamps; raw content, message content, alpn), written between two ordinary flows by one writer.  Monitors
    value_class.<class>: int_subclass (http.HTTPStatus, IntEnum, IntFlag, plain int subclass), bool_as_int, str_subclass (StrEnum,
    str subclass overriding __str__/__repr__), float_subclass, bytes_subclass: the file loads completely, the special flow's
    state equals (==) the original with every subclass instance replaced by its plain value, the neighbouring flows are intact;
    buffer (bytearray, memoryview): not part of the format -- the save is refused and leaves the file unchanged;
    number_subclass_custom_repr (user int/float subclass overriding __str__/__repr__): same oracle as int_subclass, classified
    by that input condition.  A fixed matrix class x value x placement x flow kind runs first in every tier.
(b) hostile bytes: byte/bit/length-prefix/type-tag mutations of valid files, structurally valid records that are not flow
    states (keys removed, values of the wrong type, unknown `type`, old/unknown/odd `version`, bytes keys), non-dict records,
    nestings of depth 10..5000, HAR look-alikes, random bytes; read through BytesIO or a BufferedReader.  Monitor:
      read_only_flowreadexception   FlowReader.stream() yields Flow objects and then ends or raises FlowReadException
    A deterministic step budget (count of Python function entries, sys.monitoring) bounds every read; exhausting it means
    the read does not terminate in any reasonable number of steps and is reported (it is not a wall-clock time-out).
"""
from __future__ import annotations

import copy
import io
import json
import os
import shutil
import tempfile

from mitmproxy import exceptions
from mitmproxy import flow as mflow
from mitmproxy import version
from mitmproxy.io import FilteredFlowWriter
from mitmproxy.io import FlowReader
from mitmproxy.io import FlowWriter
from mitmproxy.io import read_flows_from_paths
from mitmproxy.io import tnetstring
from mitmproxy.io import compat

from vf.core import exc_site, short
from vf.gen import flows as G
from vf.ref import c36_tnetstring as T

PROPERTY = "C36"
LEVEL = "exploration"
BUDGET = {"quick": (30_000, 16), "thorough": (3_000_000, 180)}
WORKERS = {"quick": 2, "thorough": 16}
REQUIRED = ["roundtrip_state", "roundtrip_attributes", "ref_decode_of_written_file", "reader_accepts_ref_encoding", "reserialise_same_states", "read_only_flowreadexception",
            "failed_save_leaves_file_unchanged", "save_after_failed_save", "history_file_reads_back",
            "value_class.int_subclass", "value_class.str_subclass", "value_class.float_subclass", "value_class.bytes_subclass",
            "backup_roundtrip.type_specific_only", "backup_roundtrip.base_only", "backup_roundtrip.both", "backup_roundtrip.none"]
ENGINE = "direct"
TECHNIQUE = "round-trip + reference-codec differential; totality of the reader on mutated files under a step budget"
RULE = (
    "every 8th case: a sequence of 1-20 random flows (http, websocket, tcp, udp, dns; every serialised field randomised within its type, "
    "optional fields None ~30%, real PEM certificates, backups made through backup()+edit) written and re-read; signature = (set of flow kinds, "
    "union of optional-field features, writer/reader variant). Other cases: one hostile byte string derived from a valid file of the worker's pool "
    "(or built from scratch); signature = (mutation family, reader variant, outcome: flows accepted / site of the error that became "
    "FlowReadException / escaping exception). Non-trivial: round-trip cases with at least one flow; hostile cases whose bytes differ from "
    "the valid base file. Every 8th case (offset 4): a writer history of 3-8 saves on 1-2 writers where ~40% of the flows are unserialisable "
    "(8 fault kinds); signature = (set of fault kinds, writer variants, number of successful saves after a failed one). First in every run and "
    "every 8th case (offset 2): backup() + edit class {type-specific only, base only, both, none} on a flow of a given type, then save + load; "
    "signature = (flow type, edit class). First in every run and every 8th case (offset 6): a value of a subclass of int/str/float/bytes (or a buffer "
    "object) at one of 23 placements in a flow written between two ordinary flows; signature = (value class, value type, placement, flow kind)"
)
ASSUMPTIONS = [
    "value classes: a subclass instance of int / float / str / bytes is a serialisable value of that type (isinstance is what the writer tests) and must be stored as the plain value it equals; this is asserted for every class the unchanged writer accepts, i.e. all of them; bytearray and memoryview are not serialisable values (the writer documents bytes only) and must be refused at save time without touching the file; values whose public setter refuses them never reach a file and are only counted",
    "str values contain no lone surrogates (not encodable as UTF-8, cannot be produced by decoding network data with the codecs mitmproxy uses)",
    "tuples and lists are the same sequence in a state (the file format has one sequence type); comparison is otherwise type-strict",
    "metadata is restricted to None/bool/int/float/bytes/str/list/tuple/dict values as the property says",
    "the step budget (10 000 + 3 x file size function entries; valid and mutated files were measured to need < 0.25 per byte, dense nesting at most 1 per byte) distinguishes non-termination from slow reads",
]
LEVEL_TEXT = (
    "Exploration: randomised flows over every serialised field and families of hostile byte strings are pushed through the real writer and "
    "reader; agreement is judged against states captured before writing and against an independent codec. The input space is infinite, so "
    "this is sampling guided by field-type pools and structural mutation, not exhaustive."
)
LEVEL_NOTE = "Trusted: CPython, the harness's reference tnetstring codec, the flow generator's notion of each field's type (taken from the dataclass annotations)."

CUR = version.FLOW_FORMAT_VERSION
TAGS = b",;#^!~]}"


# --------------------------------------------------------------------------------------------- helpers

def write_flows(flows, variant, tmpdir):
    """-> bytes written, using the real writers."""
    if variant == "file":
        p = os.path.join(tmpdir, "rt.mitm")
        with open(p, "wb") as fo:
            w = FlowWriter(fo)
            for f in flows:
                w.add(f)
        with open(p, "rb") as fo:
            return fo.read()
    b = io.BytesIO()
    w = FilteredFlowWriter(b, None) if variant == "filtered" else FlowWriter(b)
    for f in flows:
        w.add(f)
    return b.getvalue()


def read_flows(data, variant, tmpdir):
    if variant == "file":
        p = os.path.join(tmpdir, "rd.mitm")
        with open(p, "wb") as fo:
            fo.write(data)
        return read_flows_from_paths([p])
    if variant == "buffered":
        return list(FlowReader(io.BufferedReader(io.BytesIO(data))).stream())  # type: ignore
    return list(FlowReader(io.BytesIO(data)).stream())


def _msgs(state):
    """(list of message states, index of the timestamp in a message state) for tcp/udp/websocket flows."""
    if state.get("type") in ("tcp", "udp"):
        return state.get("messages") or [], 2
    ws = state.get("websocket")
    return ((ws or {}).get("messages") or []), 3


def classify_roundtrip(before, after) -> str | None:
    """Mechanism of a round-trip difference, from the *input* flow: 'message-timestamp-zero' iff the written flow has
    TCP/UDP/WebSocket messages whose timestamp is 0 / 0.0 / -0.0 and those timestamps are the ONLY thing that differs."""
    if after is None:
        return None
    b, (am, idx) = copy.deepcopy(before), _msgs(after)
    bm, _ = _msgs(b)
    if len(bm) != len(am):
        return None
    hit = False
    for x, y in zip(bm, am):
        if len(x) > idx and len(y) > idx and not x[idx] and isinstance(x[idx], (int, float)) and not isinstance(x[idx], bool):
            x[idx] = y[idx]
            hit = True
    return "message-timestamp-zero" if hit and T.same(b, after) else None


# --------------------------------------------------------------------------------------------- (a) round trip

def case_roundtrip(ctx, tmpdir):
    r = ctx.rng
    zero = r.random() < 0.1
    flows = G.gen_flows(r, None, size=r.choice(["small", "normal"]), zero_msg_ts=zero)
    wv = r.choice(["bytesio", "bytesio", "filtered", "file"])
    rv = r.choice(["bytesio", "bytesio", "buffered", "file"])
    states = [T.norm(copy.deepcopy(f.get_state())) for f in flows]
    snaps = [T.norm(G.attr_snapshot(f)) for f in flows]
    feats = sorted({x for f in flows for x in G.features(f)})
    sig = ("rt", tuple(sorted({G.kind_of(f) for f in flows})), tuple(feats), wv, rv, min(len(flows), 3))
    sample = {"case": "roundtrip", "kinds": [G.kind_of(f) for f in flows], "features": feats, "writer": wv, "reader": rv}

    try:
        data = write_flows(flows, wv, tmpdir)
    except Exception as e:
        ctx.violation("write-raises", {"exc": repr(e), "site": exc_site(e), "kinds": sample["kinds"]})
        ctx.case(sig, True, sample)
        return
    sample["file_bytes"] = len(data)

    # the written bytes are the documented format and carry exactly the states
    ctx.count("ref_decode_of_written_file")
    try:
        dec = T.decode_all(data)
        if len(dec) != len(states):
            ctx.violation("ref-decode-count", {"written": len(states), "decoded": len(dec)})
        else:
            for i, (a, d) in enumerate(zip(states, dec)):
                if not T.same(a, d):
                    ctx.violation("written-bytes-differ-from-state", {"flow": i, "kind": sample["kinds"][i], "diff": T.diff(a, d)})
                    break
    except T.RefError as e:
        ctx.violation("written-file-not-wellformed", {"err": str(e), "head": data[:200]})

    # the reader agrees with the reference encoder on these states
    ctx.count("reader_accepts_ref_encoding")
    try:
        st0 = states[r.randrange(len(states))]
        back0 = T.norm(tnetstring.loads(T.encode(st0)))
        if not T.same(st0, back0):
            ctx.violation("reader-differs-on-ref-encoding", {"diff": T.diff(st0, back0)})
    except Exception as e:
        ctx.violation("reader-rejects-ref-encoding", {"exc": repr(e)})

    ctx.count("roundtrip_state")
    try:
        loaded = read_flows(data, rv, tmpdir)
    except Exception as e:
        ctx.violation("read-of-valid-file-raises", {"exc": short(repr(e)), "site": exc_site(e), "kinds": sample["kinds"]})
        ctx.case(sig, True, sample)
        return
    if len(loaded) != len(flows):
        ctx.violation("flow-count-differs", {"written": len(flows), "loaded": len(loaded)})
    else:
        for i, (a, g) in enumerate(zip(states, loaded)):
            b = T.norm(g.get_state())
            if not T.same(a, b):
                d = T.diff(a, b)
                ctx.violation("state-differs-after-load", {"flow": i, "kind": sample["kinds"][i], "diff": d}, classify_roundtrip(a, b))
                break
            if type(g) is not type(flows[i]):
                ctx.violation("flow-class-differs", {"flow": i, "written": type(flows[i]).__name__, "loaded": type(g).__name__})
                break
            ctx.count("roundtrip_attributes")
            sn = T.norm(G.attr_snapshot(g))
            if not T.same(snaps[i], sn):
                ctx.violation("attributes-differ-after-load", {"flow": i, "kind": sample["kinds"][i], "diff": T.diff(snaps[i], sn)})
                break
        else:
            ctx.count("reserialise_same_states")
            data2 = write_flows(loaded, "bytesio", tmpdir)
            try:
                dec2 = [T.norm(x) for x in T.decode_all(data2)]
                if len(dec2) != len(states) or not all(T.same(a, d) for a, d in zip(states, dec2)):
                    ctx.violation("second-generation-file-differs", {"len1": len(data), "len2": len(data2)})
            except T.RefError as e:
                ctx.violation("second-generation-file-not-wellformed", {"err": str(e)})
    ctx.case(sig, True, sample)


# --------------------------------------------------------------------------------------------- (c) writer histories with failed saves

class _Opaque:
    """A live object an addon might park in flow.metadata; not part of the file format."""

    def __repr__(self):
        return "<opaque>"


def make_unserialisable(r, f):
    """Turn a generated flow into one the documented format cannot carry. -> name of the fault."""
    fault = r.choice(["metadata-object", "metadata-object", "metadata-set", "metadata-nested-object", "surrogate-comment", "surrogate-metadata", "deep-metadata", "surrogate-error-msg"])
    if fault == "metadata-object":
        f.metadata[r.choice(["addon_state", "k", "zz"])] = _Opaque()
    elif fault == "metadata-set":
        f.metadata["seen"] = {1, 2, 3}
    elif fault == "metadata-nested-object":
        f.metadata["nested"] = {"a": [1, b"x", {"deep": [complex(1, 2)]}], "b": "tail"}
    elif fault == "surrogate-comment":
        f.comment = "caf\udce9 " + r.choice(["", "x" * 50])
    elif fault == "surrogate-metadata":
        f.metadata["name"] = ["ok", "bad \ud800 text"]
    elif fault == "surrogate-error-msg":
        from mitmproxy import flow as _fl

        f.error = _fl.Error("connection reset \udcff", 946681207.0)
    else:
        v = []
        for _ in range(r.choice([1500, 3000])):
            v = [v]
        f.metadata["deep"] = v
    return fault


class _Target:
    """One file (BytesIO or a real file) with the writer object that appends to it."""

    def __init__(self, variant, tmpdir, name):
        self.variant = variant
        self.path = None
        if variant == "file":
            self.path = os.path.join(tmpdir, name)
            self.fo = open(self.path, "wb")
        else:
            self.fo = io.BytesIO()
        self.writer = FilteredFlowWriter(self.fo, None) if variant == "filtered" else FlowWriter(self.fo)
        self.states = []  # states of the successfully saved flows, in order
        self.kinds = []

    def content(self):
        if self.path:
            self.fo.flush()
            with open(self.path, "rb") as fh:
                return fh.read()
        return self.fo.getvalue()

    def close(self):
        if self.path:
            self.fo.close()


def case_fault_history(ctx, tmpdir):
    """Saves that fail part-way through serialisation interleaved with saves that succeed, on one or two writers."""
    r = ctx.rng
    variants = [r.choice(["bytesio", "filtered", "file"]) for _ in range(r.choice([1, 1, 2]))]
    targets = [_Target(v, tmpdir, f"hist{k}.mitm") for k, v in enumerate(variants)]
    hist = []
    faults = set()
    n_ok_after_fail = 0
    failed_before = False
    try:
        nsteps = r.randint(3, 8)
        plan = [r.random() < 0.4 for _ in range(nsteps)]
        if not any(plan):
            plan[r.randrange(nsteps - 1)] = True
        plan[-1] = False  # always end with a save that should succeed
        for bad in plan:
            t = r.choice(targets)
            if r.random() < 0.15:
                # a fresh writer object on the same file (e.g. a second save.file with "+path")
                t.writer = FilteredFlowWriter(t.fo, None) if t.variant == "filtered" else FlowWriter(t.fo)
            f = G.gen_flow(r, None, size="small")
            before = t.content()
            others = [(o, o.content()) for o in targets if o is not t]
            if bad:
                fault = make_unserialisable(r, f)
                faults.add(fault)
                hist.append(f"{t.variant}{targets.index(t)}:FAIL({fault})")
                ctx.count("failed_save_leaves_file_unchanged")
                raised = None
                try:
                    t.writer.add(f)
                except (Exception, RecursionError) as e:  # noqa
                    raised = e
                after = t.content()
                if raised is None:
                    ctx.violation("unserialisable-flow-saved-without-error", {"history": hist, "fault": fault, "appended": after[len(before):][:200]})
                if after != before:
                    ctx.violation("failed-save-changed-file", {"history": hist, "fault": fault, "exc": short(repr(raised), 200), "len_before": len(before), "len_after": len(after), "appended": after[len(before):][:300]})
                failed_before = True
            else:
                st = T.norm(copy.deepcopy(f.get_state()))
                hist.append(f"{t.variant}{targets.index(t)}:save({G.kind_of(f)})")
                try:
                    t.writer.add(f)
                except Exception as e:
                    ctx.violation("write-raises", {"history": hist, "exc": repr(e), "site": exc_site(e)})
                    continue
                t.states.append(st)
                t.kinds.append(G.kind_of(f))
                after = t.content()
                ctx.count("save_appends_exactly_one_record")
                if failed_before:
                    n_ok_after_fail += 1
                    ctx.count("save_after_failed_save")
                problem = None
                if not after.startswith(before):
                    problem = "existing bytes changed"
                else:
                    tail = after[len(before):]
                    try:
                        dec = T.decode_all(tail)
                        if len(dec) != 1:
                            problem = f"{len(dec)} records appended"
                        elif not T.same(st, T.norm(dec[0])):
                            problem = "appended record differs from the flow's state: " + str(T.diff(st, T.norm(dec[0])))
                    except T.RefError as e:
                        problem = f"appended bytes are not one well-formed record: {e}"
                if problem:
                    ctx.violation("save-did-not-append-exactly-the-flow", {"history": hist, "problem": problem, "after_failed_save": failed_before, "tail_head": after[len(before):][:200], "tail_end": after[-200:]})
            for o, ob in others:
                if o.content() != ob:
                    ctx.violation("save-changed-another-file", {"history": hist})
        # every file reads back to exactly the successfully saved flows, in order
        for k, t in enumerate(targets):
            data = t.content()
            ctx.count("history_file_reads_back")
            try:
                loaded = read_flows(data, r.choice(["bytesio", "buffered", "file"]), tmpdir)
            except Exception as e:
                ctx.violation("read-of-written-history-raises", {"history": hist, "file": k, "exc": short(repr(e)), "saved": len(t.states)})
                continue
            if len(loaded) != len(t.states):
                ctx.violation("history-flow-count-differs", {"history": hist, "file": k, "saved": len(t.states), "loaded": len(loaded)})
                continue
            for i, (a, g) in enumerate(zip(t.states, loaded)):
                b = T.norm(g.get_state())
                if not T.same(a, b):
                    ctx.violation("history-state-differs-after-load", {"history": hist, "file": k, "flow": i, "kind": t.kinds[i], "diff": T.diff(a, b)}, classify_roundtrip(a, b))
                    break
    finally:
        for t in targets:
            t.close()
    sig = ("faults", tuple(sorted(faults)), tuple(sorted(variants)), min(n_ok_after_fail, 3))
    ctx.case(sig, True, {"case": "fault-history", "history": hist})


# --------------------------------------------------------------------------------------------- (d) backup behaviour across save + load

EDIT_CLASSES = ("type_specific_only", "base_only", "both", "none")


def edit_type_specific(r, f, kind):
    """Change only what the flow type adds to the state (request / response / websocket / messages); always a real change."""
    from mitmproxy import tcp as _tcp, udp as _udp, websocket as _ws

    if kind in ("http", "websocket"):
        c = r.randrange(4)
        if kind == "websocket" and c < 2:
            if c == 0:
                m = _ws.WebSocketMessage(1, True, b"edited", 946681300.0)
                f.websocket.messages.append(m)
            else:
                f.websocket.close_code = 4000 if f.websocket.close_code != 4000 else 4001
            return "websocket"
        if c == 2 and f.response is not None:
            f.response.status_code = 418 if f.response.status_code != 418 else 419
            return "response"
        if c == 3:
            f.request.headers["x-edited"] = "1" if f.request.headers.get("x-edited") != "1" else "2"
            return "request.headers"
        f.request.content = (f.request.raw_content or b"") + b"-edited"
        return "request.content"
    if kind in ("tcp", "udp"):
        if f.messages and r.random() < 0.5:
            f.messages[0].content = f.messages[0].content + b"!"
            return "message.content"
        f.messages.append((_tcp.TCPMessage if kind == "tcp" else _udp.UDPMessage)(True, b"edited", 946681300.0))
        return "messages.append"
    f.request.id = f.request.id + 1
    return "dns.request.id"


def edit_base(r, f):
    """Change only fields of the Flow base class; always a real change."""
    c = r.randrange(4)
    if c == 0:
        f.comment = f.comment + " edited"
        return "comment"
    if c == 1:
        f.marked = ":edited:" if f.marked != ":edited:" else ":edited2:"
        return "marked"
    if c == 2:
        f.metadata["c36_edited"] = f.metadata.get("c36_edited", 0) + 1 if isinstance(f.metadata.get("c36_edited", 0), int) else 1
        return "metadata"
    f.error = None if f.error else mflow.Error("edited", 946681300.0)
    return "error"


def save_load(f):
    b = io.BytesIO()
    FlowWriter(b).add(f)
    b.seek(0)
    out = list(FlowReader(b).stream())
    if len(out) != 1:
        raise ValueError(f"{len(out)} flows loaded from a file of one")
    return out[0]


def case_backup_roundtrip(ctx, r, kind, cls):
    """backup() + edits of a given class, then save + load: the loaded flow must behave like the original with respect to
    backup presence, modified() and the state reached by revert()."""
    f = G.gen_flow(r, kind, size="small", exotic_floats=False)  # NaN never equals itself: keep modified() meaningful
    if f._backup:
        f.revert()
    state0 = T.norm(copy.deepcopy(f.get_state()))
    f.backup()
    touched = []
    if cls in ("type_specific_only", "both"):
        touched.append(edit_type_specific(r, f, kind))
    if cls in ("base_only", "both"):
        touched.append(edit_base(r, f))
    ctx.count("backup_roundtrip." + cls)
    W = {"kind": kind, "edit_class": cls, "edited": touched}
    sig = ("backup-rt", kind, cls)
    sample = {"case": "backup-roundtrip", **W}
    try:
        g = save_load(f)
    except Exception as e:
        ctx.violation("backup-roundtrip-save-load-raises", {**W, "exc": short(repr(e)), "site": exc_site(e)})
        ctx.case(sig, True, sample)
        return
    want_modified = cls != "none"
    o_mod, g_mod = f.modified(), g.modified()
    if o_mod != want_modified:
        ctx.violation("original-modified-wrong", {**W, "expected": want_modified, "got": o_mod})
    if g_mod != want_modified:
        ctx.violation("loaded-flow-modified-differs", {**W, "expected": want_modified, "original": o_mod, "loaded": g_mod})
    o_has, g_has = f._backup is not None, g._backup is not None
    if not o_has or g_has != o_has:
        ctx.violation("backup-lost-in-file", {**W, "original_has_backup": o_has, "loaded_has_backup": g_has})
    try:
        f.revert()
        g.revert()
    except Exception as e:
        ctx.violation("revert-raises", {**W, "exc": short(repr(e)), "site": exc_site(e)})
        ctx.case(sig, True, sample)
        return
    so, sg = T.norm(copy.deepcopy(f.get_state())), T.norm(copy.deepcopy(g.get_state()))
    if not T.same(state0, so):
        ctx.violation("original-revert-not-exact", {**W, "diff": T.diff(state0, so)})
    if not T.same(state0, sg):
        ctx.violation("loaded-flow-revert-differs", {**W, "diff": T.diff(state0, sg)}, classify_roundtrip(state0, sg))
    if f.modified() or g.modified():
        ctx.violation("modified-after-revert", {**W, "original": f.modified(), "loaded": g.modified()})
    ctx.case(sig, True, sample)


def backup_matrix(ctx):
    """The fixed matrix flow type x edit class, split over the workers; runs first in every tier."""
    k = 0
    for kind in G.KINDS:
        for cls in EDIT_CLASSES:
            for rep in range(3):
                if k % ctx.nworkers == ctx.worker:
                    case_backup_roundtrip(ctx, ctx.case_rng(-1000 - k, "c36-backup"), kind, cls)
                k += 1


# --------------------------------------------------------------------------------------------- (e) value classes

import enum as _enum
import http as _pyhttp


class _Color(_enum.IntEnum):
    RED = 1
    TEAL = 418


class _Perm(_enum.IntFlag):
    R = 4
    W = 2


class _PlainInt(int):
    pass


class _ReprInt(int):
    def __repr__(self):
        return "_ReprInt(%d)" % int(self)


class _StrInt(int):
    def __str__(self):
        return "seven"


class _Tag(_enum.StrEnum):
    A = "alpha"
    U = "\u00fcber"


class _LoudStr(str):
    def __str__(self):
        return "custom-str"

    def __repr__(self):
        return "<LoudStr>"


class _PlainFloat(float):
    pass


class _ReprFloat(float):
    def __repr__(self):
        return "_ReprFloat"


class _MyBytes(bytes):
    pass


# class -> values.  "supported" classes must round-trip to an equal (==) plain value; "number_subclass_custom_repr" is what the
# format cannot be expected to guess but must not corrupt either (see classify_value_class); "buffer" types are rejected at save time.
VALUE_CLASSES = {
    "int_subclass": [_pyhttp.HTTPStatus.NOT_FOUND, _pyhttp.HTTPStatus.OK, _Color.TEAL, _Perm.R | _Perm.W, _PlainInt(8080)],
    "bool_as_int": [True, False],
    "number_subclass_custom_repr": [_ReprInt(5), _StrInt(7), _ReprFloat(946681200.5)],
    "str_subclass": [_Tag.A, _Tag.U, _LoudStr("plain content"), _LoudStr("\u20ac content")],
    "float_subclass": [_PlainFloat(946681200.25)],
    "bytes_subclass": [_MyBytes(b"bytes \xff content")],
    "buffer": [bytearray(b"ba"), memoryview(b"mv")],
}


def _plc_int():
    return [
        ("response.status_code", ("http", "websocket"), lambda f, v: setattr(f.response, "status_code", v)),
        ("request.port", ("http", "websocket"), lambda f, v: setattr(f.request, "port", v)),
        ("metadata", G.KINDS, lambda f, v: f.metadata.__setitem__("vc", v)),
        ("metadata.nested", G.KINDS, lambda f, v: f.metadata.__setitem__("vc", {"a": [1, (v,), {"b": v}], "z": "tail"})),
        ("dns.request.id", ("dns",), lambda f, v: setattr(f.request, "id", v)),
        ("server_conn.address.port", G.KINDS, lambda f, v: setattr(f.server_conn, "address", ("example.com", v))),
        ("websocket.close_code", ("websocket",), lambda f, v: setattr(f.websocket, "close_code", v)),
    ]


def _plc_str():
    return [
        ("comment", G.KINDS, lambda f, v: setattr(f, "comment", v)),
        ("marked", G.KINDS, lambda f, v: setattr(f, "marked", v)),
        ("metadata", G.KINDS, lambda f, v: f.metadata.__setitem__("vc", [v, {"k": v}])),
        ("metadata.key", G.KINDS, lambda f, v: f.metadata.__setitem__(v, 1)),
        ("error.msg", G.KINDS, lambda f, v: setattr(f, "error", mflow.Error(v, 946681207.0))),
        ("client_conn.sni", G.KINDS, lambda f, v: setattr(f.client_conn, "sni", v)),
        ("websocket.close_reason", ("websocket",), lambda f, v: setattr(f.websocket, "close_reason", v)),
    ]


def _plc_float():
    def msg_ts(f, v):
        msgs = f.websocket.messages if getattr(f, "websocket", None) else f.messages
        if not msgs:
            raise LookupError("no message")
        msgs[0].timestamp = v

    return [
        ("timestamp_created", G.KINDS, lambda f, v: setattr(f, "timestamp_created", v)),
        ("request.timestamp_start", ("http", "websocket"), lambda f, v: setattr(f.request, "timestamp_start", v)),
        ("message.timestamp", ("tcp", "udp", "websocket"), msg_ts),
        ("metadata", G.KINDS, lambda f, v: f.metadata.__setitem__("vc", (v, [v]))),
        ("error.timestamp", G.KINDS, lambda f, v: setattr(f, "error", mflow.Error("e", v))),
    ]


def _plc_bytes():
    def msg_content(f, v):
        if not f.messages:
            raise LookupError("no message")
        f.messages[0].content = v

    return [
        ("request.raw_content", ("http", "websocket"), lambda f, v: setattr(f.request, "raw_content", v)),
        ("message.content", ("tcp", "udp"), msg_content),
        ("metadata", G.KINDS, lambda f, v: f.metadata.__setitem__("vc", {"b": [v]})),
        ("client_conn.alpn", G.KINDS, lambda f, v: setattr(f.client_conn, "alpn", v)),
    ]


def placements_for(value):
    if isinstance(value, (bytearray, memoryview)):
        return [p for p in _plc_bytes() if p[0] == "metadata"]
    if isinstance(value, bool):
        return [p for p in _plc_int() if p[0] in ("metadata", "metadata.nested")]
    if isinstance(value, int):
        return _plc_int()
    if isinstance(value, float):
        return _plc_float()
    if isinstance(value, str):
        return _plc_str()
    return _plc_bytes()


def to_plain(o):
    """The plain value a subclass instance stands for (what == compares)."""
    if isinstance(o, dict):
        return {to_plain(k): to_plain(v) for k, v in o.items()}
    if isinstance(o, (list, tuple)):
        return [to_plain(x) for x in o]
    if isinstance(o, bool) or o is None:
        return o
    if isinstance(o, int):
        return int.__index__(o) + 0
    if isinstance(o, float):
        return float.__add__(o, 0.0) if o == o else o
    if isinstance(o, str):
        return "".join(o)
    if isinstance(o, bytes):
        return bytes.__getitem__(o, slice(None)) if type(o) is bytes else b"".join([bytes.__getitem__(o, slice(None))])
    return o


def classify_value_class(cls):
    """Only one class has a mechanism: numbers of a user subclass that overrides __str__/__repr__ (input condition)."""
    return "number-subclass-with-custom-str-or-repr-written-verbatim" if cls == "number_subclass_custom_repr" else None


def case_value_class(ctx, r, cls, value, placement, kind):
    """[plain flow, flow carrying `value` at `placement`, plain flow] written by one writer and read back."""
    pname, kinds, setter = placement
    fa = G.gen_flow(r, None, size="small", exotic_floats=False)
    fb = G.gen_flow(r, kind, size="small", exotic_floats=False)
    fc = G.gen_flow(r, None, size="small", exotic_floats=False)
    if fb._backup:
        fb.revert()
    if kind in ("http", "websocket") and fb.response is None and pname.startswith("response"):
        fb.response = G.gen_response(r, True)
    W = {"value_class": cls, "value_type": type(value).__name__, "value": short(repr(value), 80), "placement": pname, "kind": kind}
    sig = ("value-class", cls, type(value).__name__, pname, kind)
    try:
        setter(fb, value)
    except LookupError:
        return  # the generated flow has no such part (no message); not a case
    except Exception as e:
        # the public attribute refuses the value: nothing reaches the file
        ctx.count("value_class.refused_by_setter")
        ctx.seen("value_class_refusals", f"{type(value).__name__}@{pname}:{type(e).__name__}")
        ctx.case(sig + ("refused",), False, None)
        return
    ctx.count("value_class." + cls)
    mech = classify_value_class(cls)
    # (a buffer object in metadata already makes get_state() raise -- deepcopy cannot copy a memoryview --, which is a refusal too)
    want_b = None if cls == "buffer" else T.norm(to_plain(copy.deepcopy(fb.get_state())))
    want = [T.norm(copy.deepcopy(fa.get_state())), want_b, T.norm(copy.deepcopy(fc.get_state()))]
    buf = io.BytesIO()
    w = FlowWriter(buf)
    w.add(fa)
    before = buf.getvalue()
    raised = None
    try:
        w.add(fb)
    except Exception as e:  # noqa
        raised = e
    if cls == "buffer":
        # not part of the format: the save must be refused and must not touch the file
        if raised is None or buf.getvalue() != before:
            ctx.violation("buffer-value-not-refused-cleanly", {**W, "raised": repr(raised), "appended": buf.getvalue()[len(before):][:200]}, mech)
        want.pop(1)
    elif raised is not None:
        ctx.violation("supported-value-class-rejected-at-save", {**W, "exc": short(repr(raised)), "site": exc_site(raised)}, mech)
        want.pop(1)
        if buf.getvalue() != before:
            ctx.violation("failed-save-changed-file", {**W, "appended": buf.getvalue()[len(before):][:200]}, mech)
    w.add(fc)
    data = buf.getvalue()
    sample = {"case": "value-class", **W}
    try:
        loaded = read_flows(data, r.choice(["bytesio", "buffered"]), None)
    except Exception as e:
        ctx.violation("value-class-file-unreadable", {**W, "exc": short(repr(e)), "record_head": data[len(before):][:160]}, mech)
        ctx.case(sig, True, sample)
        return
    if len(loaded) != len(want):
        ctx.violation("value-class-flow-count-differs", {**W, "written": len(want), "loaded": len(loaded)}, mech)
    else:
        for i, (a, g) in enumerate(zip(want, loaded)):
            b = T.norm(g.get_state())
            if not T.same(a, b):
                ctx.violation("value-class-state-differs", {**W, "flow": i, "diff": T.diff(a, b)}, mech or classify_roundtrip(a, b))
                break
    ctx.case(sig, True, sample)


def value_class_matrix(ctx):
    """Fixed matrix value class x value x placement x compatible flow kind, split over the workers; first in every tier."""
    k = 0
    for cls, values in VALUE_CLASSES.items():
        for value in values:
            for placement in placements_for(value):
                for kind in placement[1]:
                    if k % ctx.nworkers == ctx.worker:
                        case_value_class(ctx, ctx.case_rng(-3000 - k, "c36-vc"), cls, value, placement, kind)
                    k += 1


def case_value_class_random(ctx):
    r = ctx.rng
    cls = r.choice(list(VALUE_CLASSES))
    value = r.choice(VALUE_CLASSES[cls])
    placement = r.choice(placements_for(value))
    case_value_class(ctx, r, cls, value, placement, r.choice(list(placement[1])))


# --------------------------------------------------------------------------------------------- (b) hostile bytes

def base_pool(ctx):
    """Valid files (bytes, frames, decoded states) the hostile cases start from; deterministic per (seed, worker)."""
    pool = []
    for k in range(6):
        rr = ctx.case_rng(-1 - k, "c36-base")
        flows = G.gen_flows(rr, rr.choice([1, 2, 4]), size="small" if k < 4 else "normal")
        states = [T.norm(copy.deepcopy(f.get_state())) for f in flows]
        data = write_flows(flows, "bytesio", None)
        # The base files are written by the real writer from valid flows, so they are round-trip evidence too: they must
        # be well-formed and carry exactly the states.  (A writer that corrupts them must not crash the harness.)
        ctx.count("ref_decode_of_written_file")
        problem = None
        try:
            fr, stop = T.frames(data)
            dec = [T.decode(data, s, e)[0] for s, e in fr]
            if stop != len(data) or len(dec) != len(states):
                problem = f"{len(states)} flows written, {len(dec)} complete records, framing stops at {stop} of {len(data)}"
            else:
                for i, (a, d) in enumerate(zip(states, dec)):
                    if not T.same(a, T.norm(d)):
                        problem = f"flow {i}: {T.diff(a, T.norm(d))}"
                        break
        except T.RefError as e:
            problem = f"not well-formed: {e}"
        if problem is not None:
            ctx.violation("written-file-not-wellformed", {"where": f"base file {k}", "kinds": [G.kind_of(f) for f in flows], "problem": problem, "head": data[:200]})
            data = b"".join(T.encode(st) for st in states)  # keep the hostile cases running from a reference-encoded file
            fr, _ = T.frames(data)
            dec = [T.decode(data, s, e)[0] for s, e in fr]
        pool.append((data, fr, dec))
    return pool


def headers_of(data, start, end, limit=400):
    """Offsets (digits_start, colon, tag_pos) of records nested in data[start:end] (first `limit`, breadth first)."""
    out = []
    todo = [(start, end)]
    while todo and len(out) < limit:
        s, e = todo.pop(0)
        pos = s
        while pos < e and len(out) < limit:
            try:
                tag, p0, p1, nxt = T._header(data, pos, e)
            except T.RefError:
                break
            out.append((pos, p0 - 1, p1))
            if tag in (b"]", b"}"):
                todo.append((p0, p1))
            pos = nxt
    return out


WRONG = [None, True, False, 0, -1, 7, 1.5, "", "x", b"", b"x", [], [1], {}, {"a": 1}, [[]], "http", b"http", [0, 11], 2**70]


def paths_of(o, pre=()):
    yield pre
    if isinstance(o, dict):
        for k, v in o.items():
            yield from paths_of(v, pre + (k,))
    elif isinstance(o, list):
        for i, v in enumerate(o):
            if i < 6:
                yield from paths_of(v, pre + (i,))


def get_at(o, path):
    for p in path:
        o = o[p]
    return o


def set_at(o, path, val):
    get_at(o, path[:-1])[path[-1]] = val


def mutate_state(r, st):
    """Return (mutated copy of a decoded state, name of the structural mutation)."""
    try:
        return _mutate_state(r, st)
    except (KeyError, TypeError, IndexError, AttributeError):  # the chosen operation does not apply to this (already mutated) value
        return copy.deepcopy(st), "noop"


def _mutate_state(r, st):
    st = copy.deepcopy(st)
    op = r.choice(["delkey", "delkey", "wrongtype", "wrongtype", "wrongtype", "addkey", "type", "version", "version", "byteskeys", "swap", "wrap", "two"])
    paths = [p for p in paths_of(st) if p]
    if op == "two":
        st, a = mutate_state(r, st)
        st, b = mutate_state(r, st)
        return st, "two"
    if op == "delkey":
        dps = [p for p in paths if isinstance(get_at(st, p[:-1]), dict)]
        p = r.choice(dps)
        del get_at(st, p[:-1])[p[-1]]
    elif op == "wrongtype":
        p = r.choice(paths)
        old = get_at(st, p)
        cands = [w for w in WRONG if type(w) is not type(old)]
        set_at(st, p, copy.deepcopy(r.choice(cands)))
    elif op == "addkey":
        dps = [p for p in [()] + paths if isinstance(get_at(st, p), dict)]
        p = r.choice(dps)
        get_at(st, p)[r.choice(["extra", "state", b"version", "address", "via2", ""])] = copy.deepcopy(r.choice(WRONG))
    elif op == "type":
        st["type"] = r.choice(["http", "tcp", "udp", "dns", "websocket", "unknown", "", b"http", 1, None, "Http", ["http"]])
    elif op == "version":
        x = r.random()
        if x < 0.35:
            st["version"] = r.choice(list(range(0, CUR)) + [CUR + 1, CUR + 100, -1, 2**64])
        elif x < 0.55:
            st["version"] = r.choice([[0, 11], [0, 17], [0, 18], [0, 19], [1, 0, 0], [2, 0, 5], [3, 0], [0, 10], [], [0], [4], ["0", "11"], [[0]], [0, 11, 0, 0]])
        elif x < 0.8:
            del st["version"]
            st[b"version"] = r.choice(list(range(0, CUR + 2)) + [[0, 11], [0, 18], [1, 0], None, b"21"])
            if r.random() < 0.5:
                st["version"] = r.choice([CUR, 4, [0, 11]])
        else:
            st["version"] = r.choice([None, "21", b"21", 21.0, True, {}, {"a": 1}, "x"])
    elif op == "byteskeys":
        def conv(o, depth=0):
            if isinstance(o, dict):
                return {(k.encode("utf8", "surrogateescape") if isinstance(k, str) else k): (conv(v, depth + 1) if depth < r.choice([0, 1, 9]) else v) for k, v in o.items()}
            return o
        st = conv(st)
        if r.random() < 0.7:
            st[b"version"] = r.choice([[0, 11], [0, 13], [0, 15], [0, 17], [0, 18], 4, 9, CUR])
    elif op == "swap":
        a, b = r.choice(paths), r.choice(paths)
        if a[: len(b)] != b and b[: len(a)] != a:
            va, vb = copy.deepcopy(get_at(st, a)), copy.deepcopy(get_at(st, b))
            set_at(st, a, vb)
            set_at(st, b, va)
    elif op == "wrap":
        st = r.choice([[st], {"flow": st}, [st, st], {"version": CUR, "type": "http", "state": st}])
    return st, op


def nested(r, depth, kind):
    s = r.choice([b"0:]", b"0:}", b"1:a,", b"0:~"])
    for _ in range(depth):
        if kind == "]" or (kind == "mix" and r.random() < 0.5):
            s = str(len(s)).encode() + b":" + s + b"]"
        else:
            s = b"1:k," + s
            s = str(len(s)).encode() + b":" + s + b"}"
    return s


def make_hostile(ctx, pool):
    """-> (family, bytes, base bytes or None)"""
    r = ctx.rng
    data, fr, states = r.choice(pool)
    fam = r.choice(["bytes", "bytes", "bits", "insdel", "length", "length", "tag", "struct", "struct", "struct", "struct", "struct", "nonflow", "nest", "har", "trunc", "concat", "random"])
    if fam in ("bytes", "bits", "insdel"):
        b = bytearray(data)
        hdrs = None
        for _ in range(r.choice([1, 1, 2, 3])):
            if r.random() < 0.5:
                if hdrs is None:
                    s, e = r.choice(fr)
                    hdrs = headers_of(data, s, e)
                h = r.choice(hdrs)
                pos = r.choice([r.randint(h[0], h[1]), h[2]])
            else:
                pos = r.randrange(len(b))
            pos = min(pos, len(b) - 1)
            if fam == "bits":
                b[pos] ^= 1 << r.randrange(8)
            elif fam == "bytes":
                b[pos] = r.choice([r.randrange(256), r.choice(TAGS), r.choice(b"0123456789:"), 0, 255])
            elif r.random() < 0.5:
                del b[pos:pos + r.choice([1, 1, 2, 5])]
            else:
                b[pos:pos] = bytes(r.choice([r.choice(b"0123456789:"), r.choice(TAGS), r.randrange(256)]) for _ in range(r.choice([1, 1, 2, 3])))
        return fam, bytes(b), data
    if fam in ("length", "tag"):
        s, e = r.choice(fr)
        hdrs = headers_of(data, s, e)
        h = r.choice(hdrs[:1] * 3 + hdrs)
        if fam == "tag":
            b = bytearray(data)
            b[h[2]] = r.choice(TAGS)
            return fam, bytes(b), data
        n = int(data[h[0]:h[1]])
        new = r.choice([n + 1, n - 1, n + 2, n * 10, n // 10, 0, n + len(data), 10**6, 999999999999, 10**11, 10**12, 10**13, 2**31, 2**32])
        txt = str(max(new, 0)).encode()
        if r.random() < 0.1:
            txt = r.choice([b"0" + txt, b"-" + txt, b"+" + txt, b" " + txt, txt + b" ", b"", b"0x10", "١٢".encode(), "²".encode()])
        return fam, data[:h[0]] + txt + data[h[1]:], data
    if fam == "struct":
        k = r.randrange(len(states))
        st, op = mutate_state(r, states[k])
        try:
            rec = T.encode(st)
        except (T.RefError, UnicodeEncodeError):
            rec = b"0:}"
        parts = [data[s:e] for s, e in fr]
        parts[k] = rec
        if r.random() < 0.3:
            parts = [rec]
        return "struct-" + op, b"".join(parts), data
    if fam == "nonflow":
        v = r.choice([0, 12345678901, -5, 1.5, None, True, "text", b"bytes", [], [1, 2, 3], {}, {"a": {}}, {"version": CUR}, {"type": "http"}, {"version": CUR, "type": "http"},
                      {"version": CUR, "type": "tcp"}, {"version": CUR, "type": "dns", "request": {}}, {b"version": 7}, {"version": 7}, {"version": [0, 11]}, {b"version": [0, 11]},
                      {"version": CUR + 1}, {"version": CUR, "type": []}, {"version": CUR, "type": {}}, [[[]]], {"log": {"entries": []}}, {1: 2}, {None: None}, {True: 1}])
        rec = T.encode(v)
        if r.random() < 0.3:
            rec = r.choice([b"0:", b"0", b":", b"1:", b"3:abc", b"3:abc?", b"1:1#1:", b"5:1:a,}", b"2:[],", b"4:1:a,]", b"6:1:a,1:}", b"10:4:true!1:1#}", b"6:1:a]0:~}"])
        return fam, (data if r.random() < 0.3 else b"") + rec, None
    if fam == "nest":
        d = r.choice([10, 50, 100, 200, 300, 400, 480, 490, 495, 500, 510, 600, 900, 1000, 1500, 3000, 5000])
        return f"nest", (data if r.random() < 0.2 else b"") + nested(r, d, r.choice(["]", "}", "mix"])), None
    if fam == "har":
        x = r.random()
        if x < 0.3:
            body = json.dumps(r.choice([{}, [], {"log": {}}, {"log": {"entries": [{}]}}, {"log": {"entries": [{"request": {}}]}}, {"log": {"entries": 5}}, {"log": None},
                                        {"log": {"entries": [{"request": {"url": "x", "method": 1, "headers": 3}, "response": None}]}}])).encode()
        elif x < 0.5:
            body = b"{" + r.randbytes(r.randint(0, 30))
        elif x < 0.65:
            body = b'{"a":' + b"[" * r.choice([10, 1000, 100000]) + b"]" * r.choice([0, 10])
        elif x < 0.8:
            body = b"{" + data[:r.randint(0, 200)]
        else:
            body = b'{"log":{"entries":[' + b",".join([b'{"request":{"method":"GET","url":"http://a/","httpVersion":"1","headers":[],"cookies":[]},"response":{"status":"x"}}'] * r.randint(1, 3)) + b"]}}"
        pre = r.choice([b"", b"", b"\xef\xbb\xbf", b"\xef\xbb", b"\xef\xbb\xbf\xef\xbb\xbf", b" "])
        return fam, pre + body, None
    if fam == "trunc":
        return fam, data[:r.randrange(len(data) + 1)], data
    if fam == "concat":
        tail = r.choice([b"\n", b" ", b"\x00", b"0", b"0:", b"}", r.randbytes(r.randint(1, 20)), data[:r.randint(1, 50)], b"\xef\xbb\xbf{}", b"{}"])
        return fam, (data + tail) if r.random() < 0.7 else (tail + data), data
    return "random", r.randbytes(r.choice([0, 1, 2, 3, 5, 10, 50, 300])) if r.random() < 0.6 else bytes(r.choice(b"0123456789:,;#^!~]}a{") for _ in range(r.randint(1, 40))), None


def version_class(rec):
    if not isinstance(rec, dict):
        return None
    v = rec.get(b"version", rec.get("version"))
    if isinstance(v, bool) or v is None:
        return "none"
    if isinstance(v, int):
        return "current" if v == CUR else ("old" if v in compat.converters else "unknown")
    if isinstance(v, list):
        try:
            return "old" if tuple(v)[:2] in compat.converters else "unknown"
        except TypeError:
            return "odd"
    return "odd"


def classify_escape(data: bytes, n_yielded: int, exc: BaseException, reader: str) -> str | None:
    """Mechanism of an escaping exception, from the structure of the record the reader was working on."""
    name = "non-termination" if isinstance(exc, T.BudgetExceeded) else type(exc).__name__
    if data[:1] == b"{" or data[:4] == b"\xef\xbb\xbf{":
        return None  # HAR branch: no known mechanism
    fr, stop = T.frames(data)
    if n_yielded < len(fr):
        s, e = fr[n_yielded]
    else:
        s, e = stop, len(data)
        # framing of the next record failed: is it a length prefix pointing beyond the end of the file?
        m = T._LEN.match(data, s)
        if m and isinstance(exc, MemoryError) and int(m.group(1)) >= 2**31 and reader != "bytesio":
            return "length-prefix-beyond-end-of-buffered-file:MemoryError"
        return None
    try:
        rec, _, depth = T.decode(data, s, e)
    except T.RefError:
        return f"malformed-record:{name}"
    if depth >= 150:
        return f"deep-nesting:{name}"
    if not isinstance(rec, dict):
        return f"non-dict-record:{name}"
    vc = version_class(rec)
    if isinstance(exc, T.BudgetExceeded):
        # converters from 1.0 on write the str key "version" while migrate_flow looks up b"version" first
        v = rec.get(b"version")
        if isinstance(v, int) and not isinstance(v, bool) and v in compat.converters:
            return "bytes-version-key-with-str-key-era-version:non-termination"
        if isinstance(v, list) and len(v) >= 2 and v[:2] in ([1, 0], [2, 0], [3, 0]):
            return "bytes-version-key-with-str-key-era-version:non-termination"
        return None
    return f"invalid-state-{vc}-version:{name}"


def case_hostile(ctx, pool):
    r = ctx.rng
    fam, data, base = make_hostile(ctx, pool)
    rv = "buffered" if r.random() < (0.5 if fam == "length" else 0.2) else "bytesio"
    fo = io.BufferedReader(io.BytesIO(data)) if rv == "buffered" else io.BytesIO(data)  # type: ignore
    got = []
    outcome = None
    ctx.count("read_only_flowreadexception")
    budget = T.StepBudget(10_000 + 3 * len(data), cpu_seconds=2.0)
    esc = None
    try:
        with budget:
            for f in FlowReader(fo).stream():  # type: ignore
                got.append(f)
        outcome = f"accepted:{min(len(got), 3)}"
    except exceptions.FlowReadException as e:
        c = e.__cause__ or e.__context__
        site = exc_site(c) if c is not None else exc_site(e)
        outcome = f"FRE<-{type(c).__name__ if c is not None else '-'}@{site}"
    except T.BudgetExceeded as e:
        esc = e
    except Exception as e:  # noqa
        esc = e
    if esc is not None and budget.cpu_tripped and classify_escape(data, len(got), esc, rv) is None:
        # CPU backstop on an input that is not a known non-terminating one: a slow machine, not evidence
        ctx.count("inconclusive_cpu_backstop")
        outcome = "inconclusive"
    elif esc is not None:
        site = exc_site(esc) if not isinstance(esc, T.BudgetExceeded) else "step-budget"
        outcome = f"ESC:{type(esc).__name__}@{site}"
        mech = classify_escape(data, len(got), esc, rv)
        ctx.violation(
            f"reader-escapes:{type(esc).__name__}@{site}",
            {"family": fam, "reader": rv, "exc": short(repr(esc), 200), "yielded_before": len(got), "len": len(data), "data": data if len(data) <= 1500 else data[:1500]},
            mech,
        )
    else:
        ctx.count("yielded_objects_are_flows")
        if not all(isinstance(f, mflow.Flow) for f in got):
            ctx.violation("yielded-non-flow", {"family": fam, "types": [type(f).__name__ for f in got][:5]})
    ctx.seen("outcomes", outcome)
    ctx.case(("hostile", fam, rv, outcome), nontrivial=(base is None or data != base), sample={"case": "hostile", "family": fam, "reader": rv, "outcome": outcome, "head": data[:120], "len": len(data)})


def run(ctx):
    tmpdir = tempfile.mkdtemp(prefix="vf-c36-")
    try:
        pool = base_pool(ctx)
        backup_matrix(ctx)
        value_class_matrix(ctx)
        for i in ctx.cases():
            if i % 8 == 0:
                case_roundtrip(ctx, tmpdir)
            elif i % 8 == 4:
                case_fault_history(ctx, tmpdir)
            elif i % 8 == 6:
                n0 = ctx.evaluations
                case_value_class_random(ctx)
                if ctx.evaluations == n0:  # the drawn placement does not exist in the generated flow
                    ctx.case(("value-class", "not-applicable"), False, None)
            elif i % 8 == 2:
                case_backup_roundtrip(ctx, ctx.rng, ctx.rng.choice(G.KINDS), ctx.rng.choice(EDIT_CLASSES))
            else:
                case_hostile(ctx, pool)
    finally:
        shutil.rmtree(tmpdir, ignore_errors=True)
