"""C54 -- sticky cookies are only sent to hosts, ports and paths they belong to.

Monitor (M1, history level, safety only): random histories of responses (Set-Cookie with host-only / Domain
with and without leading dot / foreign / suffix-like domains, Path variants, Expires past/future/garbage,
Max-Age 0/-1/+n/garbage) and requests to related and unrelated hosts, ports and paths are fed to the real
`StickyCookie.response` / `StickyCookie.request` hooks.  Every cookie value is a unique tag, so each
name=value pair found in a request's Cookie header after the hook (and each value in `StickyCookie.jar`
after a response) maps back to the Set-Cookie that created it; vf/ref/c54_cookies.py (RFC 6265 5.1.3,
5.1.4, 5.3 on the *specs*, no shared parsing) decides whether it may be there.  Not sending a cookie is never
a violation.
"""
from mitmproxy.addons import stickycookie
from mitmproxy.test import taddons, tflow, tutils

from vf.ref import c54_cookies as ref

PROPERTY = "C54"
LEVEL = "exploration"
BUDGET = {"quick": (1500, 10), "thorough": (150_000, 170)}
WORKERS = {"quick": 2, "thorough": 16}
REQUIRED = ["attach_domain", "attach_port", "attach_path", "attach_expiry", "jar_domain", "jar_expired", "withheld_correctly"]
ENGINE = "direct"
TECHNIQUE = "history-level runtime monitor on real addon hooks vs RFC 6265 reference model (unique cookie tags)"
RULE = (
    "case = history of 6-40 steps; a step is a response from (host, port, path) carrying 1-3 Set-Cookie specs "
    "(name from a 3-name pool so that overwrite/expiry collide, unique value tag, Domain in {absent, empty, host, "
    ".host, parent, .parent, foreign, suffix-without-label-boundary, public-suffix-like, IP-like}, Path in {absent, "
    "empty, /, /a, /a/, /a/b, /b, relative}, Expires in {absent, past, future, garbage} x Max-Age in {absent, 0, -1, "
    "+n, garbage}) or a request to a host/port/path from the same small universe (inner-substring hosts such as "
    "x.example.com.evil.net, sibling-prefix paths such as /ab); distinct = distinct set of observed scope events "
    "(attach-host-only, attach-by-domain, withheld by domain/port/path, removal by expiry, foreign Domain rejected, "
    "IP host, overwrite, ...) plus length class; non-trivial = at least one tagged cookie was attached to a request "
    "AND at least one stored cookie was (correctly or not) out of scope for some request"
)
ASSUMPTIONS = [
    "RFC 6265 5.1.3/5.1.4/5.3 define domain-match, path-match, default-path and Max-Age-over-Expires precedence",
    "host names compared case-insensitively, one trailing dot ignored (favourable reading)",
    "removal by an expiring Set-Cookie is only required when it comes from the same host and port with identical name, Domain and Path spelling",
    "the stickycookie filter is '.*' (matches every request) in 90% of histories; with a narrower filter only safety is checked",
]
LEVEL_TEXT = (
    "Randomised exploration of set/request histories over a hostile name/path universe; each attached or stored cookie "
    "is attributed to its Set-Cookie by a unique tag and judged by an independent RFC 6265 model. Exploration, not "
    "exhaustive: the universe of hosts/paths/attributes is small and fixed, histories are sampled."
)
LEVEL_NOTE = "Trusted: tflow/treq factories, Headers, the Set-Cookie parser of mitmproxy (inputs are simple tokens), taddons.context."

HOSTS = [
    "example.com", "www.example.com", "api.www.example.com", "badexample.com", "example.com.evil.net",
    "x.example.com.evil.net", "evil.net", "www.evil.net", "example.org", "EXAMPLE.com", "10.0.0.1", "110.0.0.1",
    "example.com.", "wwwexample.com",
]
PORTS = [80, 80, 443, 8080]
TARGETS = ["/", "/a", "/ab", "/a/", "/a/b", "/a/b/c", "/b", "/a?x=/b", "/ab/c", "/a.b", "/index.html"]
PATH_ATTRS = [None, None, None, "", "/", "/a", "/a/", "/a/b", "/b", "a"]
NAMES = ["sid", "tok", "pref"]


def domain_choices(host: str):
    h = host.rstrip(".")
    labels = h.split(".")
    parent = ".".join(labels[1:]) if len(labels) > 2 else h
    return [
        None, None, None, "", h, "." + h, parent, "." + parent, ".example.com", "example.com", ".evil.net", "other.org",
        ".com", "com", "ample.com", ".ample.com", ".0.0.1", "0.0.1", ".Example.COM", ".net", "www." + h,
    ]


SWALLOW = "short-expires-value-swallows-next-attribute"


def classify(problem: str, c: ref.CookieSpec, host: str, target: str):
    """Mechanism from the cookie spec and the request only."""
    sw = c.swallowed_by_short_expires()
    if problem in ("domain", "not-storable"):
        if sw == "domain":
            return SWALLOW
        h = ref.canon_host(c.set_host if problem == "not-storable" else host)
        d = (c.domain_attr or "").lower()
        if d.startswith(".") and len(d) > 1 and d in h and not h.endswith(d) and h != d[1:]:
            return "dot-domain-matched-as-inner-substring"
        return None
    if problem == "path":
        if sw == "path":
            return SWALLOW
        if c.path_attr is None or c.path_attr == "":
            return "missing-path-attr-stored-as-root"
        if c.path_attr.startswith("/") and ref.uri_path(target).startswith(c.path_attr):
            return "path-prefix-not-at-segment-boundary"
        return None
    if problem in ("expired-at-set", "removed"):
        e = c if problem == "expired-at-set" else c.removed_by
        if e is not None and e.swallowed_by_short_expires() == "max-age" and isinstance(e.max_age, int):
            return SWALLOW
        if problem == "removed" and e is not None and (e.swallowed_by_short_expires() or sw) in ("domain", "path"):
            return SWALLOW  # identity (domain/path) of the expiring or the expired cookie was mis-read
        if e is not None and isinstance(e.max_age, int) and e.max_age <= 0 and e.expires in ("future", "garbage"):
            return "max-age-ignored-when-expires-present"
        return None
    return None


def one_history(ctx, sc, tctx):
    r = ctx.rng
    sc.jar.clear()
    flt = ".*" if r.random() < 0.9 else "~m GET"
    tctx.configure(sc, stickycookie=flt)
    nsteps = r.choice([6, 10, 16, 25, 40])
    by_tag: dict[str, ref.CookieSpec] = {}
    reported = set()
    events = set()
    hist = []
    attached_any = False
    out_of_scope_any = False
    base = r.choice(["example.com", "www.example.com", "evil.net", "10.0.0.1"])
    related = [h for h in HOSTS if base.split(".")[-2] in h] if not ref.is_ip(base) else HOSTS

    def pick_host():
        return r.choice(related) if r.random() < 0.7 else r.choice(HOSTS)

    for step in range(nsteps):
        host, port, target = pick_host(), r.choice(PORTS), r.choice(TARGETS)
        if step == 0 or r.random() < 0.45:
            # ---- response setting cookies
            specs = []
            for _ in range(r.choice([1, 1, 2, 3])):
                tag = f"v{ctx.case_index}x{len(by_tag)}"
                expires = r.choice([None, None, None, "past", "future", "garbage"])
                max_age = r.choice([None, None, None, None, 0, -1, 3600, "garbage"])
                earlier = [o for o in by_tag.values() if o.step >= 0]
                if earlier and r.random() < 0.3:
                    # re-issue an earlier cookie's identity (overwrite or expire it)
                    o = r.choice(earlier)
                    if r.random() < 0.7:
                        host, port = o.set_host, o.set_port
                    c = ref.CookieSpec(o.name, tag, o.domain_attr, o.path_attr, expires, max_age)
                    if r.random() < 0.5:
                        c.expires, c.max_age = r.choice([("past", None), (None, 0), ("future", 0), ("garbage", -1), ("past", 0)])
                else:
                    c = ref.CookieSpec(r.choice(NAMES), tag, r.choice(domain_choices(host)), r.choice(PATH_ATTRS), expires, max_age)
                c.seq = len(by_tag)
                by_tag[tag] = c
                specs.append(c)
            for c in specs:
                c.set_host, c.set_port, c.set_target, c.step = host, port, target, step
            texts = [ref.set_cookie_text(c, r) for c in specs]
            f = tflow.tflow(req=tutils.treq(host=host, port=port, path=target.encode()), resp=True)
            if len(texts) > 1 and all(c.expires is None for c in specs) and r.random() < 0.3:
                f.response.headers["Set-Cookie"] = ", ".join(texts)
            else:
                f.response.headers.set_all("Set-Cookie", texts)
            hist.append(("resp", host, port, target, texts))
            try:
                sc.response(f)
            except Exception as e:  # not a clause of the property (nothing is sent); recorded as observation
                ctx.count("hook_exceptions")
                ctx.seen("exception_sites", f"response:{type(e).__name__}")
            # ---- model update (header order)
            for c in specs:
                if not c.storable:
                    continue
                for o in by_tag.values():
                    if o is c or o.seq >= c.seq or o.removed_at is not None or not o.storable or o.expired:
                        continue
                    if o.value != c.value and o.same_identity(c):
                        if c.expired:
                            o.removed_at, o.removed_by = step, c
                            events.add("expire-removal")
                        else:
                            events.add("overwrite")
            # ---- jar monitors
            injar = set()
            for (_d, _p, _pa), cookies in sc.jar.items():
                for _n, v in cookies.items():
                    c = by_tag.get(v)
                    if c is not None:
                        injar.add(v)
            for v in injar:
                c = by_tag[v]
                ctx.count("jar_domain")
                if not c.storable and (v, "jd") not in reported:
                    reported.add((v, "jd"))
                    ctx.violation(
                        "jar-holds-cookie-whose-Domain-does-not-match-responding-host",
                        {"cookie": c.text, "set_by": [c.set_host, c.set_port, c.set_target], "history": hist[-6:]},
                        classify("not-storable", c, c.set_host, c.set_target),
                    )
                ctx.count("jar_expired")
                for prob in ("expired-at-set", "removed"):
                    bad = c.expired if prob == "expired-at-set" else c.removed_at is not None
                    if bad and (v, prob) not in reported:
                        reported.add((v, prob))
                        ctx.violation(
                            "expired-cookie-in-jar" if prob == "expired-at-set" else "cookie-not-removed-by-expiring-set-cookie",
                            {"cookie": c.text, "set_by": [c.set_host, c.set_port, c.set_target],
                             "expired_by": None if c.removed_by is None else c.removed_by.text,
                             "history": hist[-6:]},
                            classify(prob, c, host, target),
                        )
            for c in specs:
                if not c.storable and c.value not in injar:
                    events.add("reject-foreign")
                if c.storable and c.expired and c.value not in injar:
                    events.add("expired-not-stored")
        else:
            # ---- request
            f = tflow.tflow(req=tutils.treq(host=host, port=port, path=target.encode(), method=b"GET" if r.random() < 0.8 else b"POST"))
            f.request.headers.pop("cookie", None)
            if r.random() < 0.1:
                f.request.headers["cookie"] = "own=1"
            try:
                sc.request(f)
            except Exception as e:
                ctx.count("hook_exceptions")
                ctx.seen("exception_sites", f"request:{type(e).__name__}")
            got = ref.parse_cookie_header(f.request.headers.get("cookie"))
            hist.append(("req", host, port, target, f.request.headers.get("cookie")))
            ctx.count("requests")
            if ref.is_ip(host):
                events.add("ip-host")
            sent = set()
            for n, v in got:
                c = by_tag.get(v)
                if c is None:
                    continue
                sent.add(v)
                attached_any = True
                ctx.count("cookies_attached")
                probs = c.send_problems(host, port, target)
                ctx.count("attach_domain")
                ctx.count("attach_port")
                ctx.count("attach_path")
                ctx.count("attach_expiry")
                if not probs:
                    if c.host_only:
                        events.add("attach-host-only")
                    elif ref.canon_host(host) != ref.canon_host(c.set_host):
                        events.add("attach-by-domain-other-host")
                    else:
                        events.add("attach-by-domain")
                    if ref.uri_path(target) != c.path:
                        events.add("attach-sub-path")
                for prob in probs:
                    out_of_scope_any = True
                    ctx.violation(
                        f"cookie-attached-out-of-scope:{prob}",
                        {
                            "request": [host, port, target],
                            "cookie": c.text, "expired_by": None if c.removed_by is None else c.removed_by.text,
                            "set_by": [c.set_host, c.set_port, c.set_target],
                            "rfc_cookie_domain": c.domain, "host_only": c.host_only, "rfc_cookie_path": c.path,
                            "cookie_header": f.request.headers.get("cookie"),
                            "history": hist[-6:],
                        },
                        classify(prob, c, host, target),
                    )
            # withheld cookies that are in the real jar
            for (_d, _p, _pa), cookies in sc.jar.items():
                for _n, v in cookies.items():
                    c = by_tag.get(v)
                    if c is None or v in sent:
                        continue
                    probs = c.send_problems(host, port, target)
                    if probs:
                        out_of_scope_any = True
                        ctx.count("withheld_correctly")
                        for p in probs:
                            if p in ("domain", "port", "path"):
                                events.add("withheld-" + p)
                    else:
                        ctx.count("withheld_though_sendable")
    sig = (tuple(sorted(events)), min(nsteps, 25), flt == ".*")
    ctx.case(sig, nontrivial=attached_any and out_of_scope_any, sample={"history": hist[:8]})


def run(ctx):
    sc = stickycookie.StickyCookie()
    with taddons.context(sc) as tctx:
        for _ in ctx.cases():
            one_history(ctx, sc, tctx)
