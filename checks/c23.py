"""C23 -- mitmproxy never proxies a connection back to its own listening sockets.

Monitor (hook boundary, enumerated): the real ``Proxyserver.server_connect`` is called with ``self.servers`` replaced by
stub instances that expose exactly what the method touches (``listen_addrs`` as ``getsockname()`` tuples and a real
``ProxyMode`` object for ``mode.transport_protocol``).  ``data.server.error`` afterwards is compared with a reference
decision written from the property statement with its own address parser (socket.inet_pton, not ``ipaddress``):

  MUST be refused   same port, same transport (listener transport equal or "both"), and the destination host is
                    (a) the same address as the listen address, or
                    (b) a loopback destination -- any spelling of localhost (case, trailing dot), any address of
                        127.0.0.0/8, ::1 in any spelling, ::ffff:127.x.y.z -- while the listener is bound to a loopback
                        or wildcard address, or
                    (c) a wildcard address (0.0.0.0, ::) while the listener is bound to a loopback or wildcard address;
                    loopback / wildcard include the legacy inet_aton spellings the OS resolver accepts for the same
                    addresses (127.1, 0x7f.0.0.1, 0177.0.0.1, 2130706433, 0, 0.0): the host string is handed to
                    getaddrinfo, so such a destination denotes the same socket;
  MUST NOT be refused  no listener has the same port+transport, or the host is a public name / non-local address that
                    equals no listen address;
  undecided         everything else (loopback destination while listening on one specific non-loopback interface,
                    names like localhost.localdomain / *.localhost, IPv4-mapped forms of a
                    specific listen address): only totality is required.

Runtime leg (real listeners, histories): a real ``Proxyserver`` with real loopback/wildcard sockets goes through a random
history of ``Servers.update`` calls (listeners added, removed, restarted at runtime; tcp, udp and "both" modes) while a
concurrent task keeps calling ``server_connect`` (every tick / every other tick / from the ``servers.changed`` signal / not at
all) exactly as connection handlers do while the proxy is serving traffic.  After every step the same reference decision is
applied to a sweep of spellings against every listener the *history* says is running and an OS-level probe (bind ->
EADDRINUSE) confirms is listening -- never against what ``listen_addrs`` reports -- and against the ports of listeners that
were stopped (must not be refused any more).  A second, OS-level ground truth is taken after every step: this process's own
listening TCP sockets according to /proc (inode match), so a socket mitmproxy still owns but no longer reports in
``listen_addrs`` is judged as well; about half of the histories end with a tcp+udp listener (dns / reverse:dns) whose UDP port
the harness occupies, so that its start fails half-way.

Repeated-attempt leg (real ConnectionHandler): for every spelling x listener shape x listener mode x transport the SAME
``Server`` object is requested 3 times through the real ``ConnectionHandler`` -- (1) a probe layer re-issues the blocking
``OpenConnection`` after every ``OpenConnectionCompleted`` with an error, via the real ``server_event`` dispatch, and (2) the
real ``open_connection`` coroutine is awaited 3 times in a row -- with the ``server_connect`` hook answered by the real
``Proxyserver.server_connect``.  ``asyncio.open_connection`` and ``mitmproxy_rs.udp.open_udp_connection`` are replaced by
counting stubs: for a destination the reference calls a self-connect NO attempt may ever reach them, the first attempt must
complete with the destination-unknown error and no later attempt may complete successfully.
"""
import asyncio
import errno
import os
import itertools
import logging
import re
import socket

import mitmproxy_rs
from mitmproxy import connection
from mitmproxy.addons.proxyserver import Proxyserver
from mitmproxy.proxy import commands
from mitmproxy.proxy import events
from mitmproxy.proxy import layer as mlayer
from mitmproxy.proxy import mode_specs
from mitmproxy.proxy import server as mserver
from mitmproxy.proxy import server_hooks
from mitmproxy.test import taddons

PROPERTY = "C23"
LEVEL = "exploration"
ENGINE = "direct"
TECHNIQUE = "enumeration of destination spellings x listener configurations against a reference self-connect predicate"
BUDGET = {"quick": (4_000, 14), "thorough": (300_000, 120)}
WORKERS = {"quick": 2, "thorough": 16}
REQUIRED = ["must_refuse", "must_not_refuse", "refused_some", "accepted_some", "undecided_total_only",
            "runtime.histories", "runtime.concurrent_vets", "runtime.must_refuse", "runtime.must_not_refuse", "runtime.confirmed_listeners", "runtime.os_inventory_checks", "runtime.udp_blocked_start_steps", "multi_listener_same_port",
            "repeat_attempt_same_server", "repeat.first_attempt_refused", "repeat.no_dial_for_self_address", "repeat.non_self_dialled"]
RULE = (
    "case = (destination host spelling, destination port, transport, listener set); all fixed spellings (11 inet_aton spellings of "
    "loopback, 5 of the wildcard address, 4 of public addresses; localhost in 8 "
    "case/dot variants, 12 addresses of 127/8 incl. block edges, 6 spellings of ::1, 4 IPv4-mapped loopbacks, 0.0.0.0, ::, "
    "listen-address echoes, public names/addresses, undecided oddities) x 11 listen-address configurations x 5 listener modes "
    "(tcp, udp, both) x same/different port x tcp/udp are enumerated in both tiers; random cases add random 127/8 and "
    "mapped addresses, random case patterns and multi-listener sets; distinct = (host spelling class, listen config, listener "
    "transport, connection transport, port relation); non-trivial = same port and same transport (the host spelling decides); "
    "two listeners sharing a port number on different addresses (7 x 6 ordered address pairs x 4 mode pairs x 13 destinations x "
    "tcp/udp) are enumerated as well. "
    "Runtime histories (about 1% of the random cases in quick): 2-4 real listeners (9 mode templates x 127.0.0.1/::1/all/localhost, "
    "harness-chosen free ports), 2-6 update steps (add/remove/restart) each under a vetting policy (every tick, alternate, on "
    "servers.changed, none), sweep of 14+ spellings x tcp/udp per running and per stopped listener after every step; distinct = "
    "(listener mode/host kinds, policies, steps, restart); non-trivial = a listener was started while server_connect ran concurrently. "
    "Repeated attempts: every spelling x 4 listen shapes x 3 listener modes x tcp/udp (quick; thorough: all 11 x 5) runs 3 OpenConnection "
    "attempts for one Server object through the real ConnectionHandler (server_event path and direct open_connection path) with "
    "counting dial stubs"
)
ASSUMPTIONS = [
    "listen_addrs have the shape of socket.getsockname() results; the listener's transport is mode.transport_protocol",
    "a loopback destination while listening on one specific non-loopback interface is outside the statement (undecided)",
    "runtime leg: a listener counts as mitmproxy's own socket once the Servers.update call that started it has returned and until "
    "the update that removes it has returned; refusals during a start/stop in flight are not judged",
    "repeated attempts: on the unchanged tree ConnectionHandler.server_event asserts that the target of an OpenConnection is not in "
    "self.transports; a second OpenConnection for a refused Server object trips it ('mitmproxy has crashed!' is logged, the command is "
    "dropped, the layer gets no completion). Nothing reaches the network, so this is accepted for C23 (never proxy back to own "
    "listeners) and only counted (repeat.reattempt_stopped_by_handler); the missing completion is a robustness matter of C09/C10. "
    "Decisive: no dial for a self-address on any attempt, first attempt completes with the refusal, no attempt succeeds",
]
LEVEL_TEXT = (
    "The spelling classes named in the property are enumerated completely against every listener shape mitmproxy can "
    "produce, so each class x configuration combination is exercised; the interior of 127.0.0.0/8 and letter-case patterns "
    "are sampled. Runtime histories with real sockets and a concurrent server_connect caller sample the interleavings of "
    "listener start/stop with connection vetting."
)
LEVEL_NOTE = "Trusted: the 40-line reference predicate below and socket.inet_pton."

# ---- reference ------------------------------------------------------------------------------------------------------

def parse_ip(host: str):
    """-> (version, int) with IPv4-mapped IPv6 folded to IPv4, or None when host is not an IP literal."""
    try:
        return 4, int.from_bytes(socket.inet_pton(socket.AF_INET, host), "big")
    except (OSError, ValueError):
        pass
    try:
        n = int.from_bytes(socket.inet_pton(socket.AF_INET6, host), "big")
    except (OSError, ValueError):
        # Legacy inet_aton spellings (127.1, 0x7f.0.0.1, 0177.0.0.1, 2130706433, 0, ...): mitmproxy hands the host string to
        # asyncio.open_connection / the OS resolver, which accepts them. Ask the OS what the literal denotes -- numeric
        # resolution only (AI_NUMERICHOST), never DNS.
        try:
            infos = socket.getaddrinfo(host, None, family=socket.AF_INET, type=socket.SOCK_STREAM, flags=socket.AI_NUMERICHOST)
        except (OSError, UnicodeError, ValueError):
            return None
        return 4, int.from_bytes(socket.inet_pton(socket.AF_INET, infos[0][4][0]), "big")
    if n >> 32 == 0xFFFF:
        return 4, n & 0xFFFFFFFF
    return 6, n


_PUBLIC_NAME = re.compile(r"^(?:[a-z0-9](?:[a-z0-9-]*[a-z0-9])?\.)+[a-z]{2,}\.?$", re.I)


def host_class(host: str):
    """-> (class, parsed ip); class in loopback | wildcard | addr | name | odd (odd = the statement does not decide)."""
    ip = parse_ip(host)
    if ip is None:
        if host.lower() in ("localhost", "localhost."):
            return "loopback", None
        if _PUBLIC_NAME.match(host) and "localhost" not in host.lower():
            return "name", None  # ordinary multi-label DNS name with an alphabetic TLD
        return "odd", None  # 127.1, 0x7f.0.0.1, 2130706433, localhost.localdomain, ip6-localhost, scoped literals, ...
    ver, n = ip
    if (ver == 4 and n >> 24 == 127) or (ver == 6 and n == 1):
        return "loopback", ip
    if n == 0:
        # ::ffff:0.0.0.0 folds to (4, 0) but is not "the wildcard address itself": undecided
        return ("wildcard", ip) if "ffff" not in host.lower() else ("odd", ip)
    return "addr", ip


def ref_decision(host, port, transport, listeners):
    """listeners: [(listen_host, listen_port, listener_transport)] -> True (must refuse) / False (must not) / None."""
    hc, hip = host_class(host)
    verdicts = []
    for lhost, lport, ltrans in listeners:
        if lport != port or not (ltrans == transport or ltrans == "both"):
            verdicts.append(False)
            continue
        lc, lip = host_class(lhost)
        if host == lhost or (hip is not None and hip == lip and "ffff" not in host.lower()):
            verdicts.append(True)
        elif hc in ("loopback", "wildcard") and lc in ("loopback", "wildcard"):
            verdicts.append(True)
        elif hc == "name" or (hc == "addr" and hip != lip):
            verdicts.append(False)
        else:
            verdicts.append(None)
    if any(v is True for v in verdicts):
        return True
    if all(v is False for v in verdicts):
        return False
    return None


# ---- workload ---------------------------------------------------------------------------------------------------------

LOCALHOST_NAMES = ["localhost", "LOCALHOST", "Localhost", "localHost", "localhost.", "LOCALHOST.", "LocalHost.", "lOCALHOST"]
V4_LOOPBACKS = ["127.0.0.1", "127.0.0.0", "127.0.0.2", "127.0.1.1", "127.1.2.3", "127.255.255.255", "127.255.255.254", "127.0.0.53",
                "127.128.0.1", "127.0.0.255", "127.0.255.0", "127.77.77.77"]
V6_LOOPBACKS = ["::1", "0:0:0:0:0:0:0:1", "::0001", "0000:0000:0000:0000:0000:0000:0000:0001", "::0:1", "0::1"]
MAPPED_LOOPBACKS = ["::ffff:127.0.0.1", "::ffff:7f00:1", "::FFFF:127.0.0.2", "0:0:0:0:0:ffff:127.255.255.255"]
WILDCARDS = ["0.0.0.0", "::", "0:0:0:0:0:0:0:0", "::0"]
PUBLIC = ["example.com", "mitmproxy.org.", "8.8.8.8", "192.0.2.77", "2001:db8::77", "128.0.0.1", "126.255.255.255", "::2", "10.1.2.3"]
ATON_LOOPBACKS = ["127.1", "127.0.1", "0177.0.0.1", "0x7f.0.0.1", "0x7f000001", "2130706433", "017700000001", "127.000.000.001",
                  "127.0.0.01", "127.0xffffff", "0x7F.1"]
ATON_WILDCARDS = ["0", "0.0", "0x0", "00.0.0.0", "0.0.0"]
ATON_PUBLIC = ["8.8.2056", "134744072", "0127.0.0.1", "0x8.8.8.8"]  # 0127 is octal 87: not a loopback address
ODD = ["localhost.localdomain", "ip6-localhost", "::ffff:0.0.0.0", "::1%lo", "foo.localhost", "127.0.0.1.", "::ffff:127.1", "1.2.3.4 x"]
SPELLINGS = (
    [("localhost-name", h) for h in LOCALHOST_NAMES] + [("v4-loopback", h) for h in V4_LOOPBACKS] + [("v6-loopback", h) for h in V6_LOOPBACKS]
    + [("mapped-loopback", h) for h in MAPPED_LOOPBACKS] + [("wildcard", h) for h in WILDCARDS] + [("public", h) for h in PUBLIC]
    + [("odd", h) for h in ODD] + [("aton-loopback", h) for h in ATON_LOOPBACKS] + [("aton-wildcard", h) for h in ATON_WILDCARDS]
    + [("public", h) for h in ATON_PUBLIC]
)

# listen host option -> getsockname()-shaped tuples (port filled in later)
LISTEN = {
    "all(dual)": [("0.0.0.0",), ("::", 0, 0)],
    "0.0.0.0": [("0.0.0.0",)],
    "::": [("::", 0, 0)],
    "127.0.0.1": [("127.0.0.1",)],
    "::1": [("::1", 0, 0)],
    "localhost(dual)": [("127.0.0.1",), ("::1", 0, 0)],
    "127.0.0.2": [("127.0.0.2",)],
    "192.0.2.5": [("192.0.2.5",)],
    "2001:db8::5": [("2001:db8::5", 0, 0)],
    "fe80::1%eth0": [("fe80::1%eth0", 0, 0, 2)],
    "none": [],
}
LISTENER_MODES = ["regular", "wireguard", "dns", "reverse:quic://example.com", "reverse:https://example.com"]
ECHO = [("listen-echo", h) for h in ["192.0.2.5", "2001:db8::5", "2001:DB8:0::5", "192.0.2.5.", "::ffff:192.0.2.5", "fe80::1%eth0"]]
ALL_SPELLINGS = SPELLINGS + ECHO


class StubInstance:
    """What Proxyserver.server_connect reads from a ServerInstance: listen_addrs and mode.transport_protocol."""

    def __init__(self, mode: mode_specs.ProxyMode, listen_addrs):
        self.mode = mode
        self.listen_addrs = tuple(listen_addrs)


def mk_addrs(shape, port):
    return [(t[0], port, *t[1:]) for t in shape]


MODES = {m: mode_specs.ProxyMode.parse(m) for m in LISTENER_MODES}


ATON_MECH = "inet-aton-spelling-of-loopback-or-wildcard"


def classify(hclass, host, listeners, transport, port):
    """Mechanism from the input only: which feature of (host spelling, matching listeners) the refusal would depend on."""
    hc, hip = host_class(host)
    matching = []  # listeners for which the reference demands a refusal
    for lhost, lport, ltrans in listeners:
        if ref_decision(host, port, transport, [(lhost, lport, ltrans)]) is True:
            matching.append((lhost, ltrans))
    if not matching:
        return None
    if hclass in ("aton-loopback", "aton-wildcard"):
        return ATON_MECH
    if all(lt == "both" for _, lt in matching):
        return "listener-transport-both"
    same_transport = [lh for lh, lt in matching if lt == transport]
    if host in same_transport or host in ("localhost", "127.0.0.1", "::1"):
        return None  # verbatim listen address / canonical loopback spelling on the same transport: no excuse
    if hclass == "localhost-name":
        return "localhost-name-case-or-trailing-dot"
    if hclass == "v4-loopback":
        return "loopback-v4-other-than-127.0.0.1"
    if hclass == "v6-loopback":
        return "loopback-v6-alternative-spelling"
    if hclass == "mapped-loopback":
        return "loopback-ipv4-mapped"
    if hclass == "wildcard":
        return "wildcard-destination-other-listen-address"
    if hclass == "listen-echo":
        return "listen-address-alternative-spelling"
    return None


def vet(ps, host, port, transport):
    """Run the real server_connect hook the way ConnectionHandler.open_connection does -> server.error"""
    server = connection.Server(address=(host, port), transport_protocol=transport)
    client = connection.Client(peername=("192.0.2.1", 51234), sockname=("192.0.2.99", 8080), timestamp_start=1.0)
    ps.server_connect(server_hooks.ServerConnectionHookData(server=server, client=client))
    return server.error


def judge(ctx, ps, hclass, host, port, transport, listeners, pfx="", extra=None, mech=None):
    """Call the real hook on ps and compare with the reference decision for the ground-truth listeners."""
    wit = {"host": host, "port": port, "transport": transport, "listeners": listeners, **(extra or {})}
    ctx.count(pfx + "total")
    try:
        error = vet(ps, host, port, transport)
    except Exception as e:
        ctx.violation(pfx + "server_connect-raises", {**wit, "exc": repr(e)})
        return None
    refused = bool(error)
    if refused and "destination unknown" not in error.lower():
        ctx.violation(pfx + "wrong-error-text", {**wit, "error": error})
    exp = ref_decision(host, port, transport, listeners)
    ctx.count(pfx + ("refused_some" if refused else "accepted_some"))
    if exp is True:
        ctx.count(pfx + "must_refuse")
        if not refused:
            ctx.violation(pfx + "self-connect-not-refused", wit,
                          mechanism=classify(hclass, host, listeners, transport, port) if (not pfx or hclass.startswith("aton-")) else mech)
    elif exp is False:
        ctx.count(pfx + "must_not_refuse")
        if refused:
            ctx.violation(pfx + "refused-wrongly", {**wit, "error": error})
    else:
        ctx.count(pfx + "undecided_total_only")
    return refused


def evaluate(ctx, hclass, host, port, transport, servers_spec):
    """servers_spec: [(mode name, listen key, listen port)]"""
    ps = Proxyserver()
    stubs, listeners = [], []
    for mname, lkey, lport in servers_spec:
        addrs = mk_addrs(LISTEN[lkey], lport)
        stubs.append(StubInstance(MODES[mname], addrs))
        for a in addrs:
            listeners.append((a[0], a[1], MODES[mname].transport_protocol))
    ps.servers = stubs  # type: ignore
    return judge(ctx, ps, hclass, host, port, transport, listeners)


# ---- runtime leg: real listeners, histories of Servers.update interleaved with server_connect ------------------------------

RT_TEMPLATES = ["regular", "regular", "socks5", "upstream:http://example.com:8080", "reverse:http://example.com", "reverse:tcp://example.com:80",
                "dns", "reverse:dns://8.8.8.8", "reverse:quic://example.com", "reverse:udp://example.com:53"]
RT_HOSTS = ["127.0.0.1", "127.0.0.1", "127.0.0.1", "::1", "", "localhost"]
RT_TRUTH_HOSTS = {"127.0.0.1": ["127.0.0.1"], "::1": ["::1"], "": ["0.0.0.0", "::"], "localhost": ["127.0.0.1"]}
RT_SWEEP = [("localhost-name", "localhost"), ("localhost-name", "LocalHost."), ("v4-loopback", "127.0.0.1"), ("v4-loopback", "127.8.9.10"),
            ("v6-loopback", "::1"), ("v6-loopback", "0:0:0:0:0:0:0:1"), ("mapped-loopback", "::ffff:127.0.0.1"), ("wildcard", "0.0.0.0"),
            ("wildcard", "::"), ("public", "example.com"), ("public", "8.8.8.8"), ("public", "2001:db8::77")]
POLICIES = ["every-tick", "every-tick", "alternate", "on-changed", "none"]


class _SkipStep(Exception):
    pass


def free_port() -> int:
    with socket.socket() as s:
        s.bind(("127.0.0.1", 0))
        return s.getsockname()[1]


def os_listening(host: str, port: int, transport: str) -> bool:
    """OS-level ground truth: binding the address fails with EADDRINUSE iff some socket already owns it."""
    fam = socket.AF_INET6 if ":" in host else socket.AF_INET
    s = socket.socket(fam, socket.SOCK_STREAM if transport == "tcp" else socket.SOCK_DGRAM)
    try:
        s.bind((host, port))
        return False
    except OSError as e:
        return e.errno == errno.EADDRINUSE
    finally:
        s.close()


def own_tcp_listeners():
    """OS-level inventory of THIS process's listening TCP sockets: {(address text, port)} from /proc (inode match)."""
    inodes = set()
    for fd in os.listdir("/proc/self/fd"):
        try:
            link = os.readlink(f"/proc/self/fd/{fd}")
        except OSError:
            continue
        if link.startswith("socket:["):
            inodes.add(link[8:-1])
    out = set()
    for path, fam in (("/proc/net/tcp", socket.AF_INET), ("/proc/net/tcp6", socket.AF_INET6)):
        try:
            lines = open(path).read().splitlines()[1:]
        except OSError:
            continue
        for line in lines:
            f = line.split()
            if len(f) > 9 and f[3] == "0A" and f[9] in inodes:
                ahex, phex = f[1].split(":")
                raw = bytes.fromhex(ahex)
                raw = b"".join(raw[i:i + 4][::-1] for i in range(0, len(raw), 4))  # host-endian 32 bit words
                out.add((socket.inet_ntop(fam, raw), int(phex, 16)))
    return out


LEAK_MECH = "tcp-listener-leaked-when-udp-bind-of-tcp+udp-mode-fails"


async def run_history(ctx, r):
    """-> (signature, nontrivial, sample)"""
    ps = Proxyserver()
    cands = []  # (spec string, ProxyMode, listen host option, port)
    for _ in range(r.choice([2, 2, 3, 4])):
        tmpl, host, port = r.choice(RT_TEMPLATES), r.choice(RT_HOSTS), free_port()
        spec = f"{tmpl}@{host}:{port}" if host else f"{tmpl}@{port}"
        cands.append((spec, mode_specs.ProxyMode.parse(spec), host, port))
    stats = {"concurrent": 0, "started_under_vetting": 0}
    log = []
    with taddons.context(ps) as tctx:
        tctx.configure(ps, server=True)
        ps.running()
        keep = []

        def on_changed():
            # what a UI does when the set of servers changes (status bar redraw) + a connection being vetted
            ps.listen_addrs()
            vet(ps, "example.com", 443, "tcp")
            stats["concurrent"] += 1

        current: set[int] = set()
        ever_started: set[int] = set()
        failed: set[int] = set()
        steps = r.randint(2, 6)
        policies_used, restarted = set(), False
        udp_blocked: set[int] = set()
        ever_failed: set[int] = set()

        def sweep_after_step(step, ok):
            truth, confirmed_ports = [], set()
            for i in sorted(current - failed):
                spec, mode, host, port = cands[i]
                trans = ["tcp", "udp"] if mode.transport_protocol == "both" else [mode.transport_protocol]
                if all(os_listening(RT_TRUTH_HOSTS[host][0], port, t) for t in trans):
                    ctx.count("runtime.confirmed_listeners")
                    confirmed_ports.add(port)
                    for th in RT_TRUTH_HOSTS[host]:
                        truth.append((th, port, mode.transport_protocol))
                else:
                    ctx.count("runtime.unconfirmed_listeners")  # e.g. the port was taken by someone else: nothing to judge
            # this process's own listening TCP sockets per the OS, whatever mitmproxy's bookkeeping says
            harness_ports = {c[3] for c in cands}
            untracked = {}
            ctx.count("runtime.os_inventory_checks")
            for addr, port in own_tcp_listeners():
                if port in harness_ports and port not in confirmed_ports:
                    truth.append((addr, port, "tcp"))
                    # history predicate: the socket belongs to a tcp+udp mode listener whose start failed in this history
                    ever_failed.update(failed)
                    leaked = any(c[3] == port and c[1].transport_protocol == "both" and k in ever_failed for k, c in enumerate(cands))
                    untracked[port] = LEAK_MECH if leaked else None
                    ctx.count("runtime.untracked_own_listener")
            stopped_ports = {cands[i][3] for i in ever_started - current}
            if not ok:
                stopped_ports = set()  # a stop may have failed as well
            extra = {"history": log[-6:], "step": step}
            for port in sorted(confirmed_ports | stopped_ports | set(untracked)):
                sweep = RT_SWEEP + [r.choice(ALL_SPELLINGS) for _ in range(2)]
                lhosts = [h for h, p, _ in truth if p == port]
                if lhosts:
                    sweep = sweep + [("listen-echo", lhosts[0])]
                ex = {**extra, "own_listening_socket_per_/proc_not_in_listen_addrs": True} if port in untracked else extra
                # for a socket only known from the OS inventory the state of a UDP sibling is unknown: judge TCP only
                for hclass, host in sweep:
                    for transport in (("tcp",) if port in untracked else ("tcp", "udp")):
                        judge(ctx, ps, hclass, host, port, transport, truth, pfx="runtime.", extra=ex, mech=untracked.get(port))

        for step in range(steps):
            # next target set
            k = r.random()
            if k < 0.25 and current:
                idx = r.choice(sorted(current))  # restart: remove, then add again
                plan = [current - {idx}, set(current)]
                restarted = True
            else:
                target = set(current)
                for _ in range(r.choice([1, 1, 2])):
                    target ^= {r.randrange(len(cands))}
                if target == current:
                    target ^= {r.randrange(len(cands))}
                plan = [target]
            for target in plan:
                policy = r.choice(POLICIES)
                policies_used.add(policy)
                starting = target - current
                if policy == "on-changed":
                    ps.servers.changed.connect(on_changed)
                    keep.append(on_changed)
                upd = asyncio.ensure_future(ps.servers.update([cands[i][1] for i in sorted(target)]))
                tick = 0
                while not upd.done():
                    if policy == "every-tick" or (policy == "alternate" and tick % 2):
                        # connections being vetted while listeners start/stop: unrelated destinations and the new ports
                        vet(ps, "example.com", 443, r.choice(["tcp", "udp"]))
                        if starting and r.random() < 0.3:
                            vet(ps, "localhost", cands[r.choice(sorted(starting))][3], "tcp")
                        stats["concurrent"] += 1
                    tick += 1
                    await asyncio.sleep(0)
                ok = upd.result()
                if policy == "on-changed":
                    ps.servers.changed.disconnect(on_changed)
                if starting and policy != "none":
                    stats["started_under_vetting"] += 1
                # a failed update (e.g. the harness-chosen port was grabbed by another process meanwhile) leaves the listeners
                # started in this step in an unknown state: they are not judged until they have been removed again
                failed = (failed & target) | (starting if not ok else set())
                current = set(target)
                ever_started |= target
                log.append({"modes": [cands[i][0] for i in sorted(target)], "policy": policy, "update_ok": ok})
                sweep_after_step(step, ok)
        # ---- a tcp+udp listener whose UDP port is taken (by the harness): its start must fail *without* leaving a TCP listener behind
        if r.random() < 0.5:
            tmpl, port = r.choice(["dns", "reverse:dns://8.8.8.8", "dns"]), free_port()
            blocker = socket.socket(socket.AF_INET, socket.SOCK_DGRAM)
            try:
                blocker.bind(("127.0.0.1", port))
            except OSError:
                # free_port() only knows the port is free for TCP; another worker / process may own the UDP port of that
                # number. Nothing of mitmproxy is involved yet: skip this step (harness condition, not a verdict).
                blocker.close()
                blocker = None
                ctx.count("runtime.udp_blocker_port_busy")
            try:
                if blocker is None:
                    raise _SkipStep()
                spec = f"{tmpl}@127.0.0.1:{port}"
                cands.append((spec, mode_specs.ProxyMode.parse(spec), "127.0.0.1", port))
                idx = len(cands) - 1
                udp_blocked.add(port)
                for target in (current | {idx}, set(current)):
                    ok = await ps.servers.update([cands[i][1] for i in sorted(target)])
                    failed = (failed & target) | ((target - current) if not ok else set())
                    current = set(target)
                    ever_started |= target
                    log.append({"modes": [cands[i][0] for i in sorted(target)], "policy": "udp-port-blocked-by-harness", "update_ok": ok})
                    ctx.count("runtime.udp_blocked_start_steps")
                    sweep_after_step(steps, ok)
            except _SkipStep:
                pass
            finally:
                if blocker is not None:
                    blocker.close()
        await ps.servers.update([])
    ctx.count("runtime.histories")
    ctx.count("runtime.concurrent_vets", stats["concurrent"])
    kinds = tuple(sorted({(m.type_name, m.transport_protocol, h or "all") for _, m, h, _ in cands}))
    sig = ("hist", kinds, tuple(sorted(policies_used)), steps, restarted, bool(udp_blocked))
    return sig, stats["started_under_vetting"] > 0, {"leg": "runtime", "history": log[:8], "concurrent_server_connect_calls": stats["concurrent"]}


# ---- repeated attempts for the same Server object through the real ConnectionHandler ----------------------------------------

class _Writer:
    def __init__(self):
        self.closed = False

    def get_extra_info(self, k, d=None):
        return {"peername": ("192.0.2.10", 50123), "sockname": ("192.0.2.99", 8080)}.get(k, d)

    def write(self, b):
        pass

    async def drain(self):
        pass

    def close(self):
        self.closed = True

    def is_closing(self):
        return self.closed

    def write_eof(self):
        pass

    def can_write_eof(self):
        return True

    async def wait_closed(self):
        pass


class _Reader:
    def __init__(self):
        self.eof = asyncio.Event()

    async def read(self, n):
        await self.eof.wait()
        return b""


class RetryLayer(mlayer.Layer):
    """Asks for the same server connection again after every failed attempt, like DNSLayer / TCP-UDP layers after upstream-TLS-first."""

    def __init__(self, context, srv, attempts, results, done):
        super().__init__(context)
        self.srv, self.attempts, self.results, self.done = srv, attempts, results, done

    def _handle_event(self, event):
        if isinstance(event, events.Start):
            for k in range(self.attempts):
                err = yield commands.OpenConnection(self.srv)
                self.results.append(err)
                if err is None:
                    break
            self.done.set()
        elif isinstance(event, events.ConnectionClosed) and event.connection is self.context.client:
            yield commands.CloseConnection(self.context.client)


class Dials:
    """Counting replacements of the two functions that reach the network."""

    def __init__(self):
        self.calls = []
        self._tcp, self._udp = asyncio.open_connection, mitmproxy_rs.udp.open_udp_connection

    def __enter__(self):
        async def tcp(host, port, **kw):
            self.calls.append(("tcp", host, port))
            raise ConnectionRefusedError("connection refused (harness: no network)")

        async def udp(host, port, **kw):
            self.calls.append(("udp", host, port))
            raise OSError("udp connect failed (harness: no network)")

        asyncio.open_connection = tcp
        mitmproxy_rs.udp.open_udp_connection = udp
        return self

    def __exit__(self, *a):
        asyncio.open_connection = self._tcp
        mitmproxy_rs.udp.open_udp_connection = self._udp


async def _repeat_via_server_event(ps, opts, srv, attempts):
    results, done = [], asyncio.Event()
    rd, wr = _Reader(), _Writer()
    h = mserver.SimpleConnectionHandler(rd, wr, opts, MODES["regular"], {"server_connect": ps.server_connect})
    h.layer = RetryLayer(h.layer.context, srv, attempts, results, done)
    task = asyncio.ensure_future(h.handle_client())
    for _ in range(60):  # all attempts are synchronous apart from task switches
        if done.is_set():
            break
        await asyncio.sleep(0)
    finished = done.is_set()
    rd.eof.set()
    for _ in range(30):
        if task.done():
            break
        await asyncio.sleep(0)
    # a layer left paused on a dropped OpenConnection never closes the client connection: tear the handler down ourselves
    me = asyncio.current_task()
    for t in asyncio.all_tasks():
        if t is not me and not t.done():
            t.cancel()
    await asyncio.gather(task, return_exceptions=True)
    return results, finished


async def _repeat_direct(ps, opts, srv, attempts):
    rd, wr = _Reader(), _Writer()
    h = mserver.SimpleConnectionHandler(rd, wr, opts, MODES["regular"], {"server_connect": ps.server_connect})
    replies = []

    async def capture(event):
        if isinstance(event, events.OpenConnectionCompleted):
            replies.append(event.reply)

    h.server_event = capture  # type: ignore
    for _ in range(attempts):
        await asyncio.wait_for(h.open_connection(commands.OpenConnection(srv)), 10)
    return replies


def repeat_eval(ctx, loop, w, hclass, host, port, transport, servers_spec, attempts=3):
    ps = Proxyserver()
    stubs, listeners = [], []
    for mname, lkey, lport in servers_spec:
        addrs = mk_addrs(LISTEN[lkey], lport)
        stubs.append(StubInstance(MODES[mname], addrs))
        for a in addrs:
            listeners.append((a[0], a[1], MODES[mname].transport_protocol))
    ps.servers = stubs  # type: ignore
    exp = ref_decision(host, port, transport, listeners)
    outcome = []
    for path in ("server_event", "direct"):
        srv = connection.Server(address=(host, port), transport_protocol=transport)
        wit = {"host": host, "port": port, "transport": transport, "listeners": listeners, "path": path, "attempts": attempts}
        with Dials() as dials:
            try:
                if path == "server_event":
                    results, finished = loop.run_until_complete(_repeat_via_server_event(ps, w.tctx.options, srv, attempts))
                else:
                    results, finished = loop.run_until_complete(_repeat_direct(ps, w.tctx.options, srv, attempts)), True
            except asyncio.TimeoutError:
                ctx.count("inconclusive_cases")
                continue
            except Exception as e:
                ctx.violation("repeat:harness-or-handler-raises", {**wit, "exc": repr(e)})
                continue
        ctx.count("repeat_attempt_same_server")
        wit.update(results=results, dials=dials.calls)
        if path == "server_event" and not finished:
            ctx.count("repeat.reattempt_stopped_by_handler")
        if exp is True:
            ctx.count("repeat.no_dial_for_self_address")
            aton = ATON_MECH if hclass.startswith("aton-") else None
            if dials.calls:
                ctx.violation("repeat:dialled-own-listener", wit, mechanism=aton)
            ctx.count("repeat.first_attempt_refused")
            if not results or not results[0] or "destination unknown" not in results[0].lower():
                ctx.violation("repeat:first-attempt-not-refused", wit, mechanism=classify(hclass, host, listeners, transport, port))
            if any(x is None for x in results):
                ctx.violation("repeat:attempt-succeeded-for-self-address", wit)
            if path == "direct" and any(not x or "destination unknown" not in x.lower() for x in results):
                ctx.violation("repeat:later-attempt-not-refused", wit, mechanism=aton)
        elif exp is False:
            ctx.count("repeat.non_self_dialled")
            if not dials.calls or (results and results[0] and "destination unknown" in results[0].lower()):
                ctx.violation("repeat:refused-wrongly", wit)
        else:
            ctx.count("repeat.undecided_total_only")
        outcome.append((path, len(results), len(dials.calls), finished))
    return tuple(outcome)


def rand_case(s: str, r):
    return "".join(c.upper() if r.random() < 0.5 else c.lower() for c in s)


def run(ctx):
    loop = asyncio.new_event_loop()
    logging.disable(logging.CRITICAL)  # listener start/stop is logged at INFO
    try:
        _run(ctx, loop)
    finally:
        logging.disable(logging.NOTSET)
        loop.close()


class OptWorld:
    """Options object as the proxy has it (Proxyserver's options loaded) for the real ConnectionHandler."""

    def __init__(self):
        self.cm = taddons.context(Proxyserver())
        self.tctx = self.cm.__enter__()

    def close(self):
        self.cm.__exit__(None, None, None)


def _run(ctx, loop):
    p_hist = 0.012 if ctx.tier == "quick" else 0.003
    lkeys = list(LISTEN)
    items = list(itertools.product(range(len(ALL_SPELLINGS)), lkeys, LISTENER_MODES, (True, False), ("tcp", "udp")))
    n_enum = len(items)
    if ctx.tier == "quick":
        rep_items = list(itertools.product(range(len(ALL_SPELLINGS)), ["all(dual)", "127.0.0.1", "::1", "192.0.2.5"],
                                           ["regular", "dns", "reverse:quic://example.com"], ("tcp", "udp")))
    else:
        rep_items = list(itertools.product(range(len(ALL_SPELLINGS)), lkeys, LISTENER_MODES, ("tcp", "udp")))
    n_rep = len(rep_items)
    # several listeners sharing one port number on different addresses (one per interface / address family), every order
    mkeys = ["127.0.0.1", "192.0.2.5", "2001:db8::5", "all(dual)", "::1", "fe80::1%eth0", "127.0.0.2"]
    mhosts = [x for x in ALL_SPELLINGS if x[0] == "listen-echo"] + [("localhost-name", "localhost"), ("v4-loopback", "127.0.0.1"),
                                                                     ("v4-loopback", "127.0.0.2"), ("v6-loopback", "::1"), ("wildcard", "0.0.0.0"),
                                                                     ("public", "8.8.8.8"), ("public", "192.0.2.77")]
    multi_items = [(a, b, ma, mb, h, t) for a in mkeys for b in mkeys if a != b
                   for ma, mb in (("regular", "regular"), ("regular", "dns"), ("dns", "reverse:quic://example.com"), ("wireguard", "regular"))
                   for h in mhosts for t in ("tcp", "udp")]
    n_multi = len(multi_items)
    for k in range(ctx.worker, n_multi, ctx.nworkers):
        if ctx.only_case is not None:
            break
        a, b, ma, mb, (hclass, host), t = multi_items[k]
        refd = evaluate(ctx, hclass, host, 8080, t, [(ma, a, 8080), (mb, b, 8080)])
        ctx.count("multi_listener_same_port")
        ctx.case(("multi", hclass, host, a, b, MODES[ma].transport_protocol, MODES[mb].transport_protocol, t), nontrivial=True,
                 sample={"leg": "multi-listener", "host": host, "transport": t, "listeners": [[ma, a, 8080], [mb, b, 8080]], "refused": refd}
                 if k % 911 == 7 else None)
    ctx.extra["enumerated_multi_listener_combinations"] = n_multi
    w = OptWorld()
    try:
        _run2(ctx, loop, w, p_hist, lkeys, items, n_enum, rep_items, n_rep)
    finally:
        w.close()
    ctx.extra["enumerated_repeated_attempt_combinations"] = n_rep


def _run2(ctx, loop, w, p_hist, lkeys, items, n_enum, rep_items, n_rep):
    for i in ctx.cases(n=n_enum + n_rep + ctx.n_cases):
        r = ctx.rng
        if n_enum <= i < n_enum + n_rep:
            if i % ctx.nworkers != ctx.worker and ctx.only_case is None:
                continue
            si, lkey, mname, transport = rep_items[i - n_enum]
            hclass, host = ALL_SPELLINGS[si]
            out = repeat_eval(ctx, loop, w, hclass, host, 8080, transport, [(mname, lkey, 8080)])
            lt = MODES[mname].transport_protocol
            ctx.case(("repeat", hclass, host if hclass in ("odd", "wildcard", "listen-echo") else "", lkey, lt, transport, out),
                     nontrivial=lt in (transport, "both") and lkey != "none",
                     sample={"leg": "repeat", "host": host, "port": 8080, "transport": transport, "listen": lkey, "listener_mode": mname,
                             "outcome(path,completions,dials,finished)": [list(x) for x in out]} if i % 397 == 11 else None)
            continue
        if i < n_enum:
            if i % ctx.nworkers != ctx.worker and ctx.only_case is None:
                continue
            si, lkey, mname, same_port, transport = items[i]
            hclass, host = ALL_SPELLINGS[si]
            lport = 8080
            port = 8080 if same_port else r.choice([8081, 80, 443, 18080, 0, 65535])
            refd = evaluate(ctx, hclass, host, port, transport, [(mname, lkey, lport)])
            lt = MODES[mname].transport_protocol
            ctx.case(("enum", hclass, host if hclass in ("odd", "wildcard", "listen-echo") else "", lkey, lt, transport, same_port),
                     nontrivial=same_port and lt in (transport, "both") and lkey != "none",
                     sample={"host": host, "port": port, "transport": transport, "listen": lkey, "listener_mode": mname, "refused": refd}
                     if i % 577 == 11 else None)
            continue
        if r.random() < p_hist or 0 <= (i - n_enum - n_rep) < 6:
            try:
                sig, nontrivial, sample = loop.run_until_complete(asyncio.wait_for(run_history(ctx, r), 15))
            except asyncio.TimeoutError:
                ctx.count("inconclusive_cases")
                sig, nontrivial, sample = ("hist-timeout",), False, None
            ctx.case(sig, nontrivial=nontrivial, sample=sample)
            continue
        # random: random member of a spelling class, 1-3 listeners
        k = r.random()
        if k < 0.3:
            hclass, host = "v4-loopback", f"127.{r.getrandbits(8)}.{r.getrandbits(8)}.{r.getrandbits(8)}"
        elif k < 0.45:
            a, b, c = r.getrandbits(8), r.getrandbits(8), r.getrandbits(8)
            hclass, host = "mapped-loopback", r.choice([f"::ffff:127.{a}.{b}.{c}", f"::ffff:7f{a:02x}:{b:x}{c:02x}", f"::FFFF:127.{a}.{b}.{c}"])
        elif k < 0.6:
            hclass, host = "localhost-name", rand_case("localhost", r) + r.choice(["", "."])
        elif k < 0.7:
            hclass, host = "v6-loopback", r.choice(["::1", "0::1", "::0:0:1", "0:0::1", "0:0:0:0:0:0:0:1", "::00:01"])
        elif k < 0.8:
            hclass, host = "public", r.choice([f"{r.choice([1, 9, 11, 126, 128, 191, 203])}.{r.getrandbits(8)}.{r.getrandbits(8)}.{r.randint(1, 254)}",
                                               rand_case("example.com", r), f"2001:db8::{r.getrandbits(16):x}", "localhost.example.com".replace("localhost.", "lh.")])
        else:
            hclass, host = r.choice(ALL_SPELLINGS)
        nserv = r.choice([1, 1, 2, 3])
        ports = [r.choice([8080, 8081, 53, 51820]) for _ in range(nserv)]
        spec = [(r.choice(LISTENER_MODES), r.choice(lkeys), p) for p in ports]
        port = r.choice(ports + [r.choice([8080, 8081, 53, 51820, 443])])
        transport = r.choice(["tcp", "udp"])
        refd = evaluate(ctx, hclass, host, port, transport, spec)
        lts = tuple(sorted({MODES[m].transport_protocol for m, _, p in spec if p == port}))
        ctx.case(("rnd", hclass, tuple(sorted({lk for _, lk, p in spec if p == port})), lts, transport),
                 nontrivial=any(lt in (transport, "both") for lt in lts),
                 sample={"host": host, "port": port, "transport": transport, "servers": spec, "refused": refd})
    ctx.extra["enumerated_combinations"] = n_enum
