"""C03 -- every HTTP flow has an ordered hook lifecycle and exactly one outcome.

Engine A + fault enumeration.  For a deterministic HTTP/1 case spec (vf/h1case.py) a fault plan is swept:
client stream cut at an offset followed by disconnect, origin response cut at an offset followed by close,
n-th upstream connect refused, and per (flow, hook) an addon action in {pass, kill, set response, enable streaming,
delayed completion}; options body_size_limit / stream_large_bodies are toggled.  Monitors:
  order   online automaton per flow id over the real hook log:  requestheaders first; request <=1 and after
          requestheaders; responseheaders <=1 and before response; never both response and error; <=1 of each
          outcome; request before responseheaders unless the request body is streamed
  final   after the driver has closed the client and every server connection (what ConnectionHandler does),
          every non-CONNECT, non-upgrade flow that fired requestheaders has exactly one of response/error and
          flow.live is False

Third leg (every worker with index 2 mod 4, engine B / vf/httphandler.py): the same HTTP stack inside the real
ProxyConnectionHandler on virtual time, so that connection establishment, hook tasks, cancellation (client gone, idle
timeout, CloseConnection while a connect or a hook is pending) and teardown are mitmproxy's own asyncio code; the same
automaton runs on the hooks recorded once the handler has returned (real-handler leg).
"""
import random

from mitmproxy import http

from vf import h1case, sansio

PROPERTY = "C03"
LEVEL = "fault_enumeration"
ENGINE = "sansio+vloop"
BUDGET = {"quick": (400, 20), "thorough": (20000, 240)}
WORKERS = {"quick": 4, "thorough": 16}
REQUIRED = ["handler.cases", "handler.connect_pending_long", "h2.cases", "h2.fault.connect_refused", "order", "final", "fault.client_cut", "fault.server_cut", "fault.connect_refused", "policy.kill", "policy.kill_in_transit", "ws_handshake_refused_cases", "policy.set_response", "policy.stream"]
TECHNIQUE = "runtime monitoring: fault-position sweep on the sans-io driver + per-flow hook-order automaton"
RULE = (
    "case = (spec of 1-3 HTTP/1 requests, fault kind and position, per-hook addon action vector, option toggles); quick samples offsets, "
    "thorough sweeps every offset of short streams; signature = (fault kind, position class [request line / headers / body / between], "
    "policy actions taken, resulting per-flow hook sequences); non-trivial iff a fault or a non-pass action occurred"
)
ASSUMPTIONS = [
    "setting a response and enabling streaming on the same flow is excluded (the code refuses it explicitly)",
    "CONNECT and upgraded (101) flows are excluded from the final-outcome clause as the property states",
    "every 4th worker runs the HTTP/2 leg: the C05 workload generator (interleaved streams, RST_STREAM from both sides, truncated h1 origins, streaming) under the same automaton",
]
LEVEL_TEXT = (
    "Fault enumeration: for generated conversations the disconnect/truncation offset, the failing connect and the addon action at every "
    "hook are swept (sampled in quick, every offset for short streams in thorough) and an automaton over the real hook log decides order "
    "and single-outcome; the final clause is evaluated after the driver has closed all connections like ConnectionHandler does."
)
LEVEL_NOTE = "Trusted: vf/sansio.py's model of connection teardown (one ConnectionClosed per connection, OpenConnection cancelled on teardown)."

ACTIONS = ["pass", "pass", "pass", "kill", "setresp", "stream", "delay"]


def fault_policy(spec, salt, taken, ctx, bias=False):
    # with an early-answering origin, bias towards the window the streaming state machine is most fragile in: the request
    # body is streamed, the response has started (head or part of the body) and the flow is killed / delayed at the request hook

    def policy(drv, hook):
        f = getattr(hook, "flow", None)
        if not isinstance(f, http.HTTPFlow) or hook.name not in ("requestheaders", "request", "responseheaders", "response"):
            return None
        r = random.Random(f"{salt}/{f.request.path}/{hook.name}")
        a = r.choice(ACTIONS)
        if bias:
            a = {"requestheaders": "stream", "request": r.choice(["kill", "kill", "delay", "pass"]), "responseheaders": r.choice(["pass", "delay", "stream"])}.get(hook.name, a)
        if a == "kill":
            if f.killable:
                f.kill()
                taken.add(f"{hook.name}:kill")
                ctx.count("policy.kill")
        elif a == "setresp" and hook.name in ("requestheaders", "request") and not f.request.stream:
            f.response = http.Response.make(203, b"set-by-addon", {"x-set": "1"})
            taken.add(f"{hook.name}:setresp")
            ctx.count("policy.set_response")
        elif a == "stream":
            if hook.name == "requestheaders" and f.response is None:
                f.request.stream = True
                taken.add("requestheaders:stream")
                ctx.count("policy.stream")
            elif hook.name == "responseheaders" and f.response is not None:
                f.response.stream = True
                taken.add("responseheaders:stream")
                ctx.count("policy.stream")
        elif a == "delay":
            taken.add(f"{hook.name}:delay")
            return "delay"
        return None

    return policy


def check_lifecycle(ctx, d, witness):
    per = {}
    order = []
    for step, name, hook, snap in d.hooks:
        f = getattr(hook, "flow", None)
        if not isinstance(f, http.HTTPFlow):
            continue
        if f.id not in per:
            per[f.id] = {"flow": f, "hooks": [], "req_streamed": False}
            order.append(f.id)
        rec = per[f.id]
        rec["hooks"].append(name)
        if snap and snap["request"] and snap["request"].get("stream"):
            rec["req_streamed"] = True
    seqs = []
    for fid in order:
        rec = per[fid]
        hs = rec["hooks"]
        f = rec["flow"]
        seqs.append(",".join(hs))
        ctx.seen("flow_hook_sequences", ",".join(hs))
        if any(h.startswith("http_connect") for h in hs):
            continue
        ctx.count("order")
        bad = None
        core = [h for h in hs if h in ("requestheaders", "request", "responseheaders", "response", "error")]
        if not core:
            continue
        if core[0] != "requestheaders":
            bad = "first hook is not requestheaders"
        elif core.count("requestheaders") > 1:
            bad = "requestheaders fired twice"
        elif core.count("request") > 1:
            bad = "request fired twice"
        elif core.count("responseheaders") > 1:
            bad = "responseheaders fired twice"
        elif core.count("response") > 1 or core.count("error") > 1:
            bad = "outcome hook fired twice"
        elif "response" in core and "error" in core:
            bad = "both response and error"
        elif "response" in core and "responseheaders" in core and core.index("responseheaders") > core.index("response"):
            bad = "responseheaders after response"
        elif "response" in core and "responseheaders" not in core:
            bad = "response without responseheaders"
        elif not rec["req_streamed"] and "request" in core and "responseheaders" in core and core.index("request") > core.index("responseheaders"):
            bad = "request after responseheaders although the request body was not streamed"
        elif not rec["req_streamed"] and "responseheaders" in core and "request" not in core:
            bad = "responseheaders without request although the request body was not streamed"
        if bad:
            ctx.violation("hook-order:" + bad, {**witness, "flow_hooks": hs})
        # final clause
        upgraded = f.response is not None and f.response.status_code == 101
        if upgraded or f.request.method.upper() == "CONNECT":
            continue
        ctx.count("final")
        n_out = core.count("response") + core.count("error")
        if n_out != 1:
            ctx.violation(f"final:{n_out}-outcomes-after-all-connections-closed", {**witness, "flow_hooks": hs, "live": f.live})
        elif f.live:
            ctx.violation("final:flow-still-live", {**witness, "flow_hooks": hs})
    return seqs


def pos_class(stream: bytes, off: int):
    head_end = stream.find(b"\r\n\r\n")
    if head_end < 0:
        head_end = stream.find(b"\n\n")
    first_eol = stream.find(b"\n")
    if off <= first_eol:
        return "reqline"
    if head_end < 0 or off <= head_end + 3:
        return "headers"
    return "body-or-later"


class _Shim:
    """Lets the C05 HTTP/2 workload generator run under C03: same rng/tier, C05's own monitors are discarded."""

    def __init__(self, ctx):
        self._ctx = ctx
        self.rng = ctx.rng
        self.tier = ctx.tier
        self.worker = ctx.worker
        self.nworkers = ctx.nworkers

    def count(self, *a, **k):
        pass

    def seen(self, *a, **k):
        pass

    def violation(self, *a, **k):
        pass

    def case(self, *a, **k):
        pass


def run_h2(ctx, opts):
    """HTTP/2 lifecycle leg: the C05 workload (2-12 interleaved streams, client/origin RST_STREAM, truncated h1 origins,
    streaming, MAX_CONCURRENT_STREAMS changes, h2->h2 / h2->h1 / h1->h2) is executed and the C03 automaton runs on its hook log."""
    from checks import c05

    old_ka = opts.http2_ping_keepalive
    opts.update(http2_ping_keepalive=0)
    captured = {}
    c05.DEBUG = lambda loc: captured.update(d=loc["d"], topo=loc["topo"], mode=loc["mode"], streams=loc["streams"], server_rst_tags=loc["server_rst_tags"])
    refused = [None]

    def open_plan_factory(r):
        # connect failure injected into 35% of the cases: the n-th upstream connection attempt is refused (several concurrent
        # streams may be waiting for that one attempt)
        refused[0] = r.choice([0, 0, 0, 1, 2]) if r.random() < 0.35 else None
        if refused[0] is None:
            return None
        ctx.count("h2.fault.connect_refused")
        return lambda drv, conn, n, k=refused[0]: "Connection refused (injected)" if n == k else None

    c05.OPEN_PLAN = open_plan_factory
    try:
        for i in ctx.cases():
            captured.clear()
            shim = _Shim(ctx)
            try:
                c05.run_case(shim, opts)
            except Exception as e:
                ctx.count("h2.generator_errors")
                continue
            d = captured.get("d")
            if d is None or d.budget_exceeded:
                ctx.count("inconclusive_cases")
                continue
            ctx.count("h2.cases")
            for e in d.exceptions:
                ctx.seen("layer_exceptions", f"{e[0]}@{e[1]}")
            n_rst = sum(1 for s_ in captured["streams"] if s_.get("rst_at") is not None)
            witness = {"leg": "h2", "topo": captured["topo"], "mode": captured["mode"], "client_rst_streams": n_rst, "origin_rst": len(captured["server_rst_tags"]), "connect_refused_attempt": refused[0], "all_hooks": d.hook_names()[:120], "exceptions": [e[:2] for e in d.exceptions]}
            seqs = check_lifecycle(ctx, d, witness)
            sig = ("h2", captured["topo"], captured["mode"].split(":")[0], min(n_rst, 3), min(len(captured["server_rst_tags"]), 3), refused[0], tuple(sorted(set(seqs)))[:6])
            ctx.case(sig, bool(n_rst or captured["server_rst_tags"] or refused[0] is not None), {"leg": "h2", "topo": captured["topo"], "flows": seqs[:6]})
    finally:
        c05.DEBUG = None
        c05.OPEN_PLAN = None
        opts.update(http2_ping_keepalive=old_ka)


def run_handler(ctx):
    """Real-handler leg (engine B, vf/httphandler.py): the HTTP stack inside the real ProxyConnectionHandler on virtual time.
    Connect attempts that are refused / hang / are slow, origins that answer, stall, cut or reset, clients that close, reset or
    go idle (tcp_timeout) at any moment, slow async lifecycle and HTTP hooks, kill/stream actions: cancellation and teardown are
    mitmproxy's own asyncio code. The C03 automaton runs on the recorded hooks once the handler has returned."""
    from vf import httphandler

    class _D:
        pass

    for i in ctx.cases():
        r = ctx.rng
        plan = httphandler.gen_plan(r)
        try:
            res = httphandler.run_plan(plan)
        except Exception as e:
            ctx.violation("harness-or-handler-crash", {"leg": "handler", "plan": plan, "exc": repr(e)})
            ctx.case(("handler", "crash"), False)
            continue
        if res.deadlock:
            # the client stays silent and no timeout is configured that would end the run: nothing to judge
            ctx.count("handler.never_ended")
            ctx.case(("handler", "never-ended"), False)
            continue
        ctx.count("handler.cases")
        d = _D()
        d.hooks = res.hooks
        cancelled = sorted({n for n, _, _ in res.cancelled_hooks})
        for n in cancelled:
            ctx.count("handler.hook_cancelled." + n)
        witness = {"leg": "handler", "plan": {k: v for k, v in plan.items()}, "all_hooks": res.hook_names(), "cancelled_hooks": cancelled}
        # known: the task of an upstream attempt is cancelled while an (async) lifecycle hook of open_connection is being handled;
        # the layer then never receives OpenConnectionCompleted and the waiting flow never gets an outcome (same root as C09's findings)
        life = [n for n in cancelled if n in ("server_connect", "server_connected", "server_connect_error")]

        class _Shim2:
            def __getattr__(s, name):
                return getattr(ctx, name)

            def violation(s, kind, w, mech=None):
                if kind.startswith("final:") and life and ("0-outcomes" in kind or "still-live" in kind):
                    mech = "no-outcome-when-upstream-attempt-cancelled-inside-lifecycle-hook"
                ctx.violation(kind, w, mech)

        seqs = check_lifecycle(_Shim2(), d, witness)
        if "hang" in plan["connect"][:1] or "slow" in plan["connect"][:1]:
            ctx.count("handler.connect_pending_long")
        sig = ("handler", plan["client_close_kind"], plan["connect"][0], plan["origin"][0], tuple(sorted(plan["hook_action"].items())), tuple(cancelled), tuple(sorted(set(seqs))))
        ctx.case(sig, True, {"leg": "handler", "plan": {k: plan[k] for k in ("connect", "origin", "client_close_at", "client_close_kind", "tcp_timeout")}, "flows": seqs})


def run(ctx):
    tctx, _ = sansio.addon_context()
    opts = tctx.options
    defaults = {k: getattr(opts, k) for k in ("body_size_limit", "stream_large_bodies", "store_streamed_bodies")}
    if ctx.worker % 4 == 3 and ctx.only_case is None or (ctx.only_case is not None and ctx.worker % 4 == 3):
        return run_h2(ctx, opts)
    if ctx.worker % 4 == 2:
        return run_handler(ctx)
    try:
        for i in ctx.cases():
            r = ctx.rng
            spec = h1case.build_spec(r, n=r.choice([1, 1, 2, 3]), hostile_p=0.3, resp_hostile_p=0.3, policy_kinds=("pass",))
            spec["allow_extra_after"] = True
            spec["allow_1xx"] = False
            if r.random() < 0.15:
                # a WebSocket handshake that the origin answers with a final non-101 response that still names the protocol
                # (426 Upgrade Required, 400, 200 ...): not an upgrade, so the flow has to end like any other (seed C03-6)
                q = r.choice(spec["reqs"])
                head, sep, rest = q["raw"].partition(b"\r\n\r\n")
                if sep and not q["ambiguous"] and q["method"] == "GET":
                    q["raw"] = head + b"\r\nConnection: Upgrade\r\nUpgrade: websocket\r\nSec-WebSocket-Version: 13\r\nSec-WebSocket-Key: dGhlIHNhbXBsZSBub25jZQ==" + sep + rest
                    spec["ws_refused"] = {q["tag"]}
                    ctx.count("ws_handshake_refused_cases")
            stream = b"".join(q["raw"] for q in spec["reqs"])
            optset = r.choice([{}, {}, {"body_size_limit": r.choice(["10", "100", "1k"])}, {"stream_large_bodies": r.choice(["5", "50", "1k"])}, {"stream_large_bodies": "20", "store_streamed_bodies": True}])
            opts.update(**{**defaults, **optset})
            faults = [("none", None)]
            offs = list(range(0, len(stream) + 1))
            n_off = 5 if ctx.tier == "quick" else (len(offs) if len(stream) <= 400 else 40)
            for o in (offs if n_off >= len(offs) else r.sample(offs, n_off)):
                faults.append(("client_cut", o))
            for k in range(len(spec["reqs"])):
                for o in r.sample(range(0, 200), 3 if ctx.tier == "quick" else 12):
                    faults.append(("server_cut", (k, o)))
            for n in range(0, len(spec["reqs"])):
                faults.append(("connect_refused", n))
            for kind, arg in faults:
                salt = r.getrandbits(32) if r.random() < 0.7 else "nopolicy"
                taken = set()
                kw = {}
                if kind == "client_cut":
                    kw["client_cut"] = arg
                    ctx.count("fault.client_cut")
                elif kind == "server_cut":
                    kw["server_cut"] = arg
                    ctx.count("fault.server_cut")
                elif kind == "connect_refused":
                    kw["open_plan"] = lambda drv, conn, n, arg=arg: "Connection refused (injected)" if n == arg else None
                    ctx.count("fault.connect_refused")
                sched = r.choice(["fifo", "random", "random"])
                # an origin that answers as soon as it has the request head (matters when the request body is streamed)
                early = r.random() < 0.3
                if early:
                    ctx.count("early_origin_runs")
                bias = early and salt != "nopolicy" and r.random() < 0.6
                pol = fault_policy(spec, salt, taken, ctx, bias) if salt != "nopolicy" else None
                # a kill "in transit": flow.kill() from outside any hook (UI kill button / flow.kill command / an addon holding
                # the flow) at a random point of the exchange, so that the fault of this run may hit a flow that already
                # carries an error but has not fired its error hook yet
                setup = None
                if r.random() < 0.3:
                    seen_flows = []
                    after = r.choice([r.randint(1, 30), r.randint(1, 120)])
                    inner = pol

                    def pol(drv, hook, inner=inner, seen_flows=seen_flows):
                        f = getattr(hook, "flow", None)
                        if isinstance(f, http.HTTPFlow) and f not in seen_flows:
                            seen_flows.append(f)
                        return inner(drv, hook) if inner is not None else None

                    def setup(drv, seen_flows=seen_flows, after=after, taken=taken, rr=random.Random(r.getrandbits(32))):
                        def gate(d):
                            return d.step_no >= after and any(f.killable for f in seen_flows)

                        def act(d):
                            f = rr.choice([f for f in seen_flows if f.killable])
                            f.kill()
                            taken.add("transit:kill")
                            ctx.count("policy.kill_in_transit")
                            return None

                        drv.injected.append(("transit-kill", act, gate))

                try:
                    d, info = h1case.execute(spec, opts, r, client_seg=r.choice(["whole", "random", "bytes"]) if len(stream) < 1500 else "random", server_seg=r.choice(["bytes", "whole", "random"]) if bias else r.choice(["whole", "random"]), schedule="random" if bias else sched, extra_policy=pol, client_eof=r.random() < 0.2, early_origin=early, setup=setup, **kw)
                except Exception as e:
                    ctx.violation("harness-or-layer-crash", {"stream": stream, "fault": (kind, arg), "exc": repr(e)})
                    continue
                if d.budget_exceeded:
                    ctx.count("inconclusive_cases")
                    continue
                for e in d.exceptions:
                    ctx.seen("layer_exceptions", f"{e[0]}@{e[1]}")
                witness = {"mode": spec["mode"], "stream": stream, "fault": (kind, arg), "options": optset, "policy_taken": sorted(taken), "schedule": sched, "early_origin": early, "all_hooks": d.hook_names(), "exceptions": [e[:2] for e in d.exceptions]}
                seqs = check_lifecycle(ctx, d, witness)
                pc = pos_class(stream, arg) if kind == "client_cut" else (kind if kind == "none" else f"{kind}")
                sig = (kind, pc, tuple(sorted(taken)), tuple(sorted(optset)), tuple(sorted(set(seqs))))
                ctx.case(sig, kind != "none" or bool(taken), {"mode": spec["mode"], "stream": stream[:200], "fault": (kind, arg), "policy": sorted(taken), "flows": seqs})
    finally:
        opts.update(**defaults)
