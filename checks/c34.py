"""C34 -- query / cookie / form / multipart / path views are lossless.

For each of the six views (Request.query, Request.cookies, Response.cookies, Request.urlencoded_form,
Request.multipart_form, Request.path_components) two monitors observe the real message objects:

* <view>.assign_readback -- a generated pair list inside the wire format's domain is assigned through the
  property setter of a message with random pre-existing state; the view read back must give the same pairs in
  the same order (for query/cookies/form additionally one MultiDictView mutation -- add / insert / [k]=v /
  del -- is applied and compared with the same mutation on a plain list).
* <view>.writeback -- on a message (the result of an assignment, or one built from a generated *wire sample*
  as the HTTP parser would deliver it) the view's current value is written back (view = view's items); the
  message is interpreted before and after by the independent readers in vf/ref/c34_wire.py (request-target
  split, urlencoded, cookie-string, Set-Cookie, RFC 2046 multipart, path segments) and every component of the
  meaning (path part, query pairs, path segments, unrelated headers, cookies, body pairs/parts/bytes, media
  type) must be unchanged.

Violations are classified by input predicates that must be confirmed by a frozen model of the known-defective
behaviour (prediction == observation); anything the models do not reproduce is unclassified.
"""
import gzip
import re
import urllib.parse
import zlib

import brotli

try:
    from compression import zstd
except ImportError:  # Python < 3.14
    from backports import zstd

from mitmproxy import http
from mitmproxy.net.http import cookies as mcookies

from vf.ref import c34_wire as W

PROPERTY = "C34"
LEVEL = "exploration"
ENGINE = "direct"
TECHNIQUE = "round trip through the real view setters/getters; before/after interpretation by independent wire-format readers"
BUDGET = {"quick": (10_000, 16), "thorough": (150_000, 200)}
WORKERS = {"quick": 2, "thorough": 16}
VIEWS = ["query", "cookies", "setcookie", "form", "multipart", "path"]
REQUIRED = [f"{v}.assign_readback" for v in VIEWS] + [f"{v}.writeback" for v in VIEWS] + [f"{v}.item_edit" for v in ("query", "cookies", "form", "multipart")]
RULE = (
    "case = (view, mode). mode assign: random pair list in the wire format's domain (query/form/path: any str incl. separators, "
    "%, +, NUL, CR/LF, non-ASCII, surrogate-escaped bytes, empty; cookies: token names, printable values incl. quotes ; , \\ "
    "space non-ASCII; Set-Cookie attributes per RFC 6265 incl. Expires dates and extension attributes; multipart: names without "
    "quote/CR/LF, values = any bytes not forming a delimiter line) assigned to a message with random pre-existing path/headers/"
    "body, read back, mutated once through the view, written back. mode wire: message built from a generated wire sample "
    "(raw query strings with bare keys / %xx / + / empty pairs / ;params / fragment, Cookie and Set-Cookie headers with quoted "
    "values and attributes, urlencoded and RFC 2046 multipart bodies with file parts and preamble, paths with empty segments "
    "and trailing slash) and the view written back. distinct = (view, mode, character-class features of the pairs/sample, "
    "size class, pre-existing-state class); non-trivial = the pair list / sample is non-empty and contains a separator, quote, "
    "escape, line break, non-ASCII or empty element"
)
ASSUMPTIONS = [
    "generator domain per view as in DESIGN.md C34 ('what the wire format can represent'); multipart names are non-empty",
    "meaning of a message = what vf/ref/c34_wire.py reads: quoted cookie values are unquoted (RFC 2965 style), '+'/%20 and %XX/literal "
    "octets are equal, a part without Content-Type equals text/plain, a fragment in a request-target is ignored, Content-Length is derived",
    "request hosts are plain DNS names (IPv6 literals belong to C33)",
]
LEVEL_TEXT = (
    "Random exploration of pair lists and wire samples per view against the real Request/Response objects; each readback and each "
    "write-back is judged by independent readers. The input space is unbounded and only sampled."
)
LEVEL_NOTE = "Trusted: vf/ref/c34_wire.py (own parsers, cross-checked against urllib.parse and email.parser on generated samples)."

# =============================================================================================
# message construction
# =============================================================================================


ENCODINGS = [b"gzip", b"deflate", b"br", b"zstd"]


def gen_enc(r):
    """Content-Encoding of the message under test: none (60%) or one of the codings mitmproxy handles."""
    return r.choice(ENCODINGS) if r.random() < 0.4 else None


def compress(enc: bytes, body: bytes) -> bytes:
    """Own compression for wire samples (stdlib / the codec libraries themselves, not mitmproxy.net.encoding)."""
    if enc == b"gzip":
        return gzip.compress(body, mtime=0)
    if enc == b"deflate":
        return zlib.compress(body)
    if enc == b"br":
        return brotli.compress(body)
    return zstd.compress(body)


def decompress(enc: bytes, raw: bytes) -> bytes:
    if enc == b"gzip":
        return gzip.decompress(raw)
    if enc == b"deflate":
        return zlib.decompress(raw)
    if enc == b"br":
        return brotli.decompress(raw)
    if enc == b"zstd":
        return zstd.decompress(raw)
    raise ValueError(enc)


def body_of(msg):
    """The message body after removing the Content-Encoding (independent decoding); raw bytes if there is none."""
    raw = msg.raw_content
    encs = header_values(msg, b"content-encoding")
    if raw is None or not encs:
        return raw
    try:
        return decompress(encs[0].strip().lower(), raw)
    except Exception as e:  # noqa
        return ("undecodable", type(e).__name__, raw)


def _with_encoding(headers, content, enc, via_setter):
    headers = list(headers)
    if enc:
        headers.append((b"Content-Encoding", enc))
        if not via_setter and content is not None:
            content = compress(enc, content)
            headers = [(n, str(len(content)).encode()) if n.lower() == b"content-length" else (n, v) for n, v in headers]
    return headers, content


def mk_request(path=b"/p", headers=(), content=b"", method=b"POST", enc=None, via_setter=False):
    """enc: Content-Encoding to declare. via_setter: the body is assigned through Message.content (mitmproxy compresses it),
    otherwise the raw body is compressed here, as a client would send it."""
    headers, raw = _with_encoding(headers, content, enc, via_setter)
    late = enc and via_setter and content is not None
    req = http.Request(
        host="example.com", port=80, method=method, scheme=b"http", authority=b"", path=path, http_version=b"HTTP/1.1",
        headers=http.Headers(headers), content=b"" if late else raw, trailers=None, timestamp_start=0.0, timestamp_end=0.0,
    )
    if late:
        req.content = content
    return req


def mk_response(headers=(), content=b"", enc=None, via_setter=False):
    headers, raw = _with_encoding(headers, content, enc, via_setter)
    late = enc and via_setter and content is not None
    resp = http.Response(
        http_version=b"HTTP/1.1", status_code=200, reason=b"OK", headers=http.Headers(headers), content=b"" if late else raw,
        trailers=None, timestamp_start=0.0, timestamp_end=0.0,
    )
    if late:
        resp.content = content
    return resp


OTHER_HEADERS = [(b"X-Other", b"1"), (b"Accept", b"*/*"), (b"x-other", b"2; a=b"), (b"User-Agent", b"t\xc3\xa9st")]


def gen_other_headers(r):
    return [r.choice(OTHER_HEADERS) for _ in range(r.choice([0, 1, 2]))]


def tup(x):
    return tuple(tuple(p) for p in x)


# =============================================================================================
# generators: text
# =============================================================================================

TEXT = ["a", "b", "k", "1", " ", "+", "&", "=", "%", "%41", "%zz", "#", "?", "/", ";", ":", "é", "中", "\U0001f600", "\udcff", "\udc80",
        "\x00", "\n", "\r\n", "\t", "'", '"', "\\", ",", "[", "]", "~", "."]
TEXT_W = [6, 4, 3, 3, 3, 3, 3, 3, 2, 1, 1, 2, 2, 2, 2, 1, 2, 1, 1, 1, 1, 1, 1, 1, 1, 1, 1, 1, 1, 1, 1, 1, 1]
assert len(TEXT) == len(TEXT_W)


def gen_text(r, empty_ok=True):
    n = r.choice([0, 1, 1, 2, 3, 5, 10]) if empty_ok else r.choice([1, 1, 2, 3, 5])
    return "".join(r.choices(TEXT, TEXT_W, k=n))


def gen_pairs(r):
    n = r.choice([0, 1, 1, 2, 3, 5])
    out = []
    for _ in range(n):
        k = gen_text(r) if r.random() < 0.8 else ""
        v = gen_text(r) if r.random() < 0.8 else ""
        if r.random() < 0.3 and out:
            k = r.choice(out)[0]
        out.append((k, v))
    return out


def text_features(strs):
    f = set()
    for s in strs:
        if s == "":
            f.add("empty")
        if any(c in s for c in "&=+%#?/;"):
            f.add("sep")
        if any(c in s for c in "\n\r\t\x00"):
            f.add("ctl")
        if any(c in s for c in "'\"\\,"):
            f.add("quote")
        if any(ord(c) > 127 for c in s):
            f.add("uni")
        if any(0xDC80 <= ord(c) <= 0xDCFF for c in s):
            f.add("surr")
        if " " in s:
            f.add("sp")
    return tuple(sorted(f))


def size_class(n):
    return 0 if n == 0 else 1 if n == 1 else 2 if n <= 3 else 3


# =============================================================================================
# meaning of a message (independent reading)
# =============================================================================================

CT_RE = re.compile(rb"^\s*([A-Za-z0-9!#$%&'*+.^_`|~-]+/[A-Za-z0-9!#$%&'*+.^_`|~-]+)")
BOUNDARY_RE = re.compile(rb';\s*boundary\s*=\s*(?:"([^"]*)"|([^;\s]*))', re.I)


def header_values(msg, name: bytes):
    return [v for n, v in msg.headers.fields if n.lower() == name]


def media_type(msg):
    cts = header_values(msg, b"content-type")
    if not cts:
        return None, None
    m = CT_RE.match(cts[0])
    mt = m.group(1).lower() if m else b"?"
    bm = BOUNDARY_RE.search(cts[0])
    boundary = (bm.group(1) if bm.group(1) is not None else bm.group(2)) if bm else None
    return mt, boundary


def meaning(msg) -> dict:
    m = {}
    skip = {b"cookie", b"set-cookie", b"content-length", b"content-type"}
    m["headers_other"] = [(n.lower(), v) for n, v in msg.headers.fields if n.lower() not in skip]
    mt, boundary = media_type(msg)
    m["media_type"] = (mt, boundary if mt == b"multipart/form-data" else None)
    body = body_of(msg)
    if isinstance(body, tuple):
        m["body"] = body  # Content-Encoding present but the body does not decode
    elif mt == b"application/x-www-form-urlencoded":
        m["body"] = ("urlencoded", W.parse_urlencoded(body))
    elif mt == b"multipart/form-data" and boundary:
        parts = W.parse_multipart(boundary, body or b"")
        m["body"] = ("multipart", [norm_part(p) for p in parts] if parts is not None else ("malformed", body))
    else:
        m["body"] = ("raw", body)
    if isinstance(msg, http.Request):
        pp, q = W.split_target(msg.data.path)
        m["path_part"] = pp
        m["segments"] = W.path_segments(pp)
        m["query"] = W.parse_urlencoded(q)
        m["cookie"] = [p for v in header_values(msg, b"cookie") for p in W.parse_cookie_string(W.txt(v))]
        m["method"] = msg.data.method
    else:
        m["setcookie"] = [W.parse_set_cookie(W.txt(v)) for v in header_values(msg, b"set-cookie")]
        m["status"] = msg.data.status_code
    return m


def norm_part(p: W.Part):
    ct = (p.ctype or b"text/plain").split(b";", 1)[0].strip().lower()
    return (p.name, p.filename, ct, p.value)


def diff_components(before: dict, after: dict):
    return sorted(k for k in before if before[k] != after.get(k))


# =============================================================================================
# frozen models of the known-defective behaviour (classification only; see module docstring)
# =============================================================================================

def raw_boundary_param(msg):
    """The boundary parameter text without unquoting (what a naive 'split at ; and =' reading gives)."""
    cts = header_values(msg, b"content-type")
    if not cts:
        return None
    for clause in cts[0].split(b";")[1:]:
        kv = clause.split(b"=", 1)
        if len(kv) == 2 and kv[0].strip() == b"boundary":
            return kv[1].strip()
    return None


def boundary_predicates(raw_b: bytes, true_b: bytes):
    mech = []
    if raw_b != true_b:
        mech.append("multipart-boundary-parameter-quoted")
    elif urllib.parse.quote(raw_b).encode() != raw_b:
        mech.append("multipart-boundary-characters-percent-encoded-on-write")
    return mech


def boundary_variants(raw_b: bytes, true_b: bytes):
    """(boundary used for reading, boundary used for writing, boundary mechanisms) for the behaviour with the
    boundary defects (quotes kept, urllib-quoted on write) and, if that differs, for the behaviour without them."""
    out = [(raw_b, urllib.parse.quote(raw_b).encode(), boundary_predicates(raw_b, true_b))]
    if out[0][2]:
        out.append((true_b, true_b, []))
    return out


def transcode_latin1(body: bytes) -> bytes:
    """Raw octets >= 0x80 read as ISO-8859-1 characters and written back as UTF-8."""
    return b"".join(bytes([c]) if c < 0x80 else chr(c).encode("utf-8") for c in body)


def model_mp_encode(boundary: bytes, parts):
    lines = []
    for k, v in parts:
        if k:
            lines += [b"--" + boundary, b'Content-Disposition: form-data; name="' + k + b'"', b"Content-Type: text/plain; charset=utf-8", b"", v]
        lines.append(b"")
    lines.append(b"--" + boundary + b"--\r\n")
    return b"\r\n".join(lines)


def model_mp_decode(boundary: bytes, content: bytes):
    out = []
    rx = re.compile(rb'\bname="([^"]+)"')
    for chunk in content.split(b"--" + boundary):
        ls = chunk.splitlines()
        if len(ls) > 1 and ls[0][0:2] != b"--":
            mm = rx.search(ls[1])
            if mm:
                try:
                    out.append((mm.group(1), b"".join(ls[3 + ls[2:].index(b"") :])))
                except ValueError:
                    return None
    return out


def mp_value_predicates(values, boundary):
    mech = []
    if any(b"\r" in v or b"\n" in v for v in values):
        mech.append("multipart-value-line-breaks-dropped")
    if any(b"--" + boundary in v for v in values):
        mech.append("multipart-value-contains-boundary-text")
    return mech


def mp_refusal_predicates(values, boundary):
    """encode_multipart documents a ValueError when a value is the boundary line itself; '$' also accepts a final LF."""
    for b in {boundary, boundary.strip(b'"')} if boundary else ():  # boundary as declared / without quoted-string quotes
        if b and any(v in (b"--" + b, b"--" + b + b"\n") for v in values):
            return ["multipart-value-equal-to-boundary-line-refused"]
    return None


def has_bare_param(text):
    return bool(text) and any("=" not in p for p in text.split("&"))


# =============================================================================================
# per-view logic
# =============================================================================================

def writeback(ctx, view, msg, do_write, origin, feats):
    """Write the view's current value back and compare the independent reading before/after.
    Returns (ok, before, after)."""
    before = meaning(msg)
    do_write(msg)
    after = meaning(msg)
    ctx.count(f"{view}.writeback")
    changed = diff_components(before, after)
    return changed, before, after


def report(ctx, kind, witness, mechs):
    if not mechs:
        ctx.violation(kind, witness, None)
    else:
        for m in mechs:
            ctx.violation(kind, witness, m)


# ---- view mutation through MultiDictView (generic, case-sensitive keys) ------------------------------

def view_mutation(ctx, r, view_name, get_view, pairs, gen_k, gen_v, trace=None):
    """Apply one mutation through the live view and the same one on a list; returns the expected list."""
    model = [tuple(p) for p in pairs]
    v = get_view()
    op = r.choice(["add", "insert", "setitem", "delitem", "set_all"])
    if trace is not None:
        trace.append(op)
    k = r.choice(model)[0] if model and r.random() < 0.6 else gen_k()
    val = gen_v()
    if op == "add":
        v.add(k, val)
        model.append((k, val))
    elif op == "insert":
        i = r.randint(0, len(model))
        v.insert(i, k, val)
        model.insert(i, (k, val))
    elif op == "setitem":
        v[k] = val
        model = _set_all(model, k, [val])
    elif op == "set_all":
        vals = [gen_v() for _ in range(r.choice([0, 1, 2, 3]))]
        v.set_all(k, list(vals))
        model = _set_all(model, k, vals)
    else:
        present = any(p[0] == k for p in model)
        try:
            del v[k]
            raised = False
        except KeyError:
            raised = True
        if raised == present:
            ctx.violation(f"{view_name}.view-del-keyerror", {"pairs": pairs, "key": k, "raised": raised}, None)
        model = [p for p in model if p[0] != k]
    return op, k, model


def item_edit(ctx, r, view_name, msg, get_view, gen_k, gen_v, explain=None):
    """Edit one item of an existing message through the live view (as an addon does: view[k] = v, add, del ...):
    what the view reports afterwards must be the same edit applied to what it reported before."""
    if r.random() < 0.45:
        return
    current = tup(get_view().items(multi=True))
    ctx.count(f"{view_name}.item_edit")
    trace = []
    try:
        op, k, model = view_mutation(ctx, r, view_name, get_view, current, gen_k, gen_v, trace)
    except (ValueError, TypeError) as e:
        mechs = explain("raises:" + type(e).__name__ + ":" + trace[0], None, None) if explain else None
        report(ctx, f"{view_name}.item_edit-raises", {"view_before": current, "op": trace[0], "exc": repr(e)}, mechs)
        return
    got = tup(get_view().items(multi=True))
    if got != tup(model):
        mechs = explain("differs", model, got) if explain else None
        report(ctx, f"{view_name}.item_edit", {"view_before": current, "op": op, "key": k, "expected": model, "readback": got, "body": body_of(msg),
                                               "content_encoding": header_values(msg, b"content-encoding")}, mechs)


def _set_all(model, k, vals):
    vals = list(vals)
    out = []
    for p in model:
        if p[0] == k:
            if vals:
                out.append((k, vals.pop(0)))
        else:
            out.append(p)
    out += [(k, x) for x in vals]
    return out


# ---- query -------------------------------------------------------------------------------------------

RAWQ = [b"a", b"b", b"k", b"1", b"=", b"=", b"&", b"&", b"+", b"%20", b"%41", b"%zz", b"%", b"%e4", b"%C3%A9", b"%c3%a9", b"\xc3\xa9", b"\xff",
        b";", b"/", b"?", b":", b"@", b"!", b"'", b"(", b",", b"%26", b"%3D", b"%2B", b"%00", b"%0A"]
RAWSEG = [b"a", b"b", b"seg", b"1", b".", b"..", b"%2F", b"%2f", b"%20", b"+", b"%41", b"\xc3\xa9", b"%C3%A9", b"\xff", b"%FF", b":", b"@", b"!", b",", b"=", b"~", b"%7E", b"%zz"]


def gen_raw_path_part(r, allow_empty_seg=True):
    segs = []
    for _ in range(r.choice([0, 1, 1, 2, 3, 4])):
        if allow_empty_seg and r.random() < 0.12:
            segs.append(b"")
        else:
            segs.append(b"".join(r.choice(RAWSEG) for _ in range(r.choice([1, 1, 2, 3]))))
    p = b"/" + b"/".join(segs)
    if allow_empty_seg and r.random() < 0.2 and segs:
        p += b"/"
    return p


def gen_raw_target(r, with_query=True):
    p = gen_raw_path_part(r)
    k = r.random()
    if k < 0.12:
        p += b";" + r.choice([b"", b"v=1", b"x"])
    elif k < 0.18 and b"/" in p[1:]:
        i = p.index(b"/", 1)
        p = p[:i] + b";m=1" + p[i:]
    if with_query and r.random() < 0.85:
        p += b"?" + b"".join(r.choice(RAWQ) for _ in range(r.choice([0, 1, 2, 3, 5, 8, 12])))
    if r.random() < 0.1:
        p += b"#" + r.choice([b"", b"frag", b"a?b"])
    return p


def case_query(ctx, r, mode):
    enc = gen_enc(r)
    if mode == "assign":
        base = gen_raw_target(r)
        req = mk_request(path=base, headers=gen_other_headers(r), content=r.choice([b"", b"body"]), enc=enc, via_setter=True)
        pairs = gen_pairs(r)
        pp_before = W.split_target(base)[0]
        req.query = list(pairs)
        got = tup(req.query.items(multi=True))
        ctx.count("query.assign_readback")
        if got != tup(pairs):
            report(ctx, "query.assign_readback", {"base_path": base, "pairs": pairs, "readback": got, "path": req.data.path}, None)
        elif pairs and r.random() < 0.5:
            op, k, model = view_mutation(ctx, r, "query", lambda: req.query, pairs, lambda: gen_text(r), lambda: gen_text(r))
            ctx.count("query.view_op")
            got2 = tup(req.query.items(multi=True))
            if got2 != tup(model):
                report(ctx, "query.view_op", {"pairs": pairs, "op": op, "key": k, "expected": model, "readback": got2}, None)
        feats = ("assign", text_features([s for p in pairs for s in p]), size_class(len(pairs)), b";" in pp_before, b"#" in base)
        nontrivial = bool(pairs) and bool(feats[1])
        sample = {"view": "query", "base_path": base, "pairs": pairs, "path_after": req.data.path}
    else:
        base = gen_raw_target(r)
        req = mk_request(path=base, headers=gen_other_headers(r), content=r.choice([b"", b"body"]), enc=enc)
        q = W.split_target(base)[1] or b""
        feats = ("wire", tuple(sorted({t for t, c in (("pct", b"%"), ("plus", b"+"), ("bare", b"&"), ("semi", b";"), ("hi", b"\xc3"), ("bad", b"%zz")) if c in q})),
                 size_class(q.count(b"&") + 1 if q else 0), b";" in W.split_target(base)[0], b"#" in base)
        nontrivial = bool(q) and bool(feats[1])
        sample = {"view": "query", "wire_path": base}
    path0 = req.data.path
    changed, before, after = writeback(ctx, "query", req, lambda m: setattr(m, "query", list(m.query.items(multi=True))), mode, feats)
    if changed:
        mechs = []
        pp = before["path_part"]
        if changed == ["path_part", "segments"] or changed == ["path_part"]:
            # known: urlunparse drops the ';' of an empty params component of the last segment
            last = pp.rsplit(b"/", 1)[-1]
            if last.endswith(b";") and last.count(b";") == 1 and after["path_part"] == pp[:-1]:
                mechs = ["writeback-drops-empty-path-params-delimiter"]
        report(ctx, "query.writeback:" + ",".join(changed), {"path_before": path0, "path_after": req.data.path, "changed": {c: [before[c], after[c]] for c in changed}}, mechs)
    sample["path_written_back"] = req.data.path
    item_edit(ctx, r, "query", req, lambda: req.query, lambda: gen_text(r), lambda: gen_text(r))
    return ("query", enc) + feats, nontrivial, sample


# ---- request cookies -----------------------------------------------------------------------------------

TOKCH = "abcxyzABZ019!#$%&'*+-.^_`|~"
CVAL = ["a", "b", "1", "9", "=", ";", ",", '"', "\\", " ", "é", "中", "%", "/", ":", "{", "}", "~", "%3B", "=="]
CVAL_W = [5, 3, 3, 2, 2, 2, 2, 2, 2, 2, 1, 1, 1, 1, 1, 1, 1, 1, 1, 1]
SPECIAL_NAMES = ["expires", "Expires", "path", "Path", "secure", "max-age", "domain", "comment", "version"]


def gen_cookie_name(r):
    if r.random() < 0.08:
        return r.choice(SPECIAL_NAMES)
    return "".join(r.choice(TOKCH) for _ in range(r.choice([1, 1, 2, 3, 6])))


def gen_cookie_value(r):
    return "".join(r.choices(CVAL, CVAL_W, k=r.choice([0, 1, 1, 2, 3, 5, 8])))


def gen_cookie_pairs(r):
    out = []
    for _ in range(r.choice([0, 1, 1, 2, 3, 5])):
        k = gen_cookie_name(r)
        if r.random() < 0.25 and out:
            k = r.choice(out)[0]
        out.append((k, gen_cookie_value(r)))
    return out


def gen_wire_cookie_value(r):
    """Unambiguous wire form of a cookie value: cookie-octets (no ws ; , \\ DQUOTE inside) or a quoted-string."""
    if r.random() < 0.65:
        return "".join(r.choice(["a", "b", "1", "=", "%", "/", ":", "~", "%3B", "é", "-", "."]) for _ in range(r.choice([0, 1, 2, 3, 6])))
    inner = "".join(r.choice(["a", "b", " ", ";", ",", '\\"', "\\\\", "=", "é"]) for _ in range(r.choice([0, 1, 2, 4])))
    return '"' + inner + '"'


def gen_wire_cookie_header(r):
    pieces = []
    for _ in range(r.choice([1, 1, 2, 3, 5])):
        if r.random() < 0.06:
            pieces.append(gen_cookie_name(r))  # name without '='
        else:
            pieces.append(gen_cookie_name(r) + "=" + gen_wire_cookie_value(r))
    sep = r.choice(["; ", "; ", ";", ";  "])
    return sep.join(pieces) + (r.choice(["", ";", "; "]) if r.random() < 0.1 else "")


def case_cookies(ctx, r, mode):
    enc = gen_enc(r)
    if mode == "assign":
        existing = [(b"Cookie", b"old=1; other=2")] if r.random() < 0.4 else []
        hdrs = gen_other_headers(r) + existing + gen_other_headers(r)
        if r.random() < 0.1:
            hdrs.append((b"cookie", b"second=header"))
        req = mk_request(path=b"/p?x=1", headers=hdrs, content=b"body", enc=enc, via_setter=True)
        pairs = gen_cookie_pairs(r)
        req.cookies = list(pairs)
        got = tup(req.cookies.items(multi=True))
        ctx.count("cookies.assign_readback")
        if got != tup(pairs):
            report(ctx, "cookies.assign_readback", {"pairs": pairs, "readback": got, "header": header_values(req, b"cookie")}, None)
        elif pairs and r.random() < 0.5:
            op, k, model = view_mutation(ctx, r, "cookies", lambda: req.cookies, pairs, lambda: gen_cookie_name(r), lambda: gen_cookie_value(r))
            ctx.count("cookies.view_op")
            got2 = tup(req.cookies.items(multi=True))
            if got2 != tup(model):
                report(ctx, "cookies.view_op", {"pairs": pairs, "op": op, "key": k, "expected": model, "readback": got2}, None)
        feats = ("assign", text_features([p[1] for p in pairs]), size_class(len(pairs)), bool(existing), any(p[0] in SPECIAL_NAMES for p in pairs))
        nontrivial = bool(pairs) and bool(feats[1])
        sample = {"view": "cookies", "pairs": pairs, "header": header_values(req, b"cookie")}
    else:
        hs = [gen_wire_cookie_header(r) for _ in range(r.choice([1, 1, 1, 2]))]
        hdrs = gen_other_headers(r)
        for h in hs:
            hdrs.insert(r.randint(0, len(hdrs)), (r.choice([b"Cookie", b"cookie"]), h.encode("utf-8")))
        req = mk_request(path=b"/p?x=1", headers=hdrs, content=b"body", enc=enc)
        joined = " ".join(hs)
        feats = ("wire", tuple(sorted({t for t, c in (("quoted", '="'), ("esc", "\\"), ("semi-in", '";'), ("bare", "=="), ("uni", "é"), ("nosp", ";")) if c in joined})),
                 size_class(joined.count("=")), len(hs) > 1, False)
        nontrivial = True
        sample = {"view": "cookies", "wire_headers": hs}
    h0 = header_values(req, b"cookie")
    changed, before, after = writeback(ctx, "cookies", req, lambda m: setattr(m, "cookies", list(m.cookies.items(multi=True))), mode, feats)
    if changed:
        report(ctx, "cookies.writeback:" + ",".join(changed), {"headers_before": h0, "headers_after": header_values(req, b"cookie"), "changed": {c: [before[c], after[c]] for c in changed}}, None)
    item_edit(ctx, r, "cookies", req, lambda: req.cookies, lambda: gen_cookie_name(r), lambda: gen_cookie_value(r))
    return ("cookies", enc) + feats, nontrivial, sample


# ---- response cookies (Set-Cookie) ---------------------------------------------------------------------

DAYS = ["Mon", "Tue", "Wed", "Thu", "Fri", "Sat", "Sun"]
MONTHS = ["Jan", "Feb", "Mar", "Apr", "May", "Jun", "Jul", "Aug", "Sep", "Oct", "Nov", "Dec"]
PATHCH = ["a", "b", "/", ".", "-", "_", "%20", "=", ":", "~", ",", "'", "(", "+"]
PATHCH_W = [5, 3, 5, 2, 1, 1, 1, 1, 1, 1, 1, 1, 1, 1]
EXTVAL = ["a", "b", "1", " ", ",", "=", '"', "\\", "/", ":", "-"]


def gen_date(r):
    return f"{r.choice(DAYS)}, {r.randint(1, 28):02d} {r.choice(MONTHS)} {r.randint(1990, 2037)} {r.randint(0, 23):02d}:{r.randint(0, 59):02d}:{r.randint(0, 59):02d} GMT"


def vary_case(r, s):
    k = r.random()
    return s if k < 0.6 else s.lower() if k < 0.85 else s.upper()


def gen_attrs(r):
    out = []
    for _ in range(r.choice([0, 1, 2, 2, 3, 5])):
        kind = r.choice(["path", "domain", "max-age", "expires", "secure", "httponly", "samesite", "ext", "extflag"])
        if kind == "path":
            out.append((vary_case(r, "Path"), "/" + "".join(r.choices(PATHCH, PATHCH_W, k=r.choice([0, 1, 2, 4, 8])))))
        elif kind == "domain":
            out.append((vary_case(r, "Domain"), r.choice(["example.com", ".example.com", "a.b.example"])))
        elif kind == "max-age":
            out.append((vary_case(r, "Max-Age"), str(r.choice([0, 1, 60, 31536000]))))
        elif kind == "expires":
            out.append((vary_case(r, "Expires"), gen_date(r)))
        elif kind == "secure":
            out.append((vary_case(r, "Secure"), None))
        elif kind == "httponly":
            out.append((vary_case(r, "HttpOnly"), None))
        elif kind == "samesite":
            out.append(("SameSite", r.choice(["Lax", "Strict", "None"])))
        elif kind == "ext":
            v = "".join(r.choice(EXTVAL) for _ in range(r.choice([0, 1, 2, 4]))).strip(" ")
            out.append((r.choice(["Priority", "x-ext", "Partitioned", "foo"]), v))
        else:
            out.append((r.choice(["Partitioned", "x-flag"]), None))
    return out


def gen_set_cookies(r):
    return [(gen_cookie_name(r), gen_cookie_value(r), gen_attrs(r)) for _ in range(r.choice([0, 1, 1, 2, 3]))]


def setcookie_predicates(name, value, attrs):
    mech = []
    if any(k.lower() == "path" and v is not None and "," in v for k, v in attrs):
        mech.append("set-cookie-path-attribute-contains-comma")
    if name.lower() in ("expires", "path"):
        # the cookie's own name/value pair is then handled like the attribute of that name (no quoting of the value on
        # output; 'expires' values of <= 3 characters are glued to the following attribute on input)
        mech.append("cookie-named-like-expires-or-path-attribute")
    return mech


def setcookie_fails_alone(name, value, attrs):
    resp = mk_response()
    resp.cookies = [(name, (value, mcookies.CookieAttrs(attrs)))]
    got = [(k, v[0], tup(v[1].fields)) for k, v in resp.cookies.items(multi=True)]
    return got != [(name, value, tup(attrs))]


def gen_wire_set_cookie(r):
    name = gen_cookie_name(r)
    s = name + "=" + gen_wire_cookie_value(r)
    for k, v in gen_attrs(r):
        if v is None:
            s += "; " + k
        else:
            if any(c in v for c in ' ,"\\') and k.lower() not in ("path", "expires"):
                v = '"' + v.replace("\\", "\\\\").replace('"', '\\"') + '"'
            s += r.choice(["; ", "; ", ";"]) + k + "=" + v
    return s


def case_setcookie(ctx, r, mode):
    enc = gen_enc(r)
    if mode == "assign":
        existing = [(b"Set-Cookie", b"old=1; Path=/")] if r.random() < 0.4 else []
        resp = mk_response(headers=gen_other_headers(r) + existing + gen_other_headers(r), content=b"body", enc=enc, via_setter=True)
        cks = gen_set_cookies(r)
        resp.cookies = [(n, (v, mcookies.CookieAttrs(a))) for n, v, a in cks]
        got = [(k, v[0], tup(v[1].fields)) for k, v in resp.cookies.items(multi=True)]
        want = [(n, v, tup(a)) for n, v, a in cks]
        ctx.count("setcookie.assign_readback")
        if got != want:
            # classification: which cookies fail on their own, and do they satisfy a known predicate?
            mechs = set()
            unexplained = False
            failing = [c for c in cks if setcookie_fails_alone(*c)]
            if not failing:
                unexplained = True
            for c in failing:
                p = setcookie_predicates(*c)
                if not p:
                    unexplained = True
                mechs.update(p)
            report(ctx, "setcookie.assign_readback", {"cookies": cks, "readback": got, "headers": header_values(resp, b"set-cookie")}, None if unexplained else sorted(mechs))
        allv = [v for _, v, _ in cks] + [av for _, _, a in cks for _, av in a if av is not None]
        feats = ("assign", text_features(allv), size_class(len(cks)), tuple(sorted({k.lower() for _, _, a in cks for k, _ in a} & {"path", "expires", "secure", "foo", "x-ext"})),
                 any(n in SPECIAL_NAMES for n, _, _ in cks))
        nontrivial = bool(cks) and (bool(feats[1]) or bool(feats[3]))
        sample = {"view": "setcookie", "cookies": cks, "headers": header_values(resp, b"set-cookie")}
    else:
        hs = [gen_wire_set_cookie(r) for _ in range(r.choice([1, 1, 2, 3]))]
        hdrs = gen_other_headers(r)
        for h in hs:
            hdrs.insert(r.randint(0, len(hdrs)), (r.choice([b"Set-Cookie", b"set-cookie"]), h.encode("utf-8")))
        resp = mk_response(headers=hdrs, content=b"body", enc=enc)
        joined = " ".join(hs).lower()
        feats = ("wire", tuple(sorted({t for t, c in (("quoted", '="'), ("esc", "\\"), ("expires", "expires="), ("path", "path="), ("flag", "secure"), ("ext", "foo=")) if c in joined})),
                 size_class(len(hs)), (), False)
        nontrivial = True
        sample = {"view": "setcookie", "wire_headers": hs}
    h0 = header_values(resp, b"set-cookie")
    changed, before, after = writeback(ctx, "setcookie", resp, lambda m: setattr(m, "cookies", list(m.cookies.items(multi=True))), mode, feats)
    if changed:
        mechs = None
        if changed == ["setcookie"]:
            ms = set()
            ok = True
            for n, v, a in before["setcookie"]:
                # a cookie that survives a write-back on its own is not the culprit
                solo = mk_response(headers=[(b"Set-Cookie", next(h for h in h0 if W.parse_set_cookie(W.txt(h)) == (n, v, a)))])
                b1 = meaning(solo)["setcookie"]
                solo.cookies = list(solo.cookies.items(multi=True))
                if meaning(solo)["setcookie"] != b1:
                    p = setcookie_predicates(n, v, a)
                    if not p:
                        ok = False
                    ms.update(p)
            mechs = sorted(ms) if ok and ms else None
        report(ctx, "setcookie.writeback:" + ",".join(changed), {"headers_before": h0, "headers_after": header_values(resp, b"set-cookie"), "changed": {c: [before[c], after[c]] for c in changed}}, mechs)
    return ("setcookie", enc) + feats, nontrivial, sample


# ---- urlencoded form -----------------------------------------------------------------------------------

def gen_raw_form_body(r):
    return b"".join(r.choice(RAWQ) for _ in range(r.choice([0, 1, 2, 3, 5, 8, 12])))


def case_form(ctx, r, mode):
    enc = gen_enc(r)
    if mode == "assign":
        prior_kind = r.choice(["none", "empty", "text", "form", "form-bare", "json"])
        prior = {"none": None, "empty": b"", "text": b"hello world", "form": b"x=1&y=2", "form-bare": b"x&y=2", "json": b'{"a": "b=c"}'}[prior_kind]
        ct = {"form": b"application/x-www-form-urlencoded", "form-bare": b"application/x-www-form-urlencoded", "json": b"application/json", "text": b"text/plain"}.get(prior_kind)
        hdrs = gen_other_headers(r) + ([(b"Content-Type", ct)] if ct else []) + gen_other_headers(r)
        req = mk_request(path=b"/p?q=1", headers=hdrs, content=prior, enc=enc, via_setter=True)
        pairs = gen_pairs(r)
        req.urlencoded_form = list(pairs)
        got = tup(req.urlencoded_form.items(multi=True))
        ctx.count("form.assign_readback")
        if got != tup(pairs):
            mechs = None
            prior_text = prior.decode() if prior else ""
            if ("", "") in pairs and has_bare_param(prior_text) and got == tup(p for p in pairs if p != ("", "")):
                mechs = ["form-empty-name-empty-value-pair-dropped-after-body-with-bare-parameter"]
            report(ctx, "form.assign_readback", {"prior_body": prior, "pairs": pairs, "readback": got, "content": body_of(req)}, mechs)
        elif pairs and r.random() < 0.5:
            body_after_assign = body_of(req) or b""
            op, k, model = view_mutation(ctx, r, "form", lambda: req.urlencoded_form, pairs, lambda: gen_text(r), lambda: gen_text(r))
            ctx.count("form.view_op")
            got2 = tup(req.urlencoded_form.items(multi=True))
            if got2 != tup(model):
                mechs = None
                # the body written by the first assignment is what the next write is made "similar to"
                if ("", "") in model and has_bare_param(body_after_assign.decode()) and got2 == tup(p for p in model if p != ("", "")):
                    mechs = ["form-empty-name-empty-value-pair-dropped-after-body-with-bare-parameter"]
                report(ctx, "form.view_op", {"pairs": pairs, "op": op, "key": k, "expected": model, "readback": got2, "content": body_of(req)}, mechs)
        feats = ("assign", text_features([s for p in pairs for s in p]), size_class(len(pairs)), prior_kind, ("", "") in pairs)
        nontrivial = bool(pairs) and bool(feats[1])
        sample = {"view": "form", "prior_body": prior, "pairs": pairs, "content": body_of(req)}
    else:
        body = gen_raw_form_body(r)
        ct = r.choice([b"application/x-www-form-urlencoded", b"application/x-www-form-urlencoded", b"Application/X-WWW-Form-Urlencoded", b"application/x-www-form-urlencoded; charset=utf-8",
                       b"application/x-www-form-urlencoded;charset=UTF-8"])
        hdrs = gen_other_headers(r) + [(r.choice([b"Content-Type", b"content-type"]), ct), (b"Content-Length", str(len(body)).encode())] + gen_other_headers(r)
        req = mk_request(path=b"/p?q=1", headers=hdrs, content=body, enc=enc)
        feats = ("wire", tuple(sorted({t for t, c in (("pct", b"%"), ("plus", b"+"), ("amp", b"&"), ("semi", b";"), ("hi", b"\xc3"), ("bad", b"%zz"), ("raw-ff", b"\xff")) if c in body})),
                 size_class(body.count(b"&") + 1 if body else 0), b"charset" in ct.lower(), has_bare_param(body.decode("utf-8", "surrogateescape")))
        nontrivial = bool(body) and bool(feats[1])
        sample = {"view": "form", "wire_body": body, "content_type": ct}
    c0 = body_of(req)
    charset_declared = any(b"charset" in v.lower() for v in header_values(req, b"content-type"))
    changed, before, after = writeback(ctx, "form", req, lambda m: setattr(m, "urlencoded_form", list(m.urlencoded_form.items(multi=True))), mode, feats)
    if changed:
        mechs = None
        if changed == ["body"] and before["body"][0] == "urlencoded":
            bp = before["body"][1]
            ms = []
            pred = bp
            if any(c >= 0x80 for c in c0 or b"") and not charset_declared:
                pred = W.parse_urlencoded(transcode_latin1(c0))
                if pred != bp:
                    ms.append("form-body-raw-non-ascii-octets-without-charset")
            # candidate predictions: without the empty-pair defect (behaviour after its fix), then with it
            cands = [(pred, ms)]
            if ("", "") in pred and has_bare_param((c0 or b"").decode("latin-1")):
                cands.append(([p for p in pred if p != ("", "")], ms + ["form-empty-name-empty-value-pair-dropped-after-body-with-bare-parameter"]))
            for cpred, cms in cands:
                if cms and after["body"] == ("urlencoded", cpred):
                    mechs = cms
                    break
        report(ctx, "form.writeback:" + ",".join(changed), {"content_before": c0, "content_after": body_of(req), "changed": {c: [before[c], after[c]] for c in changed}}, mechs)
    item_edit(ctx, r, "form", req, lambda: req.urlencoded_form, lambda: gen_text(r), lambda: gen_text(r))
    return ("form", enc) + feats, nontrivial, sample


# ---- multipart form ------------------------------------------------------------------------------------

MPNAME = [b"a", b"b", b"file", b".jpg", b" ", b"'", b"\\", b"\xc3\xa9", b"\xff", b";", b"=", b"name", b":", b"[]"]
MPVAL = [b"x", b"y", b"1", b"\r\n", b"\r", b"\n", b"--", b" ", b"\x00", b"\xff", b"\xc3\xa9", b'"', b"Content-Disposition: form-data", b"\r\n\r\n", b"=", b"&"]
MPVAL_W = [8, 4, 3, 2, 1, 2, 2, 2, 1, 1, 1, 1, 1, 1, 1, 1]
BOUNDARIES = [b"B", b"xyz", b"----WebKitFormBoundary7MA4YWxk", b"0123456789", b"----WebKitFormBoundary7MA4YWxk", b"a+b", b"x'y"]


def gen_ct_boundary_param(r, boundary):
    return b'"' + boundary + b'"' if r.random() < 0.15 else boundary


def mp_in_domain(value: bytes, boundary: bytes) -> bool:
    """The value must not contain a delimiter line for this boundary (RFC 2046)."""
    return re.search(rb"\r\n--" + re.escape(boundary) + rb"([ \t]*\r\n|--)", b"\r\n" + value + b"\r\n") is None


def gen_mp_pairs(r, boundary):
    out = []
    for _ in range(r.choice([0, 1, 1, 2, 3, 4])):
        name = b"".join(r.choice(MPNAME) for _ in range(r.choice([1, 1, 2, 3])))
        if r.random() < 0.25 and out:
            name = r.choice(out)[0]
        if r.random() < 0.45:
            val = b"".join(r.choice([b"x", b"y", b"1", b" ", b"=", b"\xc3\xa9"]) for _ in range(r.choice([0, 1, 3, 8])))
        else:
            alph, w = MPVAL, MPVAL_W
            val = b"".join(r.choices(alph, w, k=r.choice([0, 1, 2, 3, 5, 9])))
            if boundary is not None and r.random() < 0.25:
                val += r.choice([b"--" + boundary, boundary, b"x--" + boundary + b"y", b"\r\n--" + boundary + b"z"])
        if boundary is not None and not mp_in_domain(val, boundary):
            continue
        out.append((name, val))
    return out


def mp_features(values):
    f = set()
    for v in values:
        if v == b"":
            f.add("empty")
        if b"\r\n" in v:
            f.add("crlf")
        if re.search(rb"\r(?!\n)", v):
            f.add("cr")
        if re.search(rb"(?<!\r)\n", v):
            f.add("lf")
        if v[:1] in (b"\r", b"\n") or v[-1:] in (b"\r", b"\n"):
            f.add("edge-nl")
        if b"--" in v:
            f.add("dashes")
        if any(c > 127 or c == 0 for c in v):
            f.add("bin")
    return tuple(sorted(f))


def gen_wire_multipart(r, boundary):
    body = b""
    parts = []
    if r.random() < 0.2:
        body += b"This is the preamble.\r\n"
    for name, val in gen_mp_pairs(r, boundary):
        name = name.replace(b"\\", b"")
        if not name:
            name = b"n"
        fn = ct = None
        k = r.random()
        if k < 0.25:
            fn, ct = r.choice([b"x.png", b"a b.txt", b""]), r.choice([b"image/png", b"application/octet-stream", None])
        elif k < 0.35:
            ct = r.choice([b"text/plain", b"text/plain; charset=iso-8859-1", b"application/json"])
        h = b'Content-Disposition: form-data; name="' + name + b'"' + (b'; filename="' + fn + b'"' if fn is not None else b"") + b"\r\n"
        if ct:
            h += b"Content-Type: " + ct + b"\r\n"
        body += b"--" + boundary + b"\r\n" + h + b"\r\n" + val + b"\r\n"
        parts.append((name, fn, ct, val))
    body += b"--" + boundary + b"--" + r.choice([b"\r\n", b"", b"\r\nepilogue"])
    return body, parts


def case_multipart(ctx, r, mode):
    enc = gen_enc(r)
    if mode == "assign":
        preset = r.random() < 0.5
        boundary = r.choice(BOUNDARIES) if preset else None
        prior = r.choice([b"", b"old body"])
        hdrs = gen_other_headers(r) + ([(b"Content-Type", b"multipart/form-data; boundary=" + gen_ct_boundary_param(r, boundary))] if preset else r.choice([[], [(b"Content-Type", b"text/plain")]])) + gen_other_headers(r)
        req = mk_request(path=b"/upload?q=1", headers=hdrs, content=prior, enc=enc, via_setter=True)
        pairs = gen_mp_pairs(r, boundary)
        try:
            req.multipart_form = list(pairs)
        except ValueError as e:
            ctx.count("multipart.assign_readback")
            report(ctx, "multipart.assign-raises", {"pairs": pairs, "boundary": boundary, "exc": repr(e)}, mp_refusal_predicates([v for _, v in pairs], boundary))
            return ("multipart", "assign", "refused"), True, {"view": "multipart", "pairs": pairs, "boundary": boundary}
        mt, b_now = media_type(req)
        got = tup(req.multipart_form.items(multi=True))
        ctx.count("multipart.assign_readback")
        if mt != b"multipart/form-data" or not b_now:
            report(ctx, "multipart.assign-content-type", {"headers": req.headers.fields}, None)
        elif got != tup(pairs):
            mechs = None
            for dec_b, enc_b, bmech in boundary_variants(raw_boundary_param(req), b_now):
                pred = model_mp_decode(dec_b, model_mp_encode(enc_b, pairs))
                if pred is not None and got == tup(pred):
                    mechs = (bmech or mp_value_predicates([v for _, v in pairs], b_now)) or None
                    break
            report(ctx, "multipart.assign_readback", {"boundary": b_now, "pairs": pairs, "readback": got, "content": body_of(req)}, mechs)
        feats = ("assign", mp_features([v for _, v in pairs]), size_class(len(pairs)), preset, any(boundary in v for _, v in pairs) if boundary else False)
        nontrivial = bool(pairs) and (bool(feats[1]) or any(c in n for n, _ in pairs for c in (b" ", b"'", b"\\", b"\xff", b"\xc3\xa9", b";")))
        sample = {"view": "multipart", "pairs": pairs, "boundary": b_now, "content": body_of(req)}
    else:
        boundary = r.choice(BOUNDARIES)
        body, parts = gen_wire_multipart(r, boundary)
        ct = r.choice([b"multipart/form-data; boundary=", b"multipart/form-data;boundary=", b"multipart/form-data; charset=utf-8; boundary=", b"Multipart/Form-Data; boundary="]) + gen_ct_boundary_param(r, boundary)
        hdrs = gen_other_headers(r) + [(b"Content-Type", ct), (b"Content-Length", str(len(body)).encode())]
        req = mk_request(path=b"/upload?q=1", headers=hdrs, content=body, enc=enc)
        feats = ("wire", mp_features([p[3] for p in parts]), size_class(len(parts)), any(p[1] is not None for p in parts), any(p[2] is not None for p in parts))
        nontrivial = bool(parts)
        sample = {"view": "multipart", "wire_body": body, "content_type": ct}
        ref_parts = W.parse_multipart(boundary, body)
        if ref_parts is None or [(p.name, p.filename, p.ctype, p.value) for p in ref_parts] != parts:
            from vf.core import Inconclusive
            raise Inconclusive(f"reference multipart reader disagrees with the generator: {body!r}")
    c0 = body_of(req)
    mt0, b0 = media_type(req)
    current = list(req.multipart_form.items(multi=True))
    try:
        changed, before, after = writeback(ctx, "multipart", req, lambda m: setattr(m, "multipart_form", current), mode, feats)
    except ValueError as e:
        ctx.count("multipart.writeback")
        report(ctx, "multipart.writeback-raises", {"content_before": c0, "view_value": current, "exc": repr(e)}, mp_refusal_predicates([v for _, v in current], raw_boundary_param(req)))
        return ("multipart",) + feats + ("refused",), nontrivial, sample
    if changed:
        mechs = None
        raw_b = raw_boundary_param(req)
        if changed == ["body"] and before["body"][0] == "multipart" and b0 and raw_b:
            for dec_b, enc_b, bmech in boundary_variants(raw_b, b0):
                dec = model_mp_decode(dec_b, c0 or b"")
                if dec is None:
                    continue
                pred_content = model_mp_encode(enc_b, dec)
                pp_ = W.parse_multipart(b0, pred_content)
                pred_body = ("multipart", [norm_part(p) for p in pp_] if pp_ is not None else ("malformed", pred_content))
                if after["body"] == pred_body:
                    bparts = before["body"][1]
                    ms = list(bmech)
                    if not ms and isinstance(bparts, list):
                        if bparts:
                            ms.append("multipart-writeback-appends-crlf-to-every-value")
                        if any(fn is not None or ct != b"text/plain" for _, fn, ct, _ in bparts):
                            ms.append("multipart-writeback-drops-filename-and-part-content-type")
                        ms += mp_value_predicates([v for _, _, _, v in bparts], b0)
                    mechs = ms or None
                    break
        report(ctx, "multipart.writeback:" + ",".join(changed), {"content_before": c0, "content_after": body_of(req), "boundary": b0, "changed": {c: [before[c], after[c]] for c in changed}}, mechs)
    def explain(what, model, got):
        raw_b = raw_boundary_param(req)
        if what in ("raises:TypeError:add", "raises:TypeError:insert"):
            # the multipart getter hands out a list, MultiDict.insert (and add, built on it) concatenates tuples
            return ["multipart-view-add-or-insert-raises-typeerror"]
        if what.startswith("raises:ValueError"):
            return mp_refusal_predicates([v for _, v in req.multipart_form.items(multi=True)], raw_b)
        if what.startswith("raises") or not raw_b or not b0:
            return None
        for dec_b, enc_b, bmech in boundary_variants(raw_b, b0):
            pred = model_mp_decode(dec_b, model_mp_encode(enc_b, model))
            if pred is not None and got == tup(pred):
                return (bmech or mp_value_predicates([v for _, v in model], b0)) or None
        return None

    item_edit(ctx, r, "multipart", req, lambda: req.multipart_form, lambda: b"".join(r.choice([b"a", b"b", b"user", b"f1"]) for _ in range(r.choice([1, 1, 2]))),
              lambda: b"".join(r.choice([b"x", b"y", b"1", b" ", b"=", b"\xc3\xa9"]) for _ in range(r.choice([0, 1, 3, 6]))), explain)
    return ("multipart", enc) + feats, nontrivial, sample


# ---- path components -----------------------------------------------------------------------------------

def case_path(ctx, r, mode):
    enc = gen_enc(r)
    if mode == "assign":
        base = gen_raw_target(r)
        req = mk_request(path=base, headers=gen_other_headers(r), content=b"body", enc=enc, via_setter=True)
        comps = [gen_text(r) if r.random() < 0.9 else r.choice([".", "..", "a/b", "%2F", " "]) for _ in range(r.choice([0, 1, 1, 2, 3, 5]))]
        req.path_components = list(comps)
        got = tuple(req.path_components)
        ctx.count("path.assign_readback")
        if got != tuple(comps):
            mechs = None
            if "" in comps and got == tuple(c for c in comps if c != ""):
                mechs = ["path-component-empty-string-dropped"]
            report(ctx, "path.assign_readback", {"base_path": base, "components": comps, "readback": got, "path": req.data.path}, mechs)
        # the query of the base target must survive
        ctx.count("path.assign_keeps_query")
        if W.parse_urlencoded(W.split_target(req.data.path)[1]) != W.parse_urlencoded(W.split_target(base)[1]):
            report(ctx, "path.assign_changes_query", {"base_path": base, "components": comps, "path": req.data.path}, None)
        feats = ("assign", text_features(comps), size_class(len(comps)), "" in comps, b"?" in base)
        nontrivial = bool(comps) and bool(feats[1])
        sample = {"view": "path", "base_path": base, "components": comps, "path_after": req.data.path}
    else:
        base = gen_raw_target(r)
        req = mk_request(path=base, headers=gen_other_headers(r), content=b"body", enc=enc)
        pp = W.split_target(base)[0]
        segs = W.path_segments(pp)
        feats = ("wire", tuple(sorted({t for t, c in (("pct", b"%"), ("semi", b";"), ("hi", b"\xc3"), ("ff", b"\xff"), ("plus", b"+"), ("dot", b"/.")) if c in pp})), size_class(len(segs)),
                 b"" in segs[:-1] if len(segs) > 1 else False, pp.endswith(b"/") and pp != b"/")
        nontrivial = pp != b"/"
        sample = {"view": "path", "wire_path": base}
    path0 = req.data.path
    changed, before, after = writeback(ctx, "path", req, lambda m: setattr(m, "path_components", m.path_components), mode, feats)
    # the raw path part legitimately changes its spelling (%-encoding is normalised); its meaning is 'segments'
    changed = [c for c in changed if c != "path_part"]
    if changed:
        mechs = None
        if changed == ["segments"]:
            # frozen model: ;params are split off the last segment, empty segments are dropped, the params are
            # re-attached to whatever segment is last then (and dropped together with their ';' if empty)
            raw_segs = before["path_part"][1:].split(b"/")
            last, params = (raw_segs[-1].split(b";", 1) + [None])[:2] if b";" in raw_segs[-1] else (raw_segs[-1], None)
            dec = [W.pct_decode(x) for x in raw_segs[:-1] + [last]]
            kept = [x for x in dec if x != b""]
            ms = []
            if kept != dec:
                ms.append("path-writeback-drops-empty-segments-and-trailing-slash")
            if params == b"":
                ms.append("writeback-drops-empty-path-params-delimiter")
            pred = kept or [b""]
            if params:
                pred[-1] = pred[-1] + b";" + W.pct_decode(params)
            if ms and after["segments"] == pred:
                mechs = ms
        report(ctx, "path.writeback:" + ",".join(changed), {"path_before": path0, "path_after": req.data.path, "changed": {c: [before[c], after[c]] for c in changed}}, mechs)
    return ("path", enc) + feats, nontrivial, sample


CASES = {"query": case_query, "cookies": case_cookies, "setcookie": case_setcookie, "form": case_form, "multipart": case_multipart, "path": case_path}


def run(ctx):
    for i in ctx.cases():
        r = ctx.rng
        view = VIEWS[(i + ctx.worker) % len(VIEWS)]
        mode = "assign" if r.random() < 0.6 else "wire"
        out = ctx.guard(CASES[view], ctx, r, mode, what=f"{view}/{mode}")
        if out is None:
            ctx.case((view, mode, "exception"), nontrivial=True)
            continue
        sig, nontrivial, sample = out
        ctx.case(sig, nontrivial=nontrivial, sample=sample if i % 7 == 0 else None)
