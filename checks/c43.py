"""C43 -- the flow view always shows exactly the matching flows in order.

Monitor (model/history, M1+M3): a real mitmproxy.addons.view.View inside taddons.context() is driven with a random history
(add, mutate+update, mutate without update, update, remove, set filter, set order, reverse, marked-only toggle, clear, clear unmarked, focus moves,
focus-follow, duplicate, settings writes, option-driven configuration) over a pool of 12 flows of every type.  After every
operation the observable state is compared with a list model (vf/ref/c43_view.py) built on the independent filter
evaluator of C42:
  membership   list(view) holds exactly the stored flows matching filter (and marked while marked-only), each once
  order        model sort keys along list(view) are monotone in the requested direction (ties free)
  focus        focus.flow is a member of the view, None only when the view is empty
  settings     view.settings only has entries for stored flows; the store itself equals the model store
  signals      the signals sent during the operation explain the change of list(view): every appearing flow is announced
               by sig_view_add or covered by a sig_view_refresh, every disappearing one by sig_view_remove or a refresh,
               no add for a flow already shown, no remove/update for a flow not shown, an updated flow that stays in the
               view gets sig_view_update, sig_store_remove exactly for flows leaving the store one by one.
"""
import copy

from mitmproxy import flow as mflow
from mitmproxy import http
from mitmproxy import tcp
from mitmproxy import udp
from mitmproxy.addons import view
from mitmproxy.test import taddons

from vf.gen import c42_filtergen as gen
from vf.ref import c42_filter as fref
from vf.ref import c43_view as ref

PROPERTY = "C43"
LEVEL = "exploration"
BUDGET = {"quick": (900, 12), "thorough": (60_000, 200)}
WORKERS = {"quick": 2, "thorough": 16}
REQUIRED = ["membership", "order", "focus", "settings", "signals", "remove_after_silent_change"]
ENGINE = "direct"
TECHNIQUE = "model-based history checking of the real View against a list model with an independent filter evaluator"
RULE = (
    "case = one random history of 5-60 operations on a fresh View over a pool of 12 flows (http with/without response, tcp, udp, "
    "dns; timestamps with ties) whose method/path/body/response/messages/mark/comment/error mutate between updates; all five "
    "monitors run after every operation; distinct = (operation kinds used, orders used, marked-only seen, reversed seen, "
    "filters used bucket, history length bucket) signature; non-trivial = history contains an update that changed a sort key or "
    "the filter verdict, at least one filter/order/marked-only/reverse change, and the view was non-empty at some point"
)
ASSUMPTIONS = [
    "flows may change without an update reaching the view; membership is judged as of the view's last look at a flow (add/update notification or rebuild by filter/marked-only change), order by any key the flow had since its last notification",
    "filters are drawn from a catalogue whose documented semantics are crisp (no header/body regexes)",
    "signal oracle is lenient: a sig_view_refresh covers any membership change that precedes it in the same operation",
]
LEVEL_TEXT = (
    "Randomised exploration of operation histories with a full-state comparison against an executable list model after every step. "
    "Finite pool and bounded history length; ties in sort keys are left free; evidence on the sampled histories, not a proof."
)
LEVEL_NOTE = "Trusted: the list model vf/ref/c43_view.py, the C42 reference filter evaluator, sortedness judged on model keys computed from generator facts."

M_MARKED = "marked-only-ignored-on-add-or-update"
M_STALE = "stale-cached-order-key"

A = lambda op, arg=None: ("leaf", op, arg)  # noqa: E731
FILTERS = [
    None, None,
    A("marked"), ("not", A("marked")), A("marker", "x|grapes"), A("comment", "todo|bug"), A("comment", "^$"), A("m", "GET|POST"),
    A("m", "^P"), A("c", 200), A("c", 404), A("http"), ("or", [A("tcp"), A("udp")]), A("dns"), A("q"), A("s"), A("e"), ("not", A("e")),
    ("and", [A("http"), ("not", A("c", 404))]), A("all"), ("or", [A("marked"), A("s")]),
    ("and", [("not", A("marked")), ("or", [A("q"), A("tcp")])]),
]


def srender(ast, top=True):
    """Conservative spelling (blanks around every token, explicit connectives) so that C42's parser findings cannot
    interfere; parentheses only where precedence needs them (each level costs the real parser ~0.1 s)."""
    k = ast[0]
    if k == "leaf":
        op, arg = ast[1], ast[2]
        if arg is None:
            return f"~{op}"
        if isinstance(arg, int):
            return f"~{op} {arg}"
        return f'~{op} "{arg}"'
    if k == "not":
        inner = srender(ast[1], False)
        return f"! {inner}" if ast[1][0] == "leaf" else f"! ( {inner} )"
    parts = []
    for c in ast[1]:
        t = srender(c, False)
        if c[0] in ("and", "or") and c[0] != k and not (k == "or" and c[0] == "and"):
            t = f"( {t} )"
        parts.append(t)
    return (" & " if k == "and" else " | ").join(parts)


_PARSED = {}


def parsed_filter(text):
    """Parse each catalogue filter once per process (the parse itself is C42's subject, not C43's)."""
    if text not in _PARSED:
        from mitmproxy import flowfilter

        _PARSED[text] = flowfilter.parse(text)
    return _PARSED[text]


# ---------------------------------------------------------------------------------------------
# flows
# ---------------------------------------------------------------------------------------------

def make_pool(r):
    pool = []
    for t in ["http", "http", "http", "tcp", "udp", "dns"] + [None] * 6:
        f = gen.gen_facts(r, t)
        if f["type"] in ("tcp", "udp"):
            f["dst"] = (r.choice(["example.com", "10.0.0.7", "cdn-1.test", "192.168.0.12"]), r.choice([80, 443, 8080]))
        if f["src"] is None:
            f["src"] = ("127.0.0.1", 51234)  # Flow.copy() (duplicate) needs a peer address
        f["ts"] = 1000.0 + r.randint(0, 7)
        f["live"] = r.random() < 0.3
        if f["type"] == "http":
            f["ws"] = None
        fl = gen.build_flow(f)
        fl.timestamp_created = f["ts"]
        fl.live = f["live"]
        f["id"] = fl.id
        if f["type"] == "dns" and fl.response:
            f["dns_size"] = sum(len(x.data) for sec in (fl.response.answers, fl.response.authorities, fl.response.additionals) for x in sec)
        pool.append((f, fl))
    return pool


def sync(fl, f):
    """Write the (mutated) facts into the real flow object."""
    fl.marked = f["marked"]
    fl.comment = f["comment"]
    fl.timestamp_created = f["ts"]
    if f["error"] and not fl.error:
        fl.error = mflow.Error("boom", 946681207)
    elif not f["error"]:
        fl.error = None
    if f["type"] == "http":
        fl.request.method = f["method"]
        fl.request.path = f["path"]
        fl.request.content = f["req_body"]
        if f["resp"] is None:
            fl.response = None
        else:
            if fl.response is None:
                fl.response = http.Response.make(f["resp"]["code"], b"", {})
                fl.response.headers.clear()
                for n, v in f["resp"]["headers"]:
                    fl.response.headers.add(n, v)
            fl.response.status_code = f["resp"]["code"]
            fl.response.content = f["resp"]["body"]
    elif f["type"] in ("tcp", "udp"):
        M = tcp.TCPMessage if f["type"] == "tcp" else udp.UDPMessage
        fl.messages = [M(fc, c, 946681204.2) for fc, c in f["messages"]]


def mutate(r, f):
    """Change the facts of one flow; returns a label."""
    t = f["type"]
    choices = ["mark", "comment", "error", "ts"]
    if t == "http":
        choices += ["method", "path", "body", "resp", "resp", "code"]
    elif t in ("tcp", "udp"):
        choices += ["msg", "msg"]
    m = r.choice(choices)
    if m == "mark":
        f["marked"] = "" if (f["marked"] and r.random() < 0.6) else r.choice([":grapes:", "x", ":default:"])
    elif m == "comment":
        f["comment"] = r.choice(gen.COMMENTS)
    elif m == "ts":
        f["ts"] = 1000.0 + r.randint(0, 7)
    elif m == "error":
        f["error"] = not f["error"]
    elif m == "method":
        f["method"] = r.choice(gen.METHODS)
    elif m == "path":
        f["path"] = r.choice(gen.PATHS)
    elif m == "body":
        f["req_body"] = r.choice(gen.BODIES)
    elif m == "resp":
        if f["resp"] is None:
            f["resp"] = {"code": r.choice(gen.CODES), "headers": [("Content-Type", "text/plain")], "body": r.choice(gen.BODIES)}
        else:
            f["resp"]["body"] = r.choice(gen.BODIES)
    elif m == "code":
        if f["resp"] is not None:
            f["resp"]["code"] = r.choice(gen.CODES)
    elif m == "msg":
        f["messages"] = f["messages"] + [(r.random() < 0.5, r.choice(gen.BODIES[1:]))]
    return m


# ---------------------------------------------------------------------------------------------
# observation
# ---------------------------------------------------------------------------------------------

class Recorder:
    def __init__(self, v):
        self.v = v
        self.events = []
        v.sig_view_add.connect(self.on_add)
        v.sig_view_remove.connect(self.on_remove)
        v.sig_view_update.connect(self.on_update)
        v.sig_view_refresh.connect(self.on_refresh)
        v.sig_store_remove.connect(self.on_store_remove)
        v.sig_store_refresh.connect(self.on_store_refresh)

    def on_add(self, flow):
        self.events.append(("add", flow.id))

    def on_remove(self, flow, index):
        self.events.append(("remove", flow.id, index))

    def on_update(self, flow):
        self.events.append(("update", flow.id))

    def on_refresh(self):
        # signals are sent after the view has been updated: a refresh tells the consumer to reload this list
        self.events.append(("refresh", tuple(x.id for x in self.v._view)))

    def on_store_remove(self, flow):
        self.events.append(("store_remove", flow.id))

    def on_store_refresh(self):
        self.events.append(("store_refresh",))


def check_signals(events, before, after, store_before, store_after, updated_ids):
    """-> list of problems (strings)."""
    problems = []
    shown = set(before)
    refreshed = False
    got_update = set()
    store_removed = []
    for ev in events:
        if ev[0] == "add":
            if ev[1] in shown:
                problems.append("add-for-flow-already-shown")
            shown.add(ev[1])
        elif ev[0] == "remove":
            if ev[1] not in shown:
                problems.append("remove-for-flow-not-shown")
            shown.discard(ev[1])
        elif ev[0] == "update":
            if ev[1] not in shown:
                problems.append("update-for-flow-not-shown")
            got_update.add(ev[1])
        elif ev[0] == "refresh":
            refreshed = True
            shown = set(ev[1])
        elif ev[0] == "store_remove":
            store_removed.append(ev[1])
    if shown != set(after):
        appeared = set(after) - shown
        gone = shown - set(after)
        if appeared:
            problems.append("appearing-flow-not-announced")
        if gone:
            problems.append("disappearing-flow-not-announced")
    for i in updated_ids:
        if i in before and i in after and i not in got_update and not any(e[0] == "remove" and e[1] == i for e in events):
            problems.append("updated-flow-in-view-without-update-signal")
    left = set(store_before) - set(store_after)
    if any(e[0] == "store_refresh" for e in events):
        pass  # wholesale refresh covers every store change
    elif set(store_removed) != left:
        problems.append("store-remove-signals-differ-from-store-change")
    if any(i not in store_before for i in store_removed):
        problems.append("store-remove-for-non-stored-flow")
    return sorted(set(problems)), refreshed


# ---------------------------------------------------------------------------------------------
# one history
# ---------------------------------------------------------------------------------------------

OPS = (["add"] * 6 + ["mutate_update"] * 8 + ["mutate_only"] * 5 + ["update"] * 2 + ["remove"] * 3 + ["set_filter"] * 4 + ["set_order"] * 4 + ["set_reversed"] * 2
       + ["toggle_marked"] * 3 + ["clear"] + ["clear_not_marked"] + ["focus"] * 3 + ["focus_follow"] + ["duplicate"] + ["settings"] * 2)


def run_case(ctx):
    r = ctx.rng
    pool = make_pool(r)
    facts = {f["id"]: f for f, _ in pool}
    flows = {f["id"]: fl for f, fl in pool}
    model = ref.ViewModel()
    stale = {}  # id -> set(orders) whose cached key may be outdated (history predicate for M_STALE)
    lastkey = {}  # id -> {order: key at last notification}
    keyhist = {}  # id -> {order: every key the flow had at a notification since it entered the store}
    touched = set()  # ids with an add/update notification since the view was last rebuilt from the store (history predicate for M_MARKED)
    vis = {}  # id -> shown?, decided when the view last looked at the flow (add / update notification, or a rebuild)
    pend = {}  # id -> sort keys of every version of the flow since its last notification (first = as notified)

    def allkeys(i):
        return {o: ref.sort_key(facts[i], o) for o in ref.ORDERS}

    def notify(i):
        vis[i] = model.matches(facts[i])
        pend[i] = [allkeys(i)]

    def rebuild():
        for i in model.store:
            vis[i] = model.matches(facts[i])

    forced_remove = None  # ids to remove in the next operation (right after they changed without notification)
    hist = []
    feats = {"ops": set(), "orders": set(), "marked_only": False, "reversed": False, "filters": 0, "keychange": False, "silent_keychange": False, "ctl": False, "nonempty": False}
    n_ops = r.choice([5, 10, 20, 30, 45, 60])
    v = view.View()
    with taddons.context(v) as tctx:
        rec = Recorder(v)
        for step in range(n_ops):
            op = r.choice(OPS)
            if forced_remove:
                op = "remove"
            before = [x.id for x in v]
            store_before = list(v._store.keys())
            rec.events.clear()
            updated_ids = []
            desc = op
            if op == "add":
                ids = r.sample(list(flows), r.randint(1, 3))
                v.add([flows[i] for i in ids])
                for i in ids:
                    if i not in model.store:
                        model.store[i] = facts[i]
                        lastkey[i] = {o: ref.sort_key(facts[i], o) for o in ref.ORDERS}
                        keyhist[i] = {o: [k] for o, k in lastkey[i].items()}
                        stale[i] = set()
                        touched.add(i)
                        notify(i)
                desc = f"add {len(ids)}"
            elif op in ("mutate_update", "update"):
                ids = r.sample(list(flows), r.randint(1, 3))
                labels = []
                for i in ids:
                    if op == "mutate_update":
                        was = model.matches(facts[i]) if i in model.store else None
                        labels.append(mutate(r, facts[i]))
                        sync(flows[i], facts[i])
                        if i in model.store and was != model.matches(facts[i]):
                            feats["keychange"] = True
                v.update([flows[i] for i in ids])
                still = {x.id for x in v}
                for i in ids:
                    if i in model.store:
                        # the view refreshes the selected order's cached key only for a flow that is shown and stays shown
                        refreshed = i in before and i in still
                        for o in ref.ORDERS:
                            k = ref.sort_key(facts[i], o)
                            if k != lastkey[i][o]:
                                feats["keychange"] = True
                                lastkey[i][o] = k
                                keyhist[i][o].append(k)
                                if not (o == model.order and refreshed):
                                    stale[i].add(o)
                            if o == model.order and refreshed:
                                stale[i].discard(o)
                        touched.add(i)
                        notify(i)
                updated_ids = [i for i in ids if i in model.store]
                desc = f"{op} {','.join(labels)}"
            elif op == "mutate_only":
                # the flow object changes but no hook reaches the view (e.g. a script rewrites the request in the `request`
                # hook): the view may keep showing/sorting it as last notified until the next update or rebuild
                # mostly flows that are shown, changed until the key of the selected order moves; often removed right after
                src_ids = before if (before and r.random() < 0.7) else list(flows)
                ids = r.sample(src_ids, min(len(src_ids), r.randint(1, 3)))
                labels = []
                for i in ids:
                    k0 = ref.sort_key(facts[i], model.order)
                    for _ in range(6):
                        labels.append(mutate(r, facts[i]))
                        if ref.sort_key(facts[i], model.order) != k0:
                            break
                    sync(flows[i], facts[i])
                    if i in model.store:
                        k = allkeys(i)
                        if k != pend[i][-1]:
                            feats["silent_keychange"] = True
                        pend[i].append(k)
                desc = f"mutate_only {','.join(labels)}"
                if r.random() < 0.6:
                    forced_remove = list(ids)
            elif op == "remove":
                ids = r.sample(list(flows), r.randint(1, 2))
                if forced_remove:
                    ids = forced_remove + [i for i in ids if i not in forced_remove][: r.randint(0, 1)]
                    forced_remove = None
                    ctx.count("remove_after_silent_change")
                v.remove([flows[i] for i in ids])
                for i in ids:
                    if i in model.store:
                        if facts[i]["live"]:
                            facts[i]["live"] = False  # View.remove kills live flows: they end up with an error
                            facts[i]["error"] = True
                        del model.store[i]
                        stale.pop(i, None)
                        lastkey.pop(i, None)
                        vis.pop(i, None)
                        pend.pop(i, None)
            elif op == "set_filter":
                flt = r.choice(FILTERS)
                feats["filters"] += 1
                feats["ctl"] = True
                text = srender(flt) if flt else ""
                x = r.random()
                if x < 0.1:
                    tctx.configure(v, view_filter=text or None)
                elif x < 0.2:
                    v.set_filter_cmd(text)
                else:
                    v.set_filter(parsed_filter(text) if text else None)
                model.filter = flt
                touched.clear()
                rebuild()
                desc = f"set_filter {text!r}"
            elif op == "set_order":
                o = r.choice(ref.ORDERS)
                feats["ctl"] = True
                if r.random() < 0.3:
                    tctx.configure(v, view_order=o)
                else:
                    v.set_order(o)
                model.order = o
                desc = f"set_order {o}"
            elif op == "set_reversed":
                b = r.random() < 0.6
                feats["ctl"] = True
                if r.random() < 0.3:
                    tctx.configure(v, view_order_reversed=b)
                else:
                    v.set_reversed(b)
                model.reversed = b
                desc = f"set_reversed {b}"
            elif op == "toggle_marked":
                feats["ctl"] = True
                v.toggle_marked()
                model.show_marked = not model.show_marked
                touched.clear()
                rebuild()
            elif op == "clear":
                v.clear()
                model.store.clear()
                stale.clear()
                lastkey.clear()
                touched.clear()
                vis.clear()
                pend.clear()
            elif op == "clear_not_marked":
                v.clear_not_marked()
                touched.clear()
                for i in [i for i, f in model.store.items() if not f["marked"]]:
                    del model.store[i]
                    stale.pop(i, None)
                    lastkey.pop(i, None)
                    vis.pop(i, None)
                    pend.pop(i, None)
                rebuild()
            elif op == "focus":
                k = r.choice(["go", "next", "prev"])
                if k == "go":
                    v.go(r.randint(-4, 14))
                elif k == "next":
                    v.focus_next()
                else:
                    v.focus_prev()
                desc = f"focus {k}"
            elif op == "focus_follow":
                b = r.random() < 0.5
                tctx.configure(v, console_focus_follow=b)
                desc = f"focus_follow {b}"
            elif op == "duplicate":
                if before and len(flows) < 20:
                    src = r.sample(before, min(len(before), r.randint(1, 2)))
                    known = set(v._store.keys())
                    try:
                        v.duplicate([flows[i] for i in src])
                    except ValueError:
                        # duplicate() focuses the first copy; if that copy does not pass the current filter (the original
                        # changed silently since the view last looked at it) the focus setter refuses.  The copies are stored
                        # by then and every clause of the property is still checked below, so this is only counted.
                        if model.matches(facts[src[0]]):
                            raise
                        ctx.count("duplicate_focus_refused_for_hidden_copy")
                    new = [x for x in v._store.values() if x.id not in known]
                    # copies get fresh ids; they carry the originals' facts (in the order given) and are not live
                    if len(new) != len(src):
                        ctx.violation("duplicate-count", {"history": hist + [desc], "expected": len(src), "got": len(new)})
                    for i, fl in zip(src, new):
                        f2 = copy.deepcopy(facts[i])
                        f2["id"] = fl.id
                        f2["live"] = False
                        facts[fl.id] = f2
                        flows[fl.id] = fl
                        model.store[fl.id] = f2
                        lastkey[fl.id] = {o: ref.sort_key(f2, o) for o in ref.ORDERS}
                        keyhist[fl.id] = {o: [k] for o, k in lastkey[fl.id].items()}
                        stale[fl.id] = set()
                        touched.add(fl.id)
                        notify(fl.id)
            elif op == "settings":
                stored = list(v._store.values())
                if stored:
                    fl = r.choice(stored)
                    v.settings[fl]["k"] = "v"
                try:
                    v.settings[r.choice(list(flows.values()))]
                except KeyError:
                    pass
            hist.append(desc)
            feats["ops"].add(op)
            feats["orders"].add(model.order)
            feats["marked_only"] |= model.show_marked
            feats["reversed"] |= model.reversed

            # ------------------------------------------------------------- observe
            shown = list(v)
            after = [x.id for x in shown]
            if after:
                feats["nonempty"] = True
            state = {"filter": srender(model.filter) if model.filter else None, "marked_only": model.show_marked, "order": model.order,
                     "reversed": model.reversed, "step": step}

            def wit(**kw):
                d = {"history": hist[-25:], "state": state, "view": [brief(facts.get(i)) for i in after][:14]}
                d.update(kw)
                return d

            ctx.count("membership")
            exp = {i for i in model.store if vis[i]}
            if len(after) != len(set(after)):
                ctx.violation("flow-listed-twice", wit())
            if set(after) != exp or not set(after) <= set(model.store):
                extra = set(after) - exp
                missing = exp - set(after)
                mech = None
                # explained only if every surplus flow is an unmarked, filter-matching flow that was added/updated after the
                # view was last rebuilt (a rebuild honours marked-only mode, add()/update() do not)
                if (model.show_marked and not missing and extra <= set(model.store) and extra <= touched
                        and all(not facts[i]["marked"] and (model.filter is None or fref.ev(model.filter, facts[i])) for i in extra)):
                    mech = M_MARKED
                ctx.violation("membership-differs", wit(extra=[brief(facts.get(i)) for i in extra], missing=[brief(facts.get(i)) for i in missing]), mech)

            ctx.count("order")
            listed = [i for i in after if i in model.store]
            # a flow that changed without notification may be sorted by any key it had since the view last heard of it
            base = [sorted({p[model.order] for p in pend[i]}) for i in listed]
            if not sortable_with(base, model.reversed):
                # explained only if the list is sorted once every flow whose key changed while it was hidden or another
                # order was selected is also allowed to sit at one of its earlier keys
                cands = [sorted(set(b) | set(keyhist[i][model.order])) if model.order in stale.get(i, ()) else b for i, b in zip(listed, base)]
                mech = M_STALE if sortable_with(cands, model.reversed) else None
                ctx.violation("not-sorted", wit(keys=base[:20], possibly_stale=[model.order in stale.get(i, ()) for i in listed][:20]), mech)

            ctx.count("focus")
            fo = v.focus.flow
            if (fo is None) != (len(after) == 0) or (fo is not None and not any(fo is x for x in shown)):
                ctx.violation("focus-not-in-view", wit(focus=None if fo is None else brief(facts.get(fo.id))))

            ctx.count("settings")
            if list(v._store.keys()) != list(model.store.keys()):
                ctx.violation("store-differs", wit(real=len(v._store), model=len(model.store)))
            leaked = [k for k in v.settings._values if k not in model.store]
            if leaked:
                ctx.violation("settings-for-non-stored-flow", wit(leaked=len(leaked)))

            ctx.count("signals")
            problems, _ = check_signals(list(rec.events), before, after, store_before, list(v._store.keys()), updated_ids)
            for p in problems:
                ctx.violation("signals:" + p, wit(events=[e[:2] if e[0] != "refresh" else ("refresh", len(e[1])) for e in rec.events][:20], before=len(before), after=len(after)))
            ctx.seen("signal_sequences", f"{op}:" + ",".join(e[0] for e in rec.events)[:80])

    sig = (tuple(sorted(feats["ops"])), tuple(sorted(feats["orders"])), feats["marked_only"], feats["reversed"], min(feats["filters"], 3), n_ops, feats["silent_keychange"])
    nontrivial = feats["keychange"] and feats["ctl"] and feats["nonempty"]
    ctx.case(sig, nontrivial, {"history": hist[:40], "final_view_len": len(after) if n_ops else 0})


def sortable_with(cands, reverse):
    """Can one key be picked per position (from its sorted candidate list) so that the sequence is monotone?"""
    if reverse:
        cands = cands[::-1]
    cur = None
    for c in cands:
        pick = next((k for k in c if cur is None or k >= cur), None)
        if pick is None:
            return False
        cur = pick
    return True


def brief(f):
    if f is None:
        return None
    d = {"type": f["type"], "marked": f["marked"], "ts": f["ts"]}
    if f["type"] == "http":
        d.update(method=f["method"], path=f["path"], code=f["resp"]["code"] if f["resp"] else None)
    return d


def run(ctx):
    for _ in ctx.cases():
        ctx.guard(run_case, ctx, what="history")
