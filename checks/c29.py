"""C29 -- raw TCP and UDP relaying is exact and each flow ends once.

Engine A + fault enumeration.  The real TCPLayer / UDPLayer is the top layer of a sans-io driver (vf/sansio.py) that
records every event delivered to the layer and every command it yields.  A case = protocol x fault plan (upstream
connect fails / succeeds / already connected, client EOF after k of its messages or never, server EOF after j or never,
swept deterministically by case index) x random tagged messages both ways, addon edits in the tcp_message/udp_message
hook (same length, longer, shorter, empty), delayed hook completion, injected messages (TcpMessageInjected /
UdpMessageInjected) at random points, random schedule.  The oracle is the independent relay model vf/ref/c29_relay.py
run over the *delivered event sequence*; monitors:

  source     messages recorded by the flow (content before addon edits, direction) == the messages delivered/injected
             before the flow ended, per direction, in order, each once
  exact      SendData commands per connection == the recorded contents (after addon edits) of the messages destined
             to it, one command per message, in order
  halfclose  (TCP) when one side sent EOF and data still flowed the other way afterwards, the other connection got
             CloseTcpConnection(half_close=True) after the last message sent to it and was not closed before both sides
             were done
  single_end exactly one of tcp_end/tcp_error (udp_end/udp_error) fired once the connection handler is gone, with the
             kind the model expects (error iff the upstream connect failed)
  after_end  no SendData and no message hook after the end/error hook was started; no write after the layer's own close

Real-handler leg (engine B, vf/tcphandler.py; every 4th worker): the same TCPLayer inside the real ProxyConnectionHandler on
the virtual-time loop with in-memory sockets -- handle_connection (parked half-closed handlers), open_connection, hook tasks,
drain_writers, the inactivity watchdog, close_connection and the teardown of handle_client are mitmproxy's own asyncio code.
Plans: regular (next_layer -> TCPLayer) or reverse:tcp:// with eager/lazy connect; connect ok/hanging/slow or failing with each
OSError class with and without a message (refused, timeout, bare OSError, errno with empty text, unreachable, gaierror; a fixed
matrix error x message/bare x regular/eager/lazy walked by every 4th handler case, followed by client data); both peers
send timed data then EOF / reset / fall silent (half-closes from either side, data after the half-close); tcp_timeout 5 s or
600 s; drain() failing on either socket with each OSError class (ECONNRESET, EPIPE, ECONNABORTED = ConnectionError; ETIMEDOUT,
EHOSTUNREACH, ENETUNREACH, EIO = not), once or sticky with failing reads, at the 1st-3rd drain, as a fixed matrix walked by every
2nd handler case, followed by more data / closes from both sides; slow async tcp_start/tcp_message/tcp_end/tcp_error (and rarely server_* lifecycle)
hooks; edits.  Monitors once the handler has returned and all tasks have drained:
  handler.single_end  every flow that fired tcp_start fired exactly one of tcp_end / tcp_error, and no tcp_message after it
  handler.no_crash    the handler logged nothing at level ERROR ("mitmproxy has crashed!", "connection handler has crashed")
  handler.connect_failed  a failed connect gives exactly one tcp_error (flow.error set), no tcp_message, nothing relayed; eager: no flow
  handler.exact       per direction, what the peer's socket received is a prefix of the recorded (edited) message contents and
                      the recorded original contents are a prefix of what the other peer sent; in clean plans (both peers end
                      with EOF, nothing fails) both are equalities and the flow ends with tcp_end
"""
from mitmproxy import tcp as mtcp, udp as mudp
from mitmproxy.connection import ConnectionState
from mitmproxy.proxy import commands, events
from mitmproxy.proxy.layers import tcp as ltcp, udp as ludp

from vf import sansio
from vf.ref import c29_relay as ref

PROPERTY = "C29"
LEVEL = "fault_enumeration"
ENGINE = "sansio+vloop"
BUDGET = {"quick": (2000, 18), "thorough": (60000, 200)}
WORKERS = {"quick": 4, "thorough": 16}
REQUIRED = [
    "source", "exact", "halfclose", "single_end", "after_end", "fault.open_failed", "fault.client_eof_first", "fault.server_eof_first", "fault.eof_during_pending_hook", "injected",
    "handler.cases", "handler.single_end", "handler.no_crash", "handler.exact", "handler.exact_clean", "handler.halfclose_then_timeout", "handler.halfclose_then_data", "handler.idle_timeout", "handler.drain_error", "handler.data_after_drain_error", "fault.drain_oserror_non_connection", "fault.drain_connection_error", "handler.connect_failed", "connect.fails_with_empty_message", "connect.fails_with_message", "handler.reset", "handler.slow_hook",
]
TECHNIQUE = "runtime monitoring: fault-plan sweep on the sans-io driver + reference relay model over the delivered event sequence; fault plans on the real ConnectionHandler under virtual time"
RULE = (
    "case = protocol (tcp/udp) x fault plan [upstream connect: fails / ok / already connected; client EOF after k in 0..3 of its messages or "
    "never; server EOF after j in 0..3 or never] enumerated round-robin by case index, plus random tagged messages (0-4 per side), addon edit per "
    "message (keep/same-length/longer/shorter/empty), delayed hooks, 0-3 injections, random schedule; signature = (protocol, plan, edit kinds, "
    "#injected, #recorded class, which side's EOF was processed first, EOF-while-hook-pending, outcome hook); non-trivial iff a message was "
    "relayed or a fault (EOF / connect failure) happened together with an edit, an injection or a second fault. Real-handler leg (every 4th "
    "worker): case = random plan (mode, connect outcome, timed peer scripts ending in EOF/reset/silence, tcp_timeout, drain error, hook delays, "
    "edits); signature = (mode, connect, endings, timeout, drain fault, which hooks were slow, hook-name sequence class); non-trivial iff tcp_start fired"
)
ASSUMPTIONS = [
    "a peer's full close and half close are both an EOF on the proxy's read side (what ConnectionHandler.handle_connection reports); the difference only shows in whether later writes are possible",
    "the driver models ConnectionHandler: connection state changes at EOF time, events queue inside the layer while a hook is pending, teardown closes everything once the client handler is gone",
    "addon edits replace message.content; TCP/UDP messages have no drop flag",
    "an injected message 'from' a side that has already sent EOF cannot be delivered (the other connection's write half is closed): recording it is reported under its own mechanism",
]
LEVEL_TEXT = (
    "Fault enumeration: every combination of protocol, upstream-connect outcome and EOF position of either peer (incl. none) is visited round-robin "
    "with random message contents, edits, injections and schedules (so EOFs land before, during and after pending hooks); an independent sequential "
    "relay model over the delivered events decides what had to be recorded, sent, half-closed and which single end hook had to fire."
)
LEVEL_NOTE = (
    "Trusted: vf/sansio.py's model of ConnectionHandler (state change at EOF, one ConnectionClosed per connection, teardown) and vf/ref/c29_relay.py; "
    "for the real-handler leg vf/vloop.py (virtual-time loop, in-memory sockets) and vf/tcphandler.py -- there ConnectionHandler itself is the real code."
)

CLOSE_POS = [0, 1, 2, 3, None]
OPEN = ["ok", "ok", "fail", "pre"]
PLANS = [(p, o, c, s) for p in ("tcp", "udp") for o in OPEN for c in CLOSE_POS for s in CLOSE_POS]


class RecDriver(sansio.Driver):
    """Driver that additionally records the delivered events and yielded commands in the reference model's vocabulary."""

    def __init__(self, *a, **kw):
        self.fed = []
        self.cmds = []  # (feed index, kind, side, payload)
        self.recorded_pre = []  # (side, content) at the time the message hook is started
        self.recorded_post = []  # (side, content) when the hook completed
        self.self_closed = {}  # side -> "half" | "full"  (closed by the layer itself)
        self.extern_closed = set()  # sides whose transport is gone for reasons outside the layer
        super().__init__(*a, **kw)

    def side(self, conn):
        return "c" if conn is self.client else "s"

    def feed(self, ev):
        flow = self.top.flow
        if isinstance(ev, events.Start):
            self.fed.append(("start",))
        elif isinstance(ev, events.MessageInjected):
            self.fed.append(("data", "c" if ev.message.from_client else "s", bytes(ev.message.content), True))
        elif isinstance(ev, events.DataReceived):
            self.fed.append(("data", self.side(ev.connection), bytes(ev.data), False))
        elif isinstance(ev, events.ConnectionClosed):
            self.fed.append(("closed", self.side(ev.connection)))
            if ev.connection.state is ConnectionState.CLOSED:
                self.extern_closed.add(self.side(ev.connection))
        elif isinstance(ev, events.OpenConnectionCompleted):
            self.fed.append(("opendone", ev.reply))
        elif isinstance(ev, events.HookCompleted):
            self.fed.append(("hookdone", ev.command.name))
            if ev.command.name.endswith("_message"):
                m = flow.messages[-1]
                self.recorded_post.append(("c" if m.from_client else "s", bytes(m.content)))
        else:
            self.fed.append(("other", type(ev).__name__))
        super().feed(ev)

    def _command(self, cmd):
        i = len(self.fed) - 1
        if isinstance(cmd, commands.SendData):
            s = self.side(cmd.connection)
            writable = cmd.connection in self.transports and bool(cmd.connection.state & ConnectionState.CAN_WRITE)
            self.cmds.append((i, "send", s, bytes(cmd.data), writable))
        elif isinstance(cmd, commands.CloseTcpConnection) and cmd.half_close:
            s = self.side(cmd.connection)
            self.cmds.append((i, "half", s, None, None))
            self.self_closed.setdefault(s, "half")
        elif isinstance(cmd, commands.CloseConnection):
            s = self.side(cmd.connection)
            self.cmds.append((i, "close", s, None, None))
            self.self_closed[s] = "full"
        elif isinstance(cmd, commands.StartHook):
            self.cmds.append((i, "hook", cmd.name, None, None))
            if cmd.name.endswith("_message"):
                m = cmd.flow.messages[-1]
                self.recorded_pre.append(("c" if m.from_client else "s", bytes(m.content)))
        elif isinstance(cmd, commands.OpenConnection):
            self.cmds.append((i, "open", "s", None, None))
        super()._command(cmd)


def gen_msgs(r, side, n):
    out = []
    for k in range(n):
        ln = r.choice([0, 1, 1, 3, 8, 20, 200]) if side != "x" else 1
        body = bytes(r.getrandbits(8) for _ in range(ln))
        out.append(b"<%s%d:" % (side.encode(), k) + body + b">")
    return out


def make_policy(r, kinds, delays):
    def policy(drv, hook):
        if hook.name.endswith("_message"):
            m = hook.flow.messages[-1]
            a = r.choice(["keep", "keep", "same", "longer", "shorter", "empty"])
            if a == "same":
                m.content = bytes((b ^ 0x20) if 65 <= (b & 0xDF) <= 90 else b for b in m.content[::-1])
            elif a == "longer":
                m.content = m.content + b"+EDIT" * r.randint(1, 50)
            elif a == "shorter":
                m.content = m.content[: max(1, len(m.content) // 2)]
            elif a == "empty":
                m.content = b""
            kinds.add(a)
        if r.random() < 0.35:
            delays.append(hook.name)
            return "delay"
        return None

    return policy


def classify(kind, info):
    """Mechanism from the fault plan / delivered-event history only."""
    if info.get("proto") == "tcp" and info.get("undeliverable"):
        if kind == "write-after-own-close" or (kind == "recorded-differs-from-delivered" and info.get("only_undeliverable_extra")):
            return "tcp-message-injected-from-side-that-already-sent-eof"
    if info.get("proto") == "tcp" and info.get("eof_race") and info.get("data_between_racing_eofs") and kind in ("recorded-differs-from-delivered", "halfclose-not-propagated", "flow-closed-before-both-sides-done"):
        return "second-eof-arrives-while-first-eof-still-queued-behind-hook"
    return None


def run_case(ctx, opts, index):
    r = ctx.rng
    proto, open_mode, c_close, s_close = PLANS[(index * ctx.nworkers + ctx.worker) % len(PLANS)]
    n_c, n_s = r.randint(0, 4), r.randint(0, 4)
    c_msgs, s_msgs = gen_msgs(r, "c", n_c), gen_msgs(r, "s", n_s)
    c_segs = list(c_msgs) if c_close is None else c_msgs[:c_close] + [sansio.EOF]
    s_segs = list(s_msgs) if s_close is None else s_msgs[:s_close] + [sansio.EOF]
    kinds, delays = set(), []
    client = sansio.make_client("regular", transport=proto)
    Layer = ltcp.TCPLayer if proto == "tcp" else ludp.UDPLayer
    d = RecDriver(
        lambda c: Layer(c),
        client=client,
        options=opts,
        rng=r,
        policy=make_policy(r, kinds, delays),
        server_factory=lambda drv, conn: sansio.ScriptPeer(s_segs),
        open_plan=(lambda drv, conn, n: "connection refused") if open_mode == "fail" else None,
        schedule=r.choice(["random", "random", "fifo"]),
        complete_bias=r.choice([0.15, 0.5, 0.8]),
        max_steps=600,
    )
    server = d.context.server
    server.address = ("example.com", 443)
    server.transport_protocol = proto
    if open_mode == "pre":
        server.state = ConnectionState.OPEN
        server.timestamp_start = 1.5
        server.peername = ("example.com", 443)
        d.transports[server] = "server"
        d.servers.append(server)
        p = sansio.ScriptPeer(s_segs)
        d.peers[server] = p
        p.attach(d, server)
    d.attach_client_peer(sansio.ScriptPeer(c_segs))

    # injections: allowed once an addon has seen the flow (the *_start hook ran)
    flow = d.top.flow
    n_inj = r.choice([0, 0, 1, 2, 3])
    Inj, Msg = (ltcp.TcpMessageInjected, mtcp.TCPMessage) if proto == "tcp" else (ludp.UdpMessageInjected, mudp.UDPMessage)
    started = lambda drv: any(h[1].endswith("_start") for h in drv.hooks)  # noqa: E731
    for k in range(n_inj):
        fc = r.random() < 0.5
        content = gen_msgs(r, "i", 1)[0][:-1] + b"#%d>" % k
        after = r.randint(0, 6)
        gate = (lambda a: lambda drv: started(drv) and len(drv.fed) >= a + 3)(after)
        d.injected.append(("inj%d" % k, (lambda fc_, ct: lambda drv: Inj(flow, Msg(fc_, ct)))(fc, content), gate))

    d.start()
    d.run()
    quiescent_fed = len(d.fed)
    d.injected.clear()
    d.teardown()
    if d.budget_exceeded:
        ctx.count("inconclusive_cases")
        return None

    ex = ref.reference(proto, d.fed, preconnected=(open_mode == "pre"))
    ex2 = ref.reference(proto, d.fed, preconnected=(open_mode == "pre"), hook_undeliverable=True) if ex.undeliverable else ex
    hooks = [c for c in d.cmds if c[1] == "hook"]
    hook_names = [c[2] for c in hooks]
    info = {
        "proto": proto,
        "eof_race": ex.eof_race or ex2.eof_race,
        "data_between_racing_eofs": ex.data_between_racing_eofs or ex2.data_between_racing_eofs,
        "undeliverable": bool(ex.undeliverable),
    }
    witness = {
        "plan": {"proto": proto, "open": open_mode, "client_eof_after": c_close, "server_eof_after": s_close},
        "fed": [e if e[0] != "data" else (e[0], e[1], e[2][:24], e[3]) for e in d.fed][:80],
        "cmds": [(c[0], c[1], c[2], (c[3] or b"")[:24]) for c in d.cmds][:80],
        "exceptions": [e[:3] for e in d.exceptions],
        "anomalies": d.anomalies[:5],
        "model": {"end": ex.end_kind, "end_at": ex.end_at, "half": ex.half, "half_required": ex.half_required, "eof_race": ex.eof_race},
    }
    for e in d.exceptions:
        ctx.seen("layer_exceptions", f"{e[0]}@{e[1]}")
    ctx.seen("hook_sequences", ",".join(hook_names)[:300])

    # ---- source: recorded (pre-edit) == delivered before the end, per direction
    ctx.count("source")
    for side in "cs":
        want = [m[1] for m in ex.recorded if m[0] == side and m[5]]
        want_all = [m[1] for m in ex.recorded if m[0] == side]
        got = [c for s, c in d.recorded_pre if s == side]
        if want != got:
            info["only_undeliverable_extra"] = got == want_all
            ctx.violation(
                "recorded-differs-from-delivered",
                {**witness, "side": side, "delivered": [w[:24] for w in want], "recorded": [g[:24] for g in got]},
                classify("recorded-differs-from-delivered", info),
            )
    if ex.undeliverable:
        ctx.count("inject_after_source_eof")

    # ---- exact: SendData per connection == recorded post-edit contents destined to it
    ctx.count("exact")
    for side in "cs":
        want = [c for s, c in d.recorded_post if ref.OTHER[s] == side]
        got = [c[3] for c in d.cmds if c[1] == "send" and c[2] == side]
        if want != got:
            ctx.violation(
                "sends-differ-from-recorded",
                {**witness, "to": side, "recorded_after_edit": [w[:24] for w in want], "sent": [g[:24] for g in got]},
                classify("sends-differ-from-recorded", info),
            )
        # the wire itself (driver bookkeeping): what the peer got is the concatenation of the writable sends
        conn = client if side == "c" else server
        wire = b"".join(c[3] for c in d.cmds if c[1] == "send" and c[2] == side and c[4])
        if bytes(d.out[conn]) != wire:
            ctx.violation("peer-bytes-differ-from-sends", {**witness, "to": side, "peer": bytes(d.out[conn])[:200], "sends": wire[:200]})

    # ---- halfclose
    if proto == "tcp":
        for wside, n_before in ex.half.items():
            if not ex.half_required.get(wside):
                continue
            ctx.count("halfclose")
            seq = [c for c in d.cmds if c[2] == wside and c[1] in ("send", "half", "close")]
            kinds_seq = [c[1] for c in seq]
            ok = "half" in kinds_seq
            if ok:
                hi = kinds_seq.index("half")
                ok = kinds_seq[:hi].count("send") == n_before and "close" not in kinds_seq[:hi]
                # not fully closed before the model's end
                for c in seq[hi:]:
                    if c[1] == "close" and (ex.end_at is None or c[0] < ex.end_at):
                        ok = False
            if not ok:
                ctx.violation("halfclose-not-propagated", {**witness, "write_side": wside, "its_commands": kinds_seq}, classify("halfclose-not-propagated", info))
    # no close of either side / end hook before the model says the flow is over
    ctx.count("no_early_close")
    for c in d.cmds:
        early = ex.end_at is None or c[0] < ex.end_at
        if early and (c[1] == "close" or (c[1] == "hook" and c[2].endswith(("_end", "_error")))):
            ctx.violation("flow-closed-before-both-sides-done", {**witness, "command": c[:3]}, classify("flow-closed-before-both-sides-done", info))
            break

    # ---- single end
    ctx.count("single_end")
    ends = [n for n in hook_names if n.endswith("_end")]
    errs = [n for n in hook_names if n.endswith("_error")]
    if len(ends) + len(errs) != 1:
        ctx.violation("end-hooks-not-exactly-one", {**witness, "end": len(ends), "error": len(errs)}, classify("end-hooks-not-exactly-one", info))
    elif ex.end_kind and (("end" if ends else "error") != ex.end_kind):
        ctx.violation("wrong-kind-of-end-hook", {**witness, "got": ends + errs, "model": ex.end_kind}, classify("wrong-kind-of-end-hook", info))
    if flow.live and (ends or errs) and ends:
        ctx.violation("flow-still-live-after-end", witness)

    # ---- after end: nothing relayed after the end/error hook, nothing written after the layer's own close
    ctx.count("after_end")
    ended = False
    closed_by_layer = {}
    for c in d.cmds:
        if c[1] == "hook" and c[2].endswith(("_end", "_error")):
            ended = True
        elif ended and (c[1] == "send" or (c[1] == "hook" and c[2].endswith("_message"))):
            ctx.violation("relayed-after-end-hook", {**witness, "command": c[:3]}, classify("relayed-after-end-hook", info))
            break
        if c[1] in ("half", "close"):
            closed_by_layer[c[2]] = c[1]
        elif c[1] == "send" and c[2] in closed_by_layer:
            ctx.violation("write-after-own-close", {**witness, "to": c[2], "closed": closed_by_layer[c[2]]}, classify("write-after-own-close", info))
            break

    # ---- evidence
    first_eof = min(ex.eof_fed_at, key=ex.eof_fed_at.get) if ex.eof_fed_at else None
    if open_mode == "fail":
        ctx.count("fault.open_failed")
    if first_eof == "c":
        ctx.count("fault.client_eof_first")
    if first_eof == "s":
        ctx.count("fault.server_eof_first")
    eof_pending = any(ex.processed_at.get(i, i) > i for i in ex.eof_fed_at.values())
    if eof_pending:
        ctx.count("fault.eof_during_pending_hook")
    if ex.eof_race:
        ctx.count("fault.eof_race")
    n_inj_rec = sum(1 for m in ex.recorded if m[2] and m[5])
    if n_inj_rec:
        ctx.count("injected", n_inj_rec)
    if any(ex.half_required.values()):
        ctx.count("data_after_halfclose")
    relayed = len(d.recorded_post)
    faults = (open_mode == "fail") + len(ex.eof_fed_at)
    sig = (proto, open_mode, c_close, s_close, tuple(sorted(kinds)), min(n_inj_rec, 2), min(relayed, 3), first_eof, eof_pending, ex.eof_race, (ends + errs + ["none"])[0])
    nontrivial = relayed > 0 or (faults > 0 and (bool(kinds - {"keep"}) or n_inj > 0 or faults > 1))
    sample = {"plan": witness["plan"], "fed": witness["fed"][:30], "hooks": hook_names[:30], "quiescent_after": quiescent_fed}
    return sig, nontrivial, sample


def classify_handler(kind, info):
    """Mechanisms for the real-handler leg, from the plan / recorded history only."""
    if kind in ("handler:end-hooks-not-exactly-one", "handler:recorded-less-than-sent", "handler:peer-got-less-than-recorded") and info.get("lifecycle_hook_cancelled") and info.get("outcomes") == 0:
        return "no-outcome-when-upstream-attempt-cancelled-inside-lifecycle-hook"
    if kind == "handler:end-hooks-not-exactly-one" and info.get("outcomes") == 0 and info.get("upstream_attempt_started_after_client_handler_finished"):
        return "upstream-opened-after-client-handler-finished-is-never-torn-down"
    if kind == "handler:peer-got-less-than-recorded" and info.get("undelivered_all_pending_at_client_end"):
        return "client-side-finished-while-tcp_message-hook-pending-teardown-drops-message"
    if kind in ("handler:recorded-less-than-sent", "handler:peer-got-less-than-recorded") and info.get("eof_race"):
        return "second-eof-arrives-while-first-eof-still-queued-behind-hook"
    return None


def run_handler(ctx):
    from vf import tcphandler as th

    for i in ctx.cases():
        r = ctx.rng
        # handler cases alternate: fixed drain-fault matrix (errno class x socket x n-th drain x one-shot/sticky), random plan, fixed
        # connect-failure matrix (error class with/without message x regular / reverse eager / reverse lazy), random plan
        lane = max(1, ctx.nworkers // 4)
        if i % 4 == 0:
            plan = th.matrix_plan(r, (i // 4) * lane + ctx.worker // 4)
        elif i % 4 == 2:
            plan = th.connect_matrix_plan(r, (i // 4) * lane + ctx.worker // 4)
        else:
            plan = th.gen_plan(r)
        try:
            res = th.run_plan(plan)
        except Exception as e:  # noqa
            import traceback

            ctx.violation("handler:harness-or-handler-exception", {"plan": plan, "exc": repr(e), "tb": traceback.format_exc()[-800:]})
            ctx.case(("handler", "exception"), False)
            continue
        if res.deadlock:
            ctx.count("handler.never_ended")  # silent peers and no timeout that would end the run: nothing to judge
            ctx.case(("handler", "never-ended"), False)
            continue
        ctx.count("handler.cases")
        names = res.names()
        tcp = [h for h in res.hooks if h["name"] in th.TCP_HOOKS]
        msgs = [h for h in tcp if h["name"] == "tcp_message"]
        cancelled = sorted({h["name"] for h in res.hooks if h["cancelled"]})
        life = [n for n in cancelled if n in ("server_connect", "server_connected", "server_connect_error")]
        fed = res.fed
        eof_t = {s: next((t for t, k, _ in fed[s] if k == "eof"), None) for s in "cs"}
        # EOF of both peers (and data in between) delivered while one tcp hook was still being handled -> engine A's finding
        eof_race = False
        if eof_t["c"] is not None and eof_t["s"] is not None:
            lo, hi = sorted((eof_t["c"], eof_t["s"]))
            second = "c" if eof_t["c"] > eof_t["s"] else "s"
            if any(h["t0"] <= lo and (h["t1"] is None or h["t1"] >= hi) for h in tcp if h["name"] in ("tcp_start", "tcp_message")) or (res.connected and not any(h["name"] == "tcp_start" and h["t1"] is not None and h["t1"] <= lo for h in tcp)):
                eof_race = any(k == "data" and lo <= t <= hi for t, k, _ in fed[second])
        started = [h for h in tcp if h["name"] == "tcp_start"]
        ends = [h for h in tcp if h["name"] in ("tcp_end", "tcp_error")]
        t_gone = next((h["t0"] for h in res.hooks if h["name"] == "client_disconnected"), None)
        t_dial = next((h["t0"] for h in res.hooks if h["name"] == "server_connect"), None)
        info = {
            "lifecycle_hook_cancelled": bool(life),
            "outcomes": len(ends),
            "eof_race": eof_race,
            # the client handler (and with it handle_client's teardown and the inactivity watchdog) was already finished when the
            # layer, resumed by a slow tcp_start hook, asked for the upstream connection
            "upstream_attempt_started_after_client_handler_finished": t_gone is not None and t_dial is not None and t_dial >= t_gone - 1e-3,
        }
        if info["upstream_attempt_started_after_client_handler_finished"]:
            ctx.count("handler.upstream_opened_after_client_left")
        witness = {
            "leg": "handler",
            "plan": plan,
            "hooks": [(round(h["t0"] - 1_000_000, 3), h["name"], "cancelled" if h["cancelled"] else "") for h in res.hooks][:50],
            "fed": {s: [(round(t - 1_000_000, 3), k, p[:12]) for t, k, p in fed[s]] for s in "cs"},
            "error_logs": [(round(t - 1_000_000, 3), m, tb[-300:]) for t, m, tb in res.error_logs][:3],
            "closed_at": {k: round(v - 1_000_000, 3) for k, v in res.closed_at.items()},
            "cancelled_hooks": cancelled,
            "tasks_left_at_quiescence": res.tasks_left[:5],
        }
        # ---- no crash
        ctx.count("handler.no_crash")
        if res.error_logs:
            ctx.violation("handler:error-logged:" + res.error_logs[0][1][:40], witness, classify_handler("handler:error-logged", info))
        # ---- single end
        if started:
            ctx.count("handler.single_end")
            if len(ends) != 1:
                ctx.violation("handler:end-hooks-not-exactly-one", {**witness, "end": [h["name"] for h in ends]}, classify_handler("handler:end-hooks-not-exactly-one", info))
            elif any(m["t0"] > ends[0]["t0"] for m in msgs):
                ctx.violation("handler:message-hook-after-end-hook", witness)
            elif plan["clean"] and ends[0]["name"] != "tcp_end":
                ctx.violation("handler:clean-plan-ended-with-error", witness)
            elif ends[0]["name"] == "tcp_end" and any(f.live for f in res.flows.values()):
                ctx.violation("handler:flow-still-live-after-tcp_end", witness)
            elif ends[0]["name"] == "tcp_error" and any(f.live for f in res.flows.values()):
                ctx.count("handler.flow_live_after_tcp_error")  # not part of the statement: counted only
        # ---- a failed upstream connect: the flow (if one exists) ends with tcp_error and relays nothing; eager: no flow at all
        if res.connect_failures and not res.connected:
            ctx.count("handler.connect_failed")
            ctx.count("connect.fails_with_empty_message" if res.connect_failures[0][2] == "" else "connect.fails_with_message")
            ctx.seen("connect_failure_cells", f"{res.connect_failures[0][1]}/{plan['mode']}/{plan['connection_strategy']}/flow={bool(started)}")
            eager = plan["mode"] == "reverse" and plan["connection_strategy"] == "eager"
            if eager and started:
                ctx.violation("handler:tcp-flow-created-although-eager-connect-failed", witness)
            elif started and not life:
                if msgs:
                    ctx.violation("handler:message-relayed-although-connect-failed", {**witness, "messages": [m["pre"][:12] for m in msgs]})
                elif len(ends) == 1 and ends[0]["name"] != "tcp_error":
                    ctx.violation("handler:failed-connect-ended-with-tcp_end", witness)
                elif any(f.error is None for f in res.flows.values()):
                    ctx.violation("handler:failed-connect-flow-without-error", witness)
        # ---- exactness per direction
        t_client_end = next((h["t0"] for h in res.hooks if h["name"] == "client_disconnected"), None)
        clean = plan["clean"]
        if clean and started and t_client_end is not None and started[0]["t0"] >= t_client_end - 1e-3:
            # the client had half-closed without sending anything and NextLayer gave up on it before the TCP flow existed
            clean = False
            ctx.count("handler.flow_started_after_client_left")
        if started:
            ctx.count("handler.exact")
            if clean:
                ctx.count("handler.exact_clean")
            for side, got, other in (("c", res.server_got, "s"), ("s", res.client_got, "c")):
                sent = [p for _, k, p in fed[side] if k == "data"]
                pre = [m["pre"] for m in msgs if m["from_client"] == (side == "c")]
                post = b"".join(m.get("post", m["pre"]) for m in msgs if m["from_client"] == (side == "c"))
                if pre != sent[: len(pre)]:
                    ctx.violation("handler:recorded-differs-from-sent", {**witness, "from": side, "sent": [x[:12] for x in sent], "recorded": [x[:12] for x in pre]})
                elif clean and len(pre) != len(sent):
                    ctx.violation("handler:recorded-less-than-sent", {**witness, "from": side, "sent": len(sent), "recorded": len(pre)}, classify_handler("handler:recorded-less-than-sent", info))
                if not post.startswith(got):
                    ctx.violation("handler:peer-got-bytes-not-recorded", {**witness, "to": other, "peer_got": got[:80], "recorded": post[:80]})
                elif clean and got != post:
                    # which recorded messages did not arrive, and was each of them still inside its hook when the client side of
                    # the connection was finished (client read EOF after its write half had been closed -> handle_client tears
                    # everything down without waiting for pending hooks)?
                    mine = [m for m in msgs if m["from_client"] == (side == "c")]
                    acc, undelivered = 0, []
                    for m in mine:
                        acc += len(m.get("post", m["pre"]))
                        if acc > len(got):
                            undelivered.append(m)
                    # (messages are handled one after the other: if the first undelivered one left its hook only after the client
                    # side was finished, so did all later ones)
                    info["undelivered_all_pending_at_client_end"] = bool(undelivered) and t_client_end is not None and (undelivered[0]["t1"] or 1e18) >= t_client_end - 1e-3
                    ctx.violation("handler:peer-got-less-than-recorded", {**witness, "to": other, "peer_got": len(got), "recorded": len(post)}, classify_handler("handler:peer-got-less-than-recorded", info))
        # ---- evidence
        first_eof = min((s for s in "cs" if eof_t[s] is not None), key=lambda s: eof_t[s], default=None)
        idle_timeout = plan["tcp_timeout"] == 5 and "timeout" not in ("",) and (plan["client_end"] == "silent" or plan["origin_end"] == "silent")
        if first_eof and started and idle_timeout and (plan["client_end"] == "silent" or plan["origin_end"] == "silent"):
            ctx.count("handler.halfclose_then_timeout")
        if first_eof and any(k == "data" and t > eof_t[first_eof] for t, k, _ in fed[ref.OTHER[first_eof]]):
            ctx.count("handler.halfclose_then_data")
        if idle_timeout and started:
            ctx.count("handler.idle_timeout")
        if res.drain_errors:
            ctx.count("handler.drain_error")
            ctx.count("fault.drain_oserror_non_connection" if res.drain_errors[0][2] in th.NON_CONNECTION else "fault.drain_connection_error")
            ctx.seen("drain_fault_cells", f"{res.drain_errors[0][2]}/{res.drain_errors[0][1]}/{'sticky' if res.drain_errors[0][3] else 'once'}/more-data-after={any(k == 'data' and t > res.drain_errors[0][0] for s_ in 'cs' for t, k, _ in fed[s_])}")
            if any(k == "data" and t > res.drain_errors[0][0] for s_ in "cs" for t, k, _ in fed[s_]):
                ctx.count("handler.data_after_drain_error")
        if any(k == "reset" for s in "cs" for _, k, _ in fed[s]):
            ctx.count("handler.reset")
        slow = sorted({h["name"] for h in tcp if h["t1"] is not None and h["t1"] - h["t0"] > 0.1})
        if slow:
            ctx.count("handler.slow_hook")
        for n in cancelled:
            ctx.count("handler.hook_cancelled." + n)
        if eof_race:
            ctx.count("handler.eof_race")
        seq = tuple(n for n in names if n.startswith("tcp_"))
        sig = ("handler", plan.get("matrix"), plan["mode"], plan["connection_strategy"], plan["connect"], plan["client_end"], plan["origin_end"], plan["tcp_timeout"], bool(plan["drain_fault"]), tuple(slow), tuple(cancelled), (seq[:1], len(seq), seq[-1:]))
        ctx.seen("handler_hook_sequences", ",".join(names)[:300])
        ctx.case(sig, bool(started), {"leg": "handler", "plan": {k: plan[k] for k in ("mode", "connect", "client", "origin", "tcp_timeout", "drain_fault")}, "hooks": names})


def run(ctx):
    if ctx.worker % 4 == 3:
        return run_handler(ctx)
    tctx, _ = sansio.addon_context()
    opts = tctx.options
    for i in ctx.cases():
        res = ctx.guard(run_case, ctx, opts, i, what="c29 case")
        if res is None:
            ctx.case(("aborted",), False)
            continue
        ctx.case(*res)
