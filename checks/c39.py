"""C39 -- stream saving writes each completed flow once and keeps open flows at shutdown.

History monitor (M1) on the real ``mitmproxy.addons.save.Save`` addon inside ``taddons.context()`` with the
real ``FilteredFlowWriter`` writing to real files in a private temp directory.

A case schedules 2-10 concurrent flows of every type (plain HTTP ending in response / error / error without
request, WebSocket upgrades ending in websocket_end / killed at the 101 response, TCP and UDP ending in
end / error, DNS ending in response / error; any of them may be left open), interleaves their lifecycle
hooks arbitrarily and mixes in global operations: filter changes, path changes (three path specs, one with a
strftime field driven by a fake clock => rotation, one in a sub directory, each in overwrite or ``+`` append
mode), clock ticks, stop saving (option unset), start again, and finally ``done()`` at any point.

The model (own code) tracks: saving active?, current filter (evaluated by an own predicate table from
facts the generator fixed -- never by mitmproxy.flowfilter), flows that started while active and have not
completed, the formatted current path, and the expected record list of every file.  After EVERY step all
files are re-read through a fresh file descriptor; the newly appended bytes are framed and decoded by an
independent tnetstring reader (vf/ref/c39_tnet_frames.py) and compared with what the model expects for
that step (exactly one record of the completing flow with the flow's content at completion, nothing for
non-matching flows, nothing before completion, one record per still-open matching flow when saving
stops).  Existing bytes must never change except when the model re-opens a path in overwrite mode.  When
saving stops and at the end, every file is also parsed with the real FlowReader and compared with the
model and with the independent frame count.
"""
import os
import shutil

from mitmproxy import flow
from mitmproxy import io
from mitmproxy import tcp
from mitmproxy import udp
from mitmproxy import websocket
from mitmproxy.addons import save
from mitmproxy.test import taddons
from mitmproxy.test import tflow
from mitmproxy.test import tutils
from vf.ref import c39_tnet_frames as tn
from wsproto.frame_protocol import Opcode

PROPERTY = "C39"
LEVEL = "exploration"
BUDGET = {"quick": (400, 13), "thorough": (4000, 200)}
WORKERS = {"quick": 2, "thorough": 16}
REQUIRED = [
    "completion_appends_exactly_one",
    "nonmatching_never_written",
    "nothing_before_completion",
    "stop_writes_open_flows_once",
    "reader_agrees_with_model",
    "frame_counter_agrees",
]
ENGINE = "direct"
TECHNIQUE = "model-based history monitor on the real addon and real files, independent tnetstring framing"
RULE = (
    "case = 2-10 flows with lifecycles drawn from 16 kinds (http ok/err/err-without-request/open, websocket ok/killed-at-101/open, "
    "tcp|udp end/error/open, dns response/error/open), hooks interleaved by a random scheduler with global operations (filter from a "
    "13-entry table, path spec from 3 x {overwrite, append}, clock tick => rotation, stop, start) and done() at a random point; "
    "distinct = (set of lifecycle kinds, #flows bucket, #filters used, rotation seen, stop/restart seen, append used, #flows open at "
    "shutdown bucket, non-matching completion seen) signature; non-trivial = hooks of at least two flows overlap AND at least one "
    "record was written AND at least one global operation happened"
)
ASSUMPTIONS = [
    "hooks of one flow arrive in the order the proxy layers emit them (request before response/error, *_start before *_end/*_error, a WebSocket flow's response hook precedes websocket_start)",
    "a WebSocket upgrade killed at its 101 response receives `error` but never `websocket_end`; the statement names only websocket_end as completion of a WebSocket flow, so such a flow counts as open until saving stops",
    "a new file is opened exactly when the formatted path string changes (option help text); re-setting the same formatted path with a different mode does not re-open",
    "records written when saving stops may go to whichever file is open at that moment",
    "the filter is evaluated on the flow as it is at the time of completion / stop",
]
LEVEL_TEXT = (
    "Random interleavings of complete and incomplete lifecycles of all flow types with filter/path/rotation/stop/start operations are "
    "run against the real addon and checked after every single hook by re-reading the files. The space of histories is sampled "
    "(thousands of distinct operation mixes), not enumerated, hence exploration."
)
LEVEL_NOTE = "Trusted: the lifecycle grammar above mirrors the hook orders of the proxy layers; the fake clock replaces save.datetime only."

# --------------------------------------------------------------------------------------------
# lifecycles: list of hook names; '*' marks steps that may repeat
# --------------------------------------------------------------------------------------------
LIFECYCLES = {
    "http_ok": ["request", "response"],
    "http_err": ["request", "error"],
    "http_err_noreq": ["error"],
    "http_open": ["request"],
    "ws_ok": ["request", "response", "websocket_start", "websocket_message*", "websocket_end"],
    "ws_killed": ["request", "response", "error"],
    "ws_open": ["request", "response", "websocket_start", "websocket_message*"],
    "tcp_ok": ["tcp_start", "tcp_message*", "tcp_end"],
    "tcp_err": ["tcp_start", "tcp_message*", "tcp_error"],
    "tcp_open": ["tcp_start", "tcp_message*"],
    "udp_ok": ["udp_start", "udp_message*", "udp_end"],
    "udp_err": ["udp_start", "udp_message*", "udp_error"],
    "udp_open": ["udp_start", "udp_message*"],
    "dns_ok": ["dns_request", "dns_response"],
    "dns_err": ["dns_request", "dns_error"],
    "dns_open": ["dns_request"],
}
KINDS = sorted(LIFECYCLES)
START_HOOKS = {"request", "tcp_start", "udp_start", "dns_request"}

# filter table: text -> own predicate over model facts
FILTERS = {
    None: lambda m: True,
    "~http": lambda m: m.typ == "http",
    "~tcp": lambda m: m.typ == "tcp",
    "~udp": lambda m: m.typ == "udp",
    "~dns": lambda m: m.typ == "dns",
    "~websocket": lambda m: m.typ == "http" and m.ws,
    "~e": lambda m: m.has_error,
    "~s": lambda m: m.typ in ("http", "dns") and m.has_response,
    "~marked": lambda m: m.marked,
    "!~tcp": lambda m: m.typ != "tcp",
    "~tcp | ~dns": lambda m: m.typ in ("tcp", "dns"),
    "~http & !~websocket": lambda m: m.typ == "http" and not m.ws,
    "~comment keep": lambda m: m.comment == "keep",
}
FILTER_KEYS = list(FILTERS)


class MFlow:
    """Model-side facts about one flow (the generator fixes them; the real flow object is mutated alongside)."""

    def __init__(self, idx, kind, steps, real):
        self.idx = idx
        self.kind = kind
        self.steps = steps
        self.pos = 0
        self.real = real
        self.typ = real.type
        self.ws = False
        self.has_response = False
        self.has_error = False
        self.marked = bool(real.marked)
        self.comment = real.comment
        self.nmsg = 0
        self.started_while_active = False
        self.completed = False

    def fp(self):
        if self.typ in ("tcp", "udp"):
            n = self.nmsg
        elif self.typ == "http":
            n = self.nmsg if self.ws else -1
        else:
            n = -1
        return (self.real.id, self.typ, n, self.has_response if self.typ in ("http", "dns") else None, self.has_error)


def real_fp(f):
    typ = f.type
    if typ in ("tcp", "udp"):
        n = len(f.messages)
    elif typ == "http":
        n = len(f.websocket.messages) if f.websocket else -1
    else:
        n = -1
    return (f.id, typ, n, (f.response is not None) if typ in ("http", "dns") else None, f.error is not None)


def make_real(kind, r, ident):
    fam = kind.split("_")[0]
    if fam in ("http", "ws"):
        f = tflow.tflow()
    elif fam == "tcp":
        f = tflow.ttcpflow(messages=[])
    elif fam == "udp":
        f = tflow.tudpflow(messages=[])
    else:
        f = tflow.tdnsflow()
    f.id = ident
    if r.random() < 0.3:
        f.marked = ":red_circle:"
    if r.random() < 0.3:
        f.comment = "keep"
    return f


def expand(kind, r):
    steps = []
    for s in LIFECYCLES[kind]:
        if s.endswith("*"):
            steps += [s[:-1]] * r.randint(0, 3)
        else:
            steps.append(s)
    return steps


def is_completion(m, hook):
    """Completion per the statement: response/error for plain HTTP, websocket_end, tcp/udp end|error, dns response|error."""
    if hook in ("tcp_end", "tcp_error", "udp_end", "udp_error", "dns_response", "dns_error", "websocket_end"):
        return True
    if hook in ("response", "error"):
        return not m.ws
    return False


def apply_hook_mutation(m, hook, r):
    """What the proxy layer does to the flow object before emitting the hook (and the model's mirror of it)."""
    f = m.real
    if hook == "response":
        if m.kind.startswith("ws_"):
            f.response = tutils.tresp(status_code=101)
            f.websocket = websocket.WebSocketData()
            m.ws = True
        else:
            f.response = tutils.tresp()
        m.has_response = True
    elif hook in ("error", "tcp_error", "udp_error", "dns_error"):
        f.error = flow.Error("boom", 946681207.0)
        m.has_error = True
    elif hook == "websocket_message":
        f.websocket.messages.append(websocket.WebSocketMessage(Opcode.TEXT, r.random() < 0.5, b"ws-%d" % m.nmsg, 946681206.0))
        m.nmsg += 1
    elif hook == "websocket_end":
        f.websocket.close_code = 1000
        f.websocket.timestamp_end = 946681208.0
    elif hook == "tcp_message":
        f.messages.append(tcp.TCPMessage(r.random() < 0.5, b"t-%d" % m.nmsg, 946681206.0))
        m.nmsg += 1
    elif hook == "udp_message":
        f.messages.append(udp.UDPMessage(r.random() < 0.5, b"u-%d" % m.nmsg, 946681206.0))
        m.nmsg += 1
    elif hook == "dns_response":
        f.response = f.request.succeed([])
        f.response.timestamp = 946681207.0
        m.has_response = True


class FakeDateTime:
    """Stands in for ``datetime`` inside mitmproxy.addons.save: today() is driven by the case's clock."""

    minute = 0

    @classmethod
    def today(cls):
        import datetime as _dt

        return _dt.datetime(2020, 1, 1, 12, cls.minute % 60, 0)


def fmt_path(spec, minute):
    p = spec[1:] if spec.startswith("+") else spec
    return p.replace("%M", f"{minute % 60:02d}")


def classify(kind, info):
    """No mechanism is known for this property; every violation is reported as new."""
    return None


def read_files(root):
    out = {}
    for d, _dirs, files in os.walk(root):
        for fn in files:
            p = os.path.join(d, fn)
            with open(p, "rb") as fh:
                out[p] = fh.read()
    return out


def run_case(ctx, r, root):
    os.makedirs(root, exist_ok=True)
    specs = [os.path.join(root, "a.flows"), os.path.join(root, "b-%M.flows"), os.path.join(root, "sub", "c.flows")]
    nflows = r.randint(2, 10)
    flows = []
    for k in range(nflows):
        kind = r.choice(KINDS)
        flows.append(MFlow(k, kind, expand(kind, r), make_real(kind, r, f"case{ctx.case_index}-w{ctx.worker}-flow{k}")))

    # ---- model state
    active = False
    cur_spec = None
    cur_path = None
    cur_filter = None
    minute = r.randrange(50)
    records = {}  # path -> list of fingerprints
    prev_bytes = {}  # path -> bytes seen after previous step
    hist = []
    feats = {"rotation": False, "stop": False, "restart": False, "append": False, "nonmatch_completion": False, "filters": set(), "wrote": 0, "globals": 0, "overlap": False}
    in_flight = set()

    def W(extra):
        return {"history": hist[-30:], "filter": cur_filter, "spec": cur_spec and cur_spec.replace(root, "<tmp>"), "minute": minute, **extra}

    def model_open(path, spec, reopened):
        nonlocal cur_path
        if path != cur_path:
            if not spec.startswith("+"):
                records[path] = []
                reopened.add(path)
            else:
                records.setdefault(path, [])
                feats["append"] = True
            if cur_path is not None:
                feats["rotation"] = True
            cur_path = path

    def verify(step_kind, expected_new, reopened, any_file=False):
        """expected_new: list of (path, fp) for this step (path None = any single file)."""
        now = read_files(root)
        new_by_path = {}
        for p, data in now.items():
            old = prev_bytes.get(p, b"")
            if p in reopened:
                tail = data
            elif data.startswith(old):
                tail = data[len(old) :]
            else:
                ctx.violation("existing-bytes-changed", W({"path": p.replace(root, "<tmp>"), "old_len": len(old), "new_len": len(data)}), classify("existing-bytes-changed", {}))
                tail = data
                records[p] = []  # resynchronise the model with what is on disk
            if tail:
                vals, err = tn.decode_records(tail)
                if err:
                    ctx.violation("appended-bytes-not-whole-records", W({"path": p.replace(root, "<tmp>"), "err": err, "tail_len": len(tail)}), None)
                new_by_path[p] = [tn.fingerprint(v) for v in vals if isinstance(v, dict)]
        for p in prev_bytes:
            if p not in now and prev_bytes[p]:
                ctx.violation("file-vanished", W({"path": p.replace(root, "<tmp>")}), None)
        prev_bytes.clear()
        prev_bytes.update(now)
        got_in_file_order = [(p, fp) for p, fps in new_by_path.items() for fp in fps]
        got = sorted(got_in_file_order)
        if any_file:
            files_used = {p for p, _ in got}
            ok = sorted(fp for _, fp in got) == sorted(fp for _, fp in expected_new) and len(files_used) <= 1
            if ok:
                for p, fp in got_in_file_order:  # the order among the flows written at stop is unspecified
                    records.setdefault(p, []).append(fp)
        else:
            ok = got == sorted(expected_new)
            if ok:
                for p, fp in expected_new:
                    records.setdefault(p, []).append(fp)
        if not ok:
            exp_ids = sorted(fp[0] for _, fp in expected_new)
            got_ids = sorted(fp[0] for _, fp in got)
            if len(got_ids) > len(exp_ids):
                kind = "extra-record"
            elif len(got_ids) < len(exp_ids):
                kind = "missing-record"
            elif got_ids != exp_ids:
                kind = "wrong-flow-written"
            elif sorted(fp for _, fp in got) != sorted(fp for _, fp in expected_new):
                kind = "record-content-differs"
            else:
                kind = "record-in-wrong-file"
            ctx.violation(
                f"{step_kind}:{kind}",
                W({"expected": [(p and p.replace(root, "<tmp>"), fp) for p, fp in expected_new], "got": [(p.replace(root, "<tmp>"), fp) for p, fp in got]}),
                classify(kind, {}),
            )
            # resynchronise
            for p, fp in got_in_file_order:
                records.setdefault(p, []).append(fp)
        feats["wrote"] += len(got)

    def full_read_check():
        """Real FlowReader and independent frame counter on every file vs the model."""
        for p, data in read_files(root).items():
            spans, err = tn.frames(data)
            ctx.count("frame_counter_agrees")
            exp = records.get(p, [])
            if err or len(spans) != len(exp):
                ctx.violation("frame-count-differs", W({"path": p.replace(root, "<tmp>"), "frames": len(spans), "err": err, "model": len(exp)}), None)
            ctx.count("reader_agrees_with_model")
            try:
                with open(p, "rb") as fh:
                    got = [real_fp(f) for f in io.FlowReader(fh).stream()]
            except Exception as e:  # the reader must accept what the writer produced
                ctx.violation("reader-rejects-stream-file", W({"path": p.replace(root, "<tmp>"), "exc": repr(e)}), None)
                continue
            if got != exp:
                ctx.violation("reader-differs-from-model", W({"path": p.replace(root, "<tmp>"), "reader": got, "model": exp}), None)

    def open_matching():
        flt = FILTERS[cur_filter]
        return [(None, m.fp()) for m in flows if m.started_while_active and not m.completed and flt(m)]

    def stop_model():
        nonlocal active, cur_path, cur_spec
        exp = open_matching() if active else []
        for m in flows:
            m.started_while_active = False
        active = False
        cur_path = None
        return exp

    sa = save.Save()
    old_dt = save.datetime
    save.datetime = FakeDateTime
    FakeDateTime.minute = minute
    try:
        with taddons.context(sa) as tctx:
            total_steps = sum(len(m.steps) for m in flows)
            shutdown_after = r.randint(max(1, total_steps // 2), total_steps + 6)
            step = 0
            # start active most of the time
            pending_globals = ["start"] if r.random() < 0.75 else []
            while step < shutdown_after:
                step += 1
                runnable = [m for m in flows if m.pos < len(m.steps)]
                do_global = pending_globals or r.random() < 0.22 or not runnable
                reopened = set()
                if do_global:
                    feats["globals"] += 1
                    op = pending_globals.pop() if pending_globals else r.choice(["filter", "filter", "path", "tick", "tick", "stop", "start"])
                    if op == "filter":
                        cur_filter = r.choice(FILTER_KEYS)
                        feats["filters"].add(cur_filter)
                        hist.append(f"filter={cur_filter}")
                        tctx.configure(sa, save_stream_filter=cur_filter)
                        ctx.count("config_change_writes_nothing")
                        verify("filter-change", [], reopened)
                    elif op in ("path", "start"):
                        spec = ("+" if r.random() < 0.4 else "") + r.choice(specs)
                        if op == "start" and active:
                            continue
                        if not active:
                            if feats["stop"]:
                                feats["restart"] = True
                        hist.append(f"file={spec.replace(root, '<tmp>')}")
                        cur_spec = spec
                        model_open(fmt_path(spec, minute), spec, reopened)
                        active = True
                        tctx.configure(sa, save_stream_file=spec)
                        ctx.count("config_change_writes_nothing")
                        verify("path-change", [], reopened)
                    elif op == "tick":
                        minute += r.choice([1, 1, 2])
                        FakeDateTime.minute = minute
                        hist.append("tick")
                    elif op == "stop":
                        if not active:
                            continue
                        hist.append("file=None")
                        feats["stop"] = True
                        exp = stop_model()
                        cur_spec = None
                        tctx.configure(sa, save_stream_file=None)
                        ctx.count("stop_writes_open_flows_once")
                        verify("stop", exp, reopened, any_file=True)
                        full_read_check()
                    continue
                m = r.choice(runnable)
                hook = m.steps[m.pos]
                m.pos += 1
                apply_hook_mutation(m, hook, r)
                hist.append(f"f{m.idx}({m.kind}).{hook}")
                if in_flight - {m.idx}:
                    feats["overlap"] = True
                in_flight.add(m.idx)
                completion = is_completion(m, hook)
                expected = []
                if active and hook in START_HOOKS:
                    m.started_while_active = True
                if completion:
                    in_flight.discard(m.idx)
                    if active:
                        model_open(fmt_path(cur_spec, minute), cur_spec, reopened)
                        if FILTERS[cur_filter](m):
                            expected = [(cur_path, m.fp())]
                    m.completed = True
                fn = getattr(sa, hook, None)
                if fn is not None:
                    fn(m.real)
                if completion and active and expected:
                    ctx.count("completion_appends_exactly_one")
                elif completion and active:
                    ctx.count("nonmatching_never_written")
                    feats["nonmatch_completion"] = True
                elif completion:
                    ctx.count("inactive_writes_nothing")
                else:
                    ctx.count("nothing_before_completion")
                verify(f"hook:{hook}", expected, reopened)
            # shutdown
            hist.append("done()")
            n_open = len([m for m in flows if m.started_while_active and not m.completed])
            exp = stop_model()
            sa.done()
            ctx.count("stop_writes_open_flows_once")
            verify("done", exp, set(), any_file=True)
            full_read_check()
            # a second done() must not write anything
            sa.done()
            ctx.count("second_done_writes_nothing")
            verify("done-again", [], set())
    finally:
        save.datetime = old_dt
        try:
            if sa.stream:
                sa.stream.fo.close()
        except Exception:
            pass
        shutil.rmtree(root, ignore_errors=True)

    kinds_used = tuple(sorted({m.kind for m in flows}))
    sig = (
        kinds_used,
        min(nflows, 6) // 2,
        min(len(feats["filters"]), 3),
        feats["rotation"],
        feats["stop"],
        feats["restart"],
        feats["append"],
        min(n_open, 3),
        feats["nonmatch_completion"],
    )
    nontrivial = feats["overlap"] and feats["wrote"] > 0 and feats["globals"] > 0
    sample = {"flows": [m.kind for m in flows], "history": hist[:60], "records_per_file": {p.replace(root, "<tmp>"): len(v) for p, v in records.items()}}
    return sig, nontrivial, sample


def run(ctx):
    base = f"/tmp/vf-c39-{os.getpid()}-w{ctx.worker}"
    os.makedirs(base, exist_ok=True)
    try:
        for i in ctx.cases():
            out = ctx.guard(run_case, ctx, ctx.rng, os.path.join(base, f"case{i}"), what="stream-saving history")
            if out is None:
                ctx.case(("aborted",), nontrivial=False)
                continue
            sig, nontrivial, sample = out
            ctx.case(sig, nontrivial=nontrivial, sample=sample)
    finally:
        shutil.rmtree(base, ignore_errors=True)
