"""C37 -- flow files are crash-consistent.

One case = one crash point.  Every generated file (1-5 flows of every type, written by one of the three real writers) is
truncated at EVERY byte offset 0..len and each truncated file is read with the real FlowReader:

  truncated_read_exact_prefix   the reader yields exactly the flows whose records lie completely inside the first `o`
                                bytes (record boundaries come from the harness's own framing, vf/ref/c36_tnetstring.py),
                                in order, with the written states (ids of all, full state of the last one; all states at
                                record boundaries and every 64th offset), and then ends cleanly or raises
                                FlowReadException; any other exception, a missing flow or an extra (partial) flow violates
  stream_file_complete_after_hook   for files produced by stream saving (real Save addon, real file, optional '+' append
                                onto an existing file): after EACH hook of the lifecycle schedule the bytes visible
                                through a second file descriptor -- what survives a kill -9 -- are exactly the records of
                                the flows completed so far (no partial record, none missing: detects a missing flush())
  explicit_save_file_complete   save.file (also with '+' append) leaves exactly the records of the saved flows

Writers: the `save.file` command, stream saving through the Save addon's hooks, and a bare FlowWriter.
"""
from __future__ import annotations

import copy
import io
import os
import shutil
import tempfile

from mitmproxy import exceptions
from mitmproxy.addons import save
from mitmproxy.io import FlowReader
from mitmproxy.io import FlowWriter
from mitmproxy.test import taddons

from vf.core import exc_site, short
from vf.gen import flows as G
from vf.ref import c36_tnetstring as T

PROPERTY = "C37"
LEVEL = "fault_enumeration"
BUDGET = {"quick": (100_000, 15), "thorough": (20_000_000, 200)}
MIN_CASES = {"quick": 2, "thorough": 2}  # one case = one file with every crash offset
WORKERS = {"quick": 2, "thorough": 16}
REQUIRED = ["truncated_read_exact_prefix", "stream_file_complete_after_hook", "explicit_save_file_complete", "files_fully_enumerated"]
ENGINE = "direct"
TECHNIQUE = "exhaustive truncation of real writer output at every byte offset; second-descriptor observation after each stream-save hook"
RULE = (
    "files: 1-5 random flows (http, websocket, tcp, udp, dns; generator vf/gen/flows.py, size 'small') written by save.file, by stream saving "
    "(hook schedule with interleaved starts/completions, optionally appending to an existing file) or by FlowWriter; every byte offset of every file is "
    "one case (crash point). Signature = (writer, kind of the record that is cut, where the cut falls: boundary / length prefix / colon / payload / "
    "before type tag, index of the cut record, outcome clean-end or FlowReadException). Non-trivial: offsets strictly inside a record (a partial record exists)"
)
ASSUMPTIONS = [
    "a crash leaves a prefix of the bytes handed to the OS (no torn or reordered writes below the file-descriptor level)",
    "what a second file descriptor reads right after a hook returns is what would survive killing the process at that moment",
    "stream-save completion hooks: response/error for plain HTTP, websocket_end, tcp/udp end|error, dns response|error",
]
LEVEL_TEXT = (
    "Fault enumeration: for every generated file all truncation offsets are enumerated exhaustively (no sampling of crash points) and every hook "
    "boundary of the stream-save schedule is observed through a second descriptor. The files themselves are sampled by the flow generator, so the "
    "guarantee is exhaustive in the crash position and exploratory in the file contents."
)
LEVEL_NOTE = "Trusted: CPython file objects / OS page cache visibility between descriptors, the harness's framing of the written file, the flow generator."

MAX_FILE = 20_000


class Env:
    def __init__(self):
        self.tmp = tempfile.mkdtemp(prefix="vf-c37-")
        self.sa = save.Save()
        self.tctx = taddons.context(self.sa)
        self.n = 0

    def path(self):
        self.n += 1
        return os.path.join(self.tmp, f"f{self.n}.mitm")

    def close(self):
        try:
            self.tctx.configure(self.sa, save_stream_file=None)
        except Exception:
            pass
        self.tctx.__exit__(None, None, None)
        shutil.rmtree(self.tmp, ignore_errors=True)


def disk(path) -> bytes:
    with open(path, "rb") as f:  # a second, independent descriptor
        return f.read()


def snapshot(f):
    return T.norm(copy.deepcopy(f.get_state()))


def check_disk(ctx, counter, path, expected_states, when):
    """The file on disk is exactly the records of expected_states."""
    ctx.count(counter)
    data = disk(path)
    fr, stop = T.frames(data)
    if stop != len(data):
        ctx.violation("partial-record-on-disk", {"when": when, "complete_records": len(fr), "trailing_bytes": len(data) - stop, "expected_records": len(expected_states)},
                      classify_disk(len(fr), len(expected_states), True))
        return False
    if len(fr) != len(expected_states):
        ctx.violation("records-on-disk-differ-from-completed-flows", {"when": when, "on_disk": len(fr), "completed": len(expected_states)},
                      classify_disk(len(fr), len(expected_states), False))
        return False
    for i, ((s, e), st) in enumerate(zip(fr, expected_states)):
        try:
            rec = T.norm(T.decode(data, s, e)[0])
        except T.RefError as ex:
            ctx.violation("record-on-disk-malformed", {"when": when, "record": i, "err": str(ex)})
            return False
        if not T.same(rec, st):
            ctx.violation("record-on-disk-differs-from-flow", {"when": when, "record": i, "diff": T.diff(st, rec)})
            return False
    return True


def classify_disk(on_disk, expected, partial):
    return None  # no known mechanism


# ------------------------------------------------------------------------------------------------- writers

START = {"http": "request", "websocket": "request", "tcp": "tcp_start", "udp": "udp_start", "dns": "dns_request"}
END = {"http": ["response", "error"], "websocket": ["websocket_end"], "tcp": ["tcp_end", "tcp_error"], "udp": ["udp_end", "udp_error"], "dns": ["dns_response", "dns_error"]}


def write_stream(ctx, env, flows):
    """Stream-save the flows through the Save addon's hooks, checking the disk after each hook. -> (path, states in file order)"""
    r = ctx.rng
    path = env.path()
    expected = []
    spec = path
    if r.random() < 0.3:
        pre = G.gen_flows(r, 1, size="small")
        with open(path, "wb") as fo:
            FlowWriter(fo).add(pre[0])
        expected.append(snapshot(pre[0]))
        spec = "+" + path
    sa = env.sa
    env.tctx.configure(sa, save_stream_file=spec)
    check_disk(ctx, "stream_file_complete_after_hook", path, expected, "after configure")
    # schedule: starts and completions interleaved; a flow completes only after its start
    todo = [("start", f) for f in flows]
    r.shuffle(todo)
    pending = []
    hooks = []
    while todo or pending:
        if todo and (not pending or r.random() < 0.5):
            _, f = todo.pop()
            k = G.kind_of(f)
            getattr(sa, START[k])(f)
            hooks.append(START[k])
            if k == "websocket":
                sa.response(f)  # 101: must not be written yet
                hooks.append("response(ws)")
            pending.append(f)
            check_disk(ctx, "stream_file_complete_after_hook", path, expected, f"after {hooks[-1]} #{len(hooks)}")
        else:
            f = pending.pop(r.randrange(len(pending)))
            k = G.kind_of(f)
            h = r.choice(END[k])
            expected.append(snapshot(f))
            getattr(sa, h)(f)
            hooks.append(h)
            check_disk(ctx, "stream_file_complete_after_hook", path, expected, f"after {h} #{len(hooks)}")
    ctx.seen("hook_sequences", ",".join(hooks))
    env.tctx.configure(sa, save_stream_file=None)
    check_disk(ctx, "stream_file_complete_after_hook", path, expected, "after stream closed")
    return path, expected


def write_command(ctx, env, flows):
    r = ctx.rng
    path = env.path()
    expected = []
    if r.random() < 0.3:
        pre = G.gen_flows(r, 1, size="small")
        env.sa.save(pre, path)
        expected.append(snapshot(pre[0]))
        env.sa.save(flows, "+" + path)
    else:
        if r.random() < 0.3:
            env.sa.save(G.gen_flows(r, 1, size="small"), path)  # must be overwritten
        env.sa.save(flows, path)
    expected += [snapshot(f) for f in flows]
    check_disk(ctx, "explicit_save_file_complete", path, expected, "after save.file")
    return path, expected


def write_plain(ctx, env, flows):
    b = io.BytesIO()
    w = FlowWriter(b)
    for f in flows:
        w.add(f)
    path = env.path()
    with open(path, "wb") as fo:
        fo.write(b.getvalue())
    return path, [snapshot(f) for f in flows]


# ------------------------------------------------------------------------------------------------- truncation sweep

def where(o, s, e, data):
    """Position class of offset o inside the record [s, e)."""
    if o == s:
        return "boundary"
    colon = data.index(b":", s)
    if o <= colon:
        return "in-length-prefix"
    if o == colon + 1:
        return "after-colon"
    if o == e - 1:
        return "before-type-tag"
    return "in-payload"


def classify_trunc(kind, pos, n_expected, n_got, exc) -> str | None:
    return None  # no known mechanism


def sweep(ctx, env, writer, path, states):
    data = disk(path)
    fr, stop = T.frames(data)
    if stop != len(data) or len(fr) != len(states):
        return  # already reported by check_disk
    kinds = [s["type"] if not s.get("websocket") else "websocket" for s in states]
    ids = [s["id"] for s in states]
    ends = [e for _, e in fr]
    tpath = os.path.join(env.tmp, "trunc.mitm")
    k = 0  # number of complete records within the first o bytes
    for o in range(len(data) + 1):
        while k < len(ends) and ends[k] <= o:
            k += 1
        boundary = o == 0 or (k > 0 and ends[k - 1] == o)
        chunk = data[:o]
        via_file = o % 53 == 7
        got = []
        err = None
        ctx.count("truncated_read_exact_prefix")
        try:
            if via_file:
                with open(tpath, "wb") as fo:
                    fo.write(chunk)
                with open(tpath, "rb") as fo:
                    for f in FlowReader(fo).stream():
                        got.append(f)
            else:
                for f in FlowReader(io.BytesIO(chunk)).stream():
                    got.append(f)
            outcome = "clean-end"
        except exceptions.FlowReadException:
            outcome = "flow-read-error"
        except Exception as e:  # noqa
            outcome = f"escape:{type(e).__name__}"
            err = e
        cut = k if k < len(fr) else len(fr) - 1
        pos = "boundary" if boundary else where(o, fr[cut][0], fr[cut][1], data)
        wit = {"writer": writer, "offset": o, "file_len": len(data), "records": fr, "kinds": kinds, "complete_records": k, "yielded": len(got), "cut": pos, "outcome": outcome}
        if err is not None:
            ctx.violation(f"truncated-read-raises:{type(err).__name__}@{exc_site(err)}", {**wit, "exc": short(repr(err), 200)}, classify_trunc(kinds[cut], pos, k, len(got), err))
        elif len(got) > k:
            ctx.violation("partial-flow-returned", wit, classify_trunc(kinds[cut], pos, k, len(got), None))
        elif len(got) < k:
            ctx.violation("complete-flow-lost", wit, classify_trunc(kinds[cut], pos, k, len(got), None))
        else:
            if [g.id for g in got] != ids[:k]:
                ctx.violation("flow-order-or-identity-differs", wit)
            else:
                full = boundary or o % 64 == 0
                for i in (range(k) if full else range(max(k - 1, 0), k)):
                    st = T.norm(got[i].get_state())
                    if not T.same(st, states[i]):
                        ctx.violation("flow-state-differs-in-truncated-file", {**wit, "flow": i, "diff": T.diff(states[i], st)})
                        break
            if boundary and outcome != "clean-end" and o == len(data):
                ctx.violation("complete-file-reports-error", wit)
        ctx.case((writer, kinds[cut], pos, min(cut, 2), outcome), nontrivial=not boundary,
                 sample={"writer": writer, "kinds": kinds, "file_len": len(data), "offset": o, "cut": pos, "complete_records": k, "outcome": outcome} if o % 997 == 401 else None)
    ctx.count("files_fully_enumerated")
    ctx.seen("files", (writer, tuple(kinds)))


def run(ctx):
    env = Env()
    per_offset = 0.0006  # running estimate of seconds per crash point, used to stop before a file that would overrun the budget
    limit = 9_000 if ctx.tier == "quick" else MAX_FILE
    try:
        for i in ctx.cases():
            r = ctx.rng
            hooks_only = i % 4 == 3  # a longer stream-save schedule without the truncation sweep
            n = r.choice([3, 5, 8]) if hooks_only else r.choice([1, 1, 1, 2, 2, 3, 5] if ctx.tier != "quick" else [1, 1, 1, 2, 2, 3])
            # rotate the writers and make sure every flow kind appears early in each worker
            kinds = [G.KINDS[(i + j + ctx.worker) % len(G.KINDS)] if j == 0 else r.choice(G.KINDS) for j in range(n)]
            flows = [G.gen_flow(r, k, size="small") for k in kinds]
            writer = "stream" if hooks_only else ("stream", "command", "plain")[i % 3]
            path, states = {"stream": write_stream, "command": write_command, "plain": write_plain}[writer](ctx, env, flows)
            size = os.path.getsize(path)
            if hooks_only:
                ctx.count("hook_only_schedules")
            elif size > limit:
                ctx.count("files_skipped_too_large")
            elif ctx.only_case is None and ctx.time_left() < size * per_offset * 1.3:
                ctx.count("files_skipped_out_of_time")
                os.unlink(path)
                break
            else:
                t0 = ctx.time_left()
                sweep(ctx, env, writer, path, states)
                per_offset = 0.5 * per_offset + 0.5 * max((t0 - ctx.time_left()) / (size + 1), 1e-5)
            os.unlink(path)
    finally:
        env.close()
