"""C37 -- flow files are crash-consistent.

One case = one crash point.  Every generated file (1-5 flows of every type, written by one of the three real writers) is
truncated at EVERY byte offset 0..len and each truncated file is read with the real FlowReader:

  truncated_read_exact_prefix   the reader yields exactly the flows whose records lie completely inside the first `o`
                                bytes (record boundaries come from the harness's own framing, vf/ref/c36_tnetstring.py),
                                in order, with the written states (ids of all, full state of the last one; all states at
                                record boundaries and every 64th offset), and then ends cleanly or raises
                                FlowReadException; any other exception, a missing flow or an extra (partial) flow violates
  stream_file_complete_after_hook   stream saving through the real Save addon into real files.  Hook histories are the ones the
                                proxy core produces (HTTP request->response, request->error, error WITHOUT a request hook when the
                                client aborts its upload, websocket request->101 response->websocket_end, tcp/udp start->end|error,
                                dns request->response|error; flows interleaved) crossed with a runtime history of the options:
                                save_stream_file initially unset and switched on while flows are in flight, re-targeted to another
                                path without switching off, switched off and on again (same or other file, overwrite or '+'
                                append, also onto a pre-existing file), save_stream_filter set/changed/cleared.  In ~45% of the histories
                                save_stream_file is a strftime pattern (..-%d%H%M.mitm) and the addon's datetime.today() is a
                                virtual clock advanced between hooks (seconds to hours: several time-based rollovers per history,
                                rotation happening inside the end hook that first notices the new name); the model follows the
                                union of all files the pattern produced.  After EVERY
                                event every stream file is read through a second descriptor -- what survives a kill -9 -- and
                                must hold exactly: every flow that finished while a stream was configured and matched the filter
                                (own evaluation of the filter), in the file that was current at that moment, in order, with its
                                final state; no partial record; the only other records allowed are unfinished copies of in-flight
                                flows written when streaming is switched off
  file_after_write_fault_consistent   stream saving with a write fault injected at the file layer (the raw file under the addon's
                                BufferedWriter is wrapped) at an arbitrary byte offset of one flow's record -- short write, then
                                ENOSPC; records smaller and larger than the 8 KiB writer buffer -- after which the fault clears and
                                more flows finish.  Hooks are delivered through the addon manager like in production (addon
                                exceptions are logged and swallowed, SystemExit is not).  Either mitmproxy terminates at the failing
                                hook and the file is the finished flows plus at most one partial record at its very end, or it keeps
                                running and every flow whose hook returned is completely in the file.  A swallowed write error, a
                                finished flow missing, or bytes appended behind a partial record violate.
  explicit_save_file_complete   save.file (also with '+' append) leaves exactly the records of the saved flows

Writers: the `save.file` command, stream saving through the Save addon's hooks, and a bare FlowWriter.
"""
from __future__ import annotations

import copy
import datetime
import errno
import io
import logging
import os
import shutil
import sys
import tempfile
import traceback

from mitmproxy import dns
from mitmproxy import exceptions
from mitmproxy import http
from mitmproxy import tcp
from mitmproxy import udp
from mitmproxy.addons import save
from mitmproxy.io import FlowReader
from mitmproxy.io import FlowWriter
from mitmproxy.proxy.layers.dns import DnsErrorHook
from mitmproxy.proxy.layers.dns import DnsRequestHook
from mitmproxy.proxy.layers.dns import DnsResponseHook
from mitmproxy.proxy.layers.http import HttpErrorHook
from mitmproxy.proxy.layers.http import HttpRequestHook
from mitmproxy.proxy.layers.http import HttpResponseHook
from mitmproxy.proxy.layers.tcp import TcpEndHook
from mitmproxy.proxy.layers.tcp import TcpErrorHook
from mitmproxy.proxy.layers.tcp import TcpStartHook
from mitmproxy.proxy.layers.udp import UdpEndHook
from mitmproxy.proxy.layers.udp import UdpErrorHook
from mitmproxy.proxy.layers.udp import UdpStartHook
from mitmproxy.proxy.layers.websocket import WebsocketEndHook
from mitmproxy.test import taddons

from vf.core import exc_site, short
from vf.gen import flows as G
from vf.ref import c36_tnetstring as T

PROPERTY = "C37"
LEVEL = "fault_enumeration"
BUDGET = {"quick": (100_000, 13), "thorough": (20_000_000, 180)}
MIN_CASES = {"quick": 2, "thorough": 2}  # one case = one file with every crash offset
WORKERS = {"quick": 2, "thorough": 16}
REQUIRED = ["truncated_read_exact_prefix", "stream_file_complete_after_hook", "strftime_path_schedules", "write_fault_injected", "file_after_write_fault_consistent", "explicit_save_file_complete", "files_fully_enumerated"]
ENGINE = "direct"
TECHNIQUE = "exhaustive truncation of real writer output at every byte offset; second-descriptor observation after each stream-save hook"
RULE = (
    "files: 1-5 random flows (http, websocket, tcp, udp, dns; generator vf/gen/flows.py, size 'small') written by save.file, by stream saving "
    "(proxy-like hook histories incl. error without request hook, interleaved flows, crossed with runtime changes of save_stream_file -- unset->set mid-flight, re-target, off/on, overwrite/append, strftime patterns rolled over by a virtual clock -- and of save_stream_filter) or by FlowWriter; every byte offset of every file is "
    "one case (crash point). Signature = (writer, kind of the record that is cut, where the cut falls: boundary / length prefix / colon / payload / "
    "before type tag, index of the cut record, outcome clean-end or FlowReadException). Non-trivial: offsets strictly inside a record (a partial record exists)"
)
ASSUMPTIONS = [
    "a write fault behaves like ENOSPC/EDQUOT/EFBIG: the OS accepts a prefix of the data (short write) and fails the following write; it may clear later",
    "a crash leaves a prefix of the bytes handed to the OS (no torn or reordered writes below the file-descriptor level)",
    "what a second file descriptor reads right after a hook returns is what would survive killing the process at that moment",
    "stream-save completion hooks: response/error for plain HTTP, websocket_end, tcp/udp end|error, dns response|error; a flow is due in the stream file iff its completion hook fires while save_stream_file is set and it matches save_stream_filter at that moment",
    "when streaming is switched off the addon may additionally write unfinished copies of in-flight flows (C39 decides which); C37 only requires that no finished flow is missing or damaged",
]
LEVEL_TEXT = (
    "Fault enumeration: for every generated file all truncation offsets are enumerated exhaustively (no sampling of crash points) and every hook "
    "boundary of the stream-save schedule is observed through a second descriptor. The files themselves are sampled by the flow generator, so the "
    "guarantee is exhaustive in the crash position and exploratory in the file contents."
)
LEVEL_NOTE = "Trusted: CPython file objects / OS page cache visibility between descriptors, the harness's framing of the written file, the flow generator."

MAX_FILE = 20_000


HOOKS = {
    "request": HttpRequestHook, "response": HttpResponseHook, "error": HttpErrorHook, "websocket_end": WebsocketEndHook,
    "tcp_start": TcpStartHook, "tcp_end": TcpEndHook, "tcp_error": TcpErrorHook,
    "udp_start": UdpStartHook, "udp_end": UdpEndHook, "udp_error": UdpErrorHook,
    "dns_request": DnsRequestHook, "dns_response": DnsResponseHook, "dns_error": DnsErrorHook,
}


class _Capture(logging.Handler):
    def __init__(self):
        super().__init__(logging.ERROR)
        self.errors: list = []

    def emit(self, record):
        self.errors.append(record.getMessage())


class Env:
    def __init__(self):
        self.tmp = tempfile.mkdtemp(prefix="vf-c37-")
        self.sa = save.Save()
        self.tctx = taddons.context(self.sa)
        self.n = 0
        self.vclock = 1_700_000_000.0  # virtual clock behind the addon's datetime.today()
        env = self

        class _FakeDatetime(datetime.datetime):
            @classmethod
            def today(cls):
                return datetime.datetime.fromtimestamp(env.vclock)

        self._real_datetime = save.datetime
        save.datetime = _FakeDatetime
        self.cap = _Capture()
        lg = logging.getLogger("mitmproxy.addonmanager")
        lg.addHandler(self.cap)
        lg.propagate = False

    def now(self):
        return datetime.datetime.fromtimestamp(self.vclock)

    def advance(self, seconds):
        self.vclock += seconds

    def fire(self, hook, f):
        """Deliver a hook the way production does: through the addon manager, which logs and swallows addon exceptions
        (but not SystemExit).  -> list of addon errors that were swallowed while delivering it"""
        self.cap.errors.clear()
        self.tctx.master.addons.trigger(HOOKS[hook](f))
        return list(self.cap.errors)

    def path(self):
        self.n += 1
        return os.path.join(self.tmp, f"f{self.n}.mitm")

    def close(self):
        try:
            self.tctx.configure(self.sa, save_stream_file=None)
        except Exception:
            pass
        self.tctx.__exit__(None, None, None)
        logging.getLogger("mitmproxy.addonmanager").removeHandler(self.cap)
        save.datetime = self._real_datetime
        shutil.rmtree(self.tmp, ignore_errors=True)


def disk(path) -> bytes:
    with open(path, "rb") as f:  # a second, independent descriptor
        return f.read()


def snapshot(f):
    return T.norm(copy.deepcopy(f.get_state()))


def check_disk(ctx, counter, path, expected_states, when):
    """The file on disk is exactly the records of expected_states."""
    ctx.count(counter)
    data = disk(path)
    fr, stop = T.frames(data)
    if stop != len(data):
        ctx.violation("partial-record-on-disk", {"when": when, "complete_records": len(fr), "trailing_bytes": len(data) - stop, "expected_records": len(expected_states)},
                      classify_disk(len(fr), len(expected_states), True))
        return False
    if len(fr) != len(expected_states):
        ctx.violation("records-on-disk-differ-from-completed-flows", {"when": when, "on_disk": len(fr), "completed": len(expected_states)},
                      classify_disk(len(fr), len(expected_states), False))
        return False
    for i, ((s, e), st) in enumerate(zip(fr, expected_states)):
        try:
            rec = T.norm(T.decode(data, s, e)[0])
        except T.RefError as ex:
            ctx.violation("record-on-disk-malformed", {"when": when, "record": i, "err": str(ex)})
            return False
        if not T.same(rec, st):
            ctx.violation("record-on-disk-differs-from-flow", {"when": when, "record": i, "diff": T.diff(st, rec)})
            return False
    return True


def classify_disk(on_disk, expected, partial):
    return None  # no known mechanism


# ------------------------------------------------------------------------------------------------- writers

START = {"http": "request", "websocket": "request", "tcp": "tcp_start", "udp": "udp_start", "dns": "dns_request"}
END = {"http": ["response", "error"], "websocket": ["websocket_end"], "tcp": ["tcp_end", "tcp_error"], "udp": ["udp_end", "udp_error"], "dns": ["dns_response", "dns_error"]}

# save_stream_filter expressions with the harness's own reading of them (type / error / marker predicates only)
FILTERS = [
    ("~http", lambda f: isinstance(f, http.HTTPFlow)),
    ("~websocket", lambda f: isinstance(f, http.HTTPFlow) and f.websocket is not None),
    ("~tcp", lambda f: isinstance(f, tcp.TCPFlow)),
    ("~udp", lambda f: isinstance(f, udp.UDPFlow)),
    ("~dns", lambda f: isinstance(f, dns.DNSFlow)),
    ("~e", lambda f: bool(f.error)),
    ("!~e", lambda f: not f.error),
    ("~marked", lambda f: bool(f.marked)),
    ("~tcp | ~udp", lambda f: isinstance(f, (tcp.TCPFlow, udp.UDPFlow))),
    ("!~http", lambda f: not isinstance(f, http.HTTPFlow)),
    ("~http & !~websocket", lambda f: isinstance(f, http.HTTPFlow) and f.websocket is None),
]


def lifecycle(r, f):
    """Save-addon hooks in the order the proxy core fires them for this flow: (start hooks..., end hook)."""
    k = G.kind_of(f)
    if k == "http":
        x = r.random()
        if x < 0.55:
            return ["request", "response"]
        if x < 0.8:
            return ["request", "error"]  # server unreachable / connection lost after the request was read
        return ["error"]  # client aborted while still sending the request: requestheaders -> error, no `request` hook
    if k == "websocket":
        return ["request", "response", "websocket_end"]  # the 101 response must not persist the flow yet
    return [START[k], r.choice(END[k])]


def match_items(items, recs, i=0, j=0, used=frozenset()):
    """Do the records on disk (list of (id, state)) realise the model's items?  items: ("fin", state) -- exactly this record;
    ("done", {id: state}) -- any subset, in any order, of unfinished copies of flows that were in flight when streaming was
    switched off.  Returns None on success or (item index, record index) of the first mismatch of the best attempt."""
    if i == len(items):
        return None if j == len(recs) else (i, j)
    kind, val = items[i]
    if kind == "fin":
        if j < len(recs) and T.same(recs[j][1], val):
            return match_items(items, recs, i + 1, j + 1, frozenset())
        return (i, j)
    best = match_items(items, recs, i + 1, j, frozenset())
    if best is None:
        return None
    if j < len(recs) and recs[j][0] in val and recs[j][0] not in used and T.same(recs[j][1], val[recs[j][0]]):
        alt = match_items(items, recs, i, j + 1, used | {recs[j][0]})
        if alt is None:
            return None
        best = max(best, alt, key=lambda t: t[1])
    return best


def check_model(ctx, path, items, when, history):
    """What a second descriptor sees in `path` right now is exactly what the model says has been persisted there."""
    ctx.count("stream_file_complete_after_hook")
    try:
        data = disk(path)
    except FileNotFoundError:
        data = b""
    fr, stop = T.frames(data)
    n_fin = sum(1 for k, _ in items if k == "fin")
    wit = {"when": when, "file": os.path.basename(path), "history": history[-25:], "finished_flows_expected_in_file": n_fin, "complete_records_on_disk": len(fr)}
    if stop != len(data):
        ctx.violation("partial-record-on-disk", {**wit, "trailing_bytes": len(data) - stop})
        return False
    recs = []
    for k, (s, e) in enumerate(fr):
        try:
            st = T.norm(T.decode(data, s, e)[0])
            recs.append((st.get("id") if isinstance(st, dict) else None, st))
        except T.RefError as ex:
            ctx.violation("record-on-disk-malformed", {**wit, "record": k, "err": str(ex)})
            return False
    bad = match_items(items, recs)
    if bad is not None:
        i, j = bad
        want = items[i][1].get("id") if i < len(items) and items[i][0] == "fin" else None
        kind = "finished-flow-missing-from-stream-file" if i < len(items) and items[i][0] == "fin" and (j >= len(recs) or recs[j][0] != want) else "stream-file-differs-from-finished-flows"
        ctx.violation(kind, {**wit, "model_item": i, "record": j, "expected_flow_id": want, "found_flow_id": recs[j][0] if j < len(recs) else None,
                             "diff": T.diff(items[i][1], recs[j][1]) if want is not None and j < len(recs) and recs[j][0] == want else None})
        return False
    return True


def write_stream(ctx, env, flows):
    """Stream-save the flows through the Save addon: hook histories as the proxy core produces them, crossed with a runtime
    history of the save_stream_file / save_stream_filter options.  After EVERY event all stream files are compared with the
    model: every flow that finished while a stream was configured and matched the filter is in the file that was current
    at that moment, in order, complete.  -> (path of the largest file, its record states)"""
    r = ctx.rng
    sa, tctx = env.sa, env.tctx
    timed = r.random() < 0.45  # save_stream_file is a strftime pattern; a virtual clock makes the formatted path roll over
    paths = [env.path() for _ in range(3)]  # option values (fixed paths, or strftime patterns resolved against the virtual clock)
    if timed:
        paths = [p[: -len(".mitm")] + "-%d%H%M.mitm" for p in paths]
    files: dict = {}  # path -> model items
    cur = None  # path currently streamed to
    spec = None  # (option value without '+', append) currently configured
    flt = None  # (expr, predicate)
    history: list = []
    inflight: list = []

    def resolve(pattern):
        return env.now().strftime(pattern)

    def open_model(path, append):
        if append:
            files.setdefault(path, [])
        else:
            files[path] = []  # "wb": an existing file is truncated

    def roll():
        """The addon re-evaluates the formatted path whenever it is about to write (and on option changes): when the clock
        has moved it into another name, the old file is closed and the new one opened; later flows belong there."""
        nonlocal cur
        if spec is not None and resolve(spec[0]) != cur:
            cur = resolve(spec[0])
            open_model(cur, spec[1])
            history.append(f"[clock: now {os.path.basename(cur)}]")

    def set_stream(path, append):
        nonlocal cur, spec
        spec = (path, append)
        cur = resolve(path)
        open_model(cur, append)
        history.append(f"save_stream_file={'+' if append else ''}{os.path.basename(path)}")
        tctx.configure(sa, save_stream_file=("+" if append else "") + path)

    def unset_stream():
        nonlocal cur, spec
        if cur is not None:
            files[cur].append(("done", {f.id: snapshot(f) for f in inflight}))
        history.append("save_stream_file=None")
        tctx.configure(sa, save_stream_file=None)
        cur = spec = None

    def check_all(when):
        for p, items in files.items():
            if not check_model(ctx, p, items, when, history):
                return False
        return True

    # initial option state
    x = r.random()
    if x < 0.15:
        pre = G.gen_flows(r, 1, size="small")
        with open(resolve(paths[0]), "wb") as fo:
            FlowWriter(fo).add(pre[0])
        files[resolve(paths[0])] = [("fin", snapshot(pre[0]))]
        set_stream(paths[0], True)
    elif x < 0.65:
        set_stream(paths[0], False)
    # else: streaming is switched on later, while flows are in flight
    plain = r.random() < 0.35  # no option changes after the initial state
    ok = check_all("initial configuration")

    todo = [(f, lifecycle(r, f)) for f in flows]
    r.shuffle(todo)
    running: list = []  # [flow, remaining hooks]
    n_opt = 0
    while ok and (todo or running):
        x = r.random()
        if timed and r.random() < 0.45:
            env.advance(r.choice([1, 20, 61, 61, 125, 3600, 3725]))  # time passes between hooks; several rollovers per history
        if not plain and n_opt < 4 and x < 0.22:
            n_opt += 1
            y = r.random()
            if cur is None:
                p = r.choice(paths)
                set_stream(p, append=(resolve(p) in files and r.random() < 0.6))
            elif y < 0.35:
                unset_stream()
            elif y < 0.6:
                p = r.choice([q for q in paths if q != spec[0]])
                set_stream(p, append=(resolve(p) in files and r.random() < 0.6))  # re-target without switching off
            else:
                flt = None if (flt is not None and r.random() < 0.4) else r.choice(FILTERS)
                roll()  # a filter change re-evaluates the path as well
                history.append(f"save_stream_filter={flt[0] if flt else None}")
                tctx.configure(sa, save_stream_filter=flt[0] if flt else None)
            ok = check_all(history[-1])
            continue
        if todo and (not running or x < 0.6):
            f, hooks = todo.pop()
            running.append([f, hooks])
        ent = r.choice(running)
        f, hooks = ent
        h = hooks.pop(0)
        last = not hooks
        if last:
            running.remove(ent)
            # the flow reaches its final state
            if h.endswith("error") and not f.error:
                f.error = G.gen_error(r)
            if h == "response" and f.response is None:
                f.response = G.gen_response(r, True)
            f.comment = f"finished:{h}"
            if f in inflight:
                inflight.remove(f)
            if cur is not None and not (G.kind_of(f) == "websocket" and h != "websocket_end"):
                roll()
            if cur is not None and (flt is None or flt[1](f)):
                files[cur].append(("fin", snapshot(f)))
        elif f not in inflight:
            inflight.append(f)
        history.append(f"{h}({G.kind_of(f)}#{flows.index(f)})")
        swallowed = env.fire(h, f)
        if swallowed:
            ctx.violation("stream-save-hook-raised", {"hook": history[-1], "history": history[-25:], "addon_errors": swallowed[:3]})
        ok = check_all(history[-1])
    if ok and cur is not None and r.random() < 0.7:
        unset_stream()
        check_all("stream switched off at the end")
    elif cur is not None:
        tctx.configure(sa, save_stream_file=None)  # leave the addon idle for the next case (not checked: covered above)
    if flt is not None:
        tctx.configure(sa, save_stream_filter=None)
    ctx.seen("hook_sequences", ",".join(h.split("(")[0] for h in history))
    ctx.seen("option_histories", ",".join(h.split("=")[0] + ("=None" if h.endswith("None") else "") for h in history if h.startswith("save_")) or "-")
    # hand the largest file to the truncation sweep
    best, states = paths[0], []
    for p in files:
        try:
            recs = [T.norm(x) for x in T.decode_all(disk(p))]
        except (T.RefError, FileNotFoundError):
            continue
        if len(recs) >= len(states):
            best, states = p, recs
    if timed:
        ctx.count("strftime_path_schedules")
        ctx.seen("files_per_strftime_history", len(files))
    for p in list(files):
        if p != best and os.path.exists(p):
            os.unlink(p)
    if best not in files:
        best = env.path()
    if not os.path.exists(best):
        open(best, "wb").close()
    return best, states


# ------------------------------------------------------------------------------------------------- write faults

class FaultyRaw(io.RawIOBase):
    """Stands in for the raw file under the addon's BufferedWriter.  With `budget` = n it behaves like a disk that accepts n
    more bytes: a write crossing the limit is cut short (the kernel's short write), the next one fails with ENOSPC.
    budget None = healthy."""

    def __init__(self, raw):
        self.raw = raw
        self.budget = None
        self.dead = False
        self.failed_writes = 0

    def writable(self):
        return True

    def write(self, b):
        if self.dead:
            raise OSError(errno.EIO, "writer abandoned")
        if self.budget is None:
            return self.raw.write(b)
        if self.budget <= 0:
            self.failed_writes += 1
            raise OSError(errno.ENOSPC, "No space left on device")
        n = self.raw.write(bytes(b)[: self.budget])
        self.budget -= n
        return n

    def fileno(self):
        return self.raw.fileno()

    def close(self):
        if not self.closed:
            try:
                self.raw.close()
            finally:
                super().close()


def enlarge(r, f, size):
    big = r.randbytes(size)
    k = G.kind_of(f)
    if k in ("http", "websocket"):
        if f.response is not None and r.random() < 0.5:
            f.response.content = big
        else:
            f.request.content = big
    elif k in ("tcp", "udp"):
        f.messages.append(type(f.messages[0])(True, big, 946681204.5) if f.messages else (tcp.TCPMessage if k == "tcp" else udp.UDPMessage)(True, big, 946681204.5))
    else:
        f.request.additionals.append(dns.ResourceRecord("big.example", 16, 1, 60, big))


def write_faulty(ctx, env, flows):
    """Stream saving with a write fault at an arbitrary byte offset inside one flow's record (short write, then ENOSPC,
    also inside records larger than the 8 KiB writer buffer), after which the fault clears and more flows finish.  Hooks
    go through the addon manager.  Oracle: either mitmproxy terminates at the failing hook (SystemExit) and the file is the
    finished flows plus at most a partial record at its very end; or it keeps running and then every finished flow whose hook
    returned is completely in the file.  Never: a hook that silently failed, or bytes behind a partial record."""
    r = ctx.rng
    sa, tctx = env.sa, env.tctx
    path = env.path()
    history = []
    items = []
    if r.random() < 0.25:
        pre = G.gen_flows(r, 1, size="small")
        with open(path, "wb") as fo:
            FlowWriter(fo).add(pre[0])
        items.append(("fin", snapshot(pre[0])))
        tctx.configure(sa, save_stream_file="+" + path)
    else:
        tctx.configure(sa, save_stream_file=path)
    real = sa.stream.fo
    real.flush()
    raw = FaultyRaw(real.raw)
    sa.stream.fo = io.BufferedWriter(raw)
    victim = r.randrange(0, len(flows) - 1)
    size = r.choice([0, 0, 9_000, 20_000, 40_000])
    if size:
        enlarge(r, flows[victim], size)
    exited = False
    fault = None
    devnull = io.StringIO()
    for idx, f in enumerate(flows):
        hooks = lifecycle(r, f)
        for h in hooks:
            last = h == hooks[-1]
            if last:
                if h.endswith("error") and not f.error:
                    f.error = G.gen_error(r)
                if h == "response" and f.response is None:
                    f.response = G.gen_response(r, True)
                f.comment = f"finished:{h}"
            if last and idx == victim:
                rec_len = len(T.encode(snapshot(f)))
                where_ = r.choice(["start", "prefix", "anywhere", "anywhere", "before-tag"])
                cut = {"start": 0, "prefix": r.randrange(0, 6), "before-tag": rec_len - 1}.get(where_, r.randrange(0, rec_len))
                raw.budget = cut
                fault = {"flow": f"{G.kind_of(f)}#{idx}", "record_bytes": rec_len, "bytes_accepted_before_fault": cut, "larger_than_writer_buffer": rec_len > 8192}
            history.append(f"{h}({G.kind_of(f)}#{idx})" + ("[write fault]" if last and idx == victim else ""))
            old_err, sys.stderr = sys.stderr, devnull
            try:
                swallowed = env.fire(h, f)
            except SystemExit:
                swallowed = []
                exited = True
            finally:
                sys.stderr = old_err
            if last and idx == victim:
                raw.budget = None  # the fault clears (space freed)
                ctx.count("write_fault_injected")
                if exited:
                    break
                if swallowed:
                    ctx.violation("write-fault-swallowed-writer-keeps-running", {"fault": fault, "history": history, "addon_errors": swallowed[:2]})
            elif swallowed:
                ctx.violation("stream-save-hook-raised", {"hook": history[-1], "history": history, "addon_errors": swallowed[:3]})
            if last:
                items.append(("fin", snapshot(f)))
            ctx.count("stream_file_complete_after_hook")
            if fault is None and not check_model(ctx, path, items, history[-1], history):
                break
        if exited:
            break
    # final verdict on the file as it is on disk now
    data = disk(path)
    fr, stop = T.frames(data)
    fin = [st for k, st in items if k == "fin"]
    wit = {"fault": fault, "history": history, "terminated_at_fault": exited, "finished_flows": len(fin), "complete_records_on_disk": len(fr), "bytes_after_last_complete_record": len(data) - stop}
    ctx.count("file_after_write_fault_consistent")
    got, outcome = [], "clean-end"
    try:
        for g in FlowReader(io.BytesIO(data)).stream():
            got.append(g)
    except exceptions.FlowReadException:
        outcome = "flow-read-error"
    except Exception as e:  # noqa
        outcome = f"escape:{type(e).__name__}"
    wit["loaded"] = len(got)
    wit["load_outcome"] = outcome
    good = len(got) == len(fin) and all(T.same(T.norm(g.get_state()), st) for g, st in zip(got, fin)) and not outcome.startswith("escape")
    if exited:
        # terminated: finished flows, then at most one partial record (a proper prefix of the victim's record)
        if not good or len(fr) != len(fin) or len(data) - stop > fault["bytes_accepted_before_fault"]:
            ctx.violation("file-inconsistent-after-write-fault-exit", wit)
    else:
        if not good or stop != len(data):
            ctx.violation("finished-flows-unreadable-after-write-fault" if len(data) - stop or len(got) < len(fin) else "stream-file-differs-from-finished-flows", wit)
    ctx.seen("fault_outcomes", ("exit" if exited else "kept-running", fault["larger_than_writer_buffer"] if fault else None))
    # abandon the writer without letting buffered leftovers reach the file, reset the addon
    raw.dead = True
    try:
        sa.stream.fo.close()
    except Exception:  # noqa
        pass
    try:
        raw.raw.close()
    except Exception:  # noqa
        pass
    sa.stream = None
    sa.current_path = None
    sa.active_flows.clear()
    tctx.configure(sa, save_stream_file=None)
    return path, fin


def write_command(ctx, env, flows):
    r = ctx.rng
    path = env.path()
    expected = []
    if r.random() < 0.3:
        pre = G.gen_flows(r, 1, size="small")
        env.sa.save(pre, path)
        expected.append(snapshot(pre[0]))
        env.sa.save(flows, "+" + path)
    else:
        if r.random() < 0.3:
            env.sa.save(G.gen_flows(r, 1, size="small"), path)  # must be overwritten
        env.sa.save(flows, path)
    expected += [snapshot(f) for f in flows]
    check_disk(ctx, "explicit_save_file_complete", path, expected, "after save.file")
    return path, expected


def write_plain(ctx, env, flows):
    b = io.BytesIO()
    w = FlowWriter(b)
    for f in flows:
        w.add(f)
    path = env.path()
    with open(path, "wb") as fo:
        fo.write(b.getvalue())
    return path, [snapshot(f) for f in flows]


# ------------------------------------------------------------------------------------------------- truncation sweep

def where(o, s, e, data):
    """Position class of offset o inside the record [s, e)."""
    if o == s:
        return "boundary"
    colon = data.index(b":", s)
    if o <= colon:
        return "in-length-prefix"
    if o == colon + 1:
        return "after-colon"
    if o == e - 1:
        return "before-type-tag"
    return "in-payload"


def classify_trunc(kind, pos, n_expected, n_got, exc) -> str | None:
    return None  # no known mechanism


def sweep(ctx, env, writer, path, states):
    data = disk(path)
    fr, stop = T.frames(data)
    if stop != len(data) or len(fr) != len(states):
        return  # already reported by check_disk
    kinds = [s["type"] if not s.get("websocket") else "websocket" for s in states]
    ids = [s["id"] for s in states]
    ends = [e for _, e in fr]
    tpath = os.path.join(env.tmp, "trunc.mitm")
    k = 0  # number of complete records within the first o bytes
    for o in range(len(data) + 1):
        while k < len(ends) and ends[k] <= o:
            k += 1
        boundary = o == 0 or (k > 0 and ends[k - 1] == o)
        chunk = data[:o]
        via_file = o % 53 == 7
        got = []
        err = None
        ctx.count("truncated_read_exact_prefix")
        try:
            if via_file:
                with open(tpath, "wb") as fo:
                    fo.write(chunk)
                with open(tpath, "rb") as fo:
                    for f in FlowReader(fo).stream():
                        got.append(f)
            else:
                for f in FlowReader(io.BytesIO(chunk)).stream():
                    got.append(f)
            outcome = "clean-end"
        except exceptions.FlowReadException:
            outcome = "flow-read-error"
        except Exception as e:  # noqa
            outcome = f"escape:{type(e).__name__}"
            err = e
        cut = k if k < len(fr) else len(fr) - 1
        pos = "boundary" if boundary else where(o, fr[cut][0], fr[cut][1], data)
        wit = {"writer": writer, "offset": o, "file_len": len(data), "records": fr, "kinds": kinds, "complete_records": k, "yielded": len(got), "cut": pos, "outcome": outcome}
        if err is not None:
            ctx.violation(f"truncated-read-raises:{type(err).__name__}@{exc_site(err)}", {**wit, "exc": short(repr(err), 200)}, classify_trunc(kinds[cut], pos, k, len(got), err))
        elif len(got) > k:
            ctx.violation("partial-flow-returned", wit, classify_trunc(kinds[cut], pos, k, len(got), None))
        elif len(got) < k:
            ctx.violation("complete-flow-lost", wit, classify_trunc(kinds[cut], pos, k, len(got), None))
        else:
            if [g.id for g in got] != ids[:k]:
                ctx.violation("flow-order-or-identity-differs", wit)
            else:
                full = boundary or o % 64 == 0
                for i in (range(k) if full else range(max(k - 1, 0), k)):
                    st = T.norm(got[i].get_state())
                    if not T.same(st, states[i]):
                        ctx.violation("flow-state-differs-in-truncated-file", {**wit, "flow": i, "diff": T.diff(states[i], st)})
                        break
            if boundary and outcome != "clean-end" and o == len(data):
                ctx.violation("complete-file-reports-error", wit)
        ctx.case((writer, kinds[cut], pos, min(cut, 2), outcome), nontrivial=not boundary,
                 sample={"writer": writer, "kinds": kinds, "file_len": len(data), "offset": o, "cut": pos, "complete_records": k, "outcome": outcome} if o % 997 == 401 else None)
    ctx.count("files_fully_enumerated")
    ctx.seen("files", (writer, tuple(kinds)))


def one_case(ctx, env, i, state):
    r = ctx.rng
    hooks_only = i % 2 == 1  # a longer stream-save schedule without the truncation sweep
    n = r.choice([3, 5, 8]) if hooks_only else r.choice([1, 1, 1, 2, 2, 3, 5] if ctx.tier != "quick" else [1, 1, 1, 2, 2, 3])
    # rotate the writers and make sure every flow kind appears early in each worker
    kinds = [G.KINDS[(i + j + ctx.worker) % len(G.KINDS)] if j == 0 else r.choice(G.KINDS) for j in range(n)]
    flows = [G.gen_flow(r, k, size="small") for k in kinds]
    writer = ("faulty" if i % 4 == 1 else "stream") if hooks_only else ("stream", "command", "plain")[(i // 2) % 3]
    path, states = {"stream": write_stream, "command": write_command, "plain": write_plain, "faulty": write_faulty}[writer](ctx, env, flows)
    size = os.path.getsize(path)
    stop = False
    if hooks_only:
        ctx.count("hook_only_schedules")
    elif size == 0:
        ctx.count("files_empty")
    elif size > state["limit"]:
        ctx.count("files_skipped_too_large")
    elif ctx.only_case is None and ctx.time_left() < size * state["per_offset"] * 1.3:
        ctx.count("files_skipped_out_of_time")
        stop = True
    else:
        t0 = ctx.time_left()
        sweep(ctx, env, writer, path, states)
        state["per_offset"] = 0.5 * state["per_offset"] + 0.5 * max((t0 - ctx.time_left()) / (size + 1), 1e-5)
    os.unlink(path)
    return stop


def run(ctx):
    env = Env()
    # per_offset: running estimate of seconds per crash point, used to stop before a file that would overrun the budget
    state = {"per_offset": 0.0006, "limit": 9_000 if ctx.tier == "quick" else MAX_FILE}
    try:
        for i in ctx.cases():
            try:
                if one_case(ctx, env, i, state):
                    break
            except Exception as e:  # noqa  -- real code raised inside a schedule: evidence, not a harness error
                ctx.violation(f"unexpected-exception:{type(e).__name__}@{exc_site(e)}", {"case": i, "exc": short(repr(e)), "tb": traceback.format_exc()[-1200:]})
                try:
                    env.close()
                except Exception:  # noqa
                    pass
                env = Env()
    finally:
        env.close()
