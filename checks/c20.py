"""C20 -- proxy authentication is enforced on every entry path.

Engine A with the REAL ProxyAuth addon (+ real NextLayer) in the hook chain; `proxyauth` is set per case to a single
user, `any`, or an htpasswd file written for the case ({SHA} entries via hashlib next to $2b$ entries made with the
bcrypt library, whose checker raises for passwords longer than 72 bytes).  A generated client conversation
(1-6 items on one connection) enters through one of the paths
  regular / upstream: absolute-form requests, each with its own Proxy-Authorization presentation; optionally ending in a
                      CONNECT host:80 (with a presentation) followed by plain HTTP requests inside the tunnel
  reverse / transparent: origin-form requests with an Authorization presentation
  socks5:             RFC 1928 greeting + RFC 1929 username/password + CONNECT + plain HTTP requests
Validator configuration classes: any, single user, htpasswd with many / one / NO active user (empty file, blank lines only,
every user commented out) and reloads N users -> 0 users (-> N users); a fixed matrix runs every class on every entry path
(9 x 7 cells, spread over the workers) before the random cases.  With proxyauth set and nobody valid every request is refused.
Revocation histories (fixed cells first, then random): every configured htpasswd pair is accepted once by the real addon (the
instance in the hook chain or a second ProxyAuth instance of the same process), then users are removed / get another password /
are removed and re-added with another password / the file is swapped, the option is re-set, and the revoked pairs are presented
again on every entry path: only the CURRENT configuration decides.
Before the traffic the `proxyauth` option may go through a failing runtime update (bad spec, missing file) or a failing reload
of the same htpasswd spec after the file was left malformed / deleted; the option keeps its value, so enforcement must continue.
Presentations: valid (plain, ':' in the password, non-ASCII UTF-8, empty password, lower/upper-case scheme, several SP),
wrong password / user / swapped, missing, empty, scheme only, bad base64, no colon, Bearer, right credentials in the wrong
header, validator-hostile ones (73-300 byte passwords, NUL inside the password, very long user names, invalid UTF-8
passwords -- aimed at bcrypt users), and a lenient zone (junk after the token, missing padding, HTAB separator, invalid UTF-8).

Oracle (M2, wire boundary): vf/ref/c20_basic.py (RFC 7617 split at the FIRST colon; reference validators that know the
plaintext pairs) decides for every item accept / refuse / either; every request carries a unique path tag and every
presentation a unique credential, so
  safety    a refuse item's tag never occurs in any byte written upstream (nor anything after a refused SOCKS5 auth),
  answer    the response at the item's position in the client-bound stream is 407 + Proxy-Authenticate (proxy modes) or
            401 + WWW-Authenticate (reverse/transparent), resp. SOCKS `01 01` / `05 FF`,
  accept    an accept item is forwarded (tag upstream, origin's tagged answer relayed at its position), never answered 407/401,
  strip     the accepted credential (base64 token) occurs nowhere upstream and the upstream copy of the request has no
            Proxy-Authorization / Authorization field,
  total     'either' items get exactly one of the two outcomes.
"""
import base64
import os
import re
import shutil
import tempfile

from mitmproxy.addons.proxyauth import ProxyAuth
from mitmproxy.proxy import layers

from vf import sansio
from vf.core import Inconclusive
from vf.gen import c08_peers as P
from vf.ref import c20_basic as rb
from vf.ref import http1 as ref

PROPERTY = "C20"
LEVEL = "exploration"
ENGINE = "sansio"
BUDGET = {"quick": (500, 18), "thorough": (30000, 220)}
WORKERS = {"quick": 4, "thorough": 16}
REQUIRED = ["safety", "answer", "accept", "strip", "total", "path.regular-abs", "path.connect", "path.reverse", "path.transparent", "path.socks5", "path.upstream", "validator.single", "validator.any", "validator.htpasswd", "bcrypt.user_presented", "bcrypt.long_password",
            "history.accepted_then_revoked", "history.revoked_pair_presented", "history.warmup_on_second_addon_instance", "history.warmup_on_chain_addon_instance", "matrix.cells", "validator.class.htp-empty", "validator.class.htp-comments", "validator.class.htp-blank", "validator.class.htp-one", "option_history.reload-empty", "option_history.reload-empty-and-back",
            "option_history.reload-malformed", "option_history.update_failed", "option.unauthenticated_chunked_body_reaches_stream_threshold", "option.oversized_body", "safety.no_upstream_connection"]
TECHNIQUE = "runtime monitoring: sans-io conversations with the real ProxyAuth addon, reference Basic parser/validators, tag + credential search on the wire"
RULE = (
    "case = (validator kind, entry path, conversation of 1-6 items each with a credential presentation kind, segmentation, schedule); "
    "signature = (path, validator kind, sorted presentation kinds, #accepted, #refused); non-trivial iff the case contains both an "
    "accepted and a refused presentation, or a colon / non-ASCII password"
)
ASSUMPTIONS = [
    "single-user specs have no ':' in the password (the option parser rejects them at configure time; htpasswd and `any` cover ':' passwords)",
    "strict-invalid presentations that a tolerant reader could still decode to an accepted pair may be accepted or refused (DESIGN 3.7)",
    "requests inside an established tunnel / SOCKS session carry no proxy credentials of their own; tunnelled traffic is plain HTTP to port 80/8080",
    "options stream_large_bodies / body_size_limit / store_streamed_bodies vary; for an item whose body reaches a threshold (413, or the layer's abort for response+streaming) and for the items after it only the safety and strip clauses are decided",
    "HTTP/1 clients; origin answers are keep-alive with Content-Length; no HEAD requests (the 407/401 page carries a body -- framing is C01/C12's subject)",
    "transparent mode: the first TCP segment carries the complete first request (protocol detection on short first segments is C19's subject)",
]
LEVEL_TEXT = (
    "Exploration: generated conversations on every entry path run through the real layers with the real ProxyAuth addon; an independent "
    "RFC 7617 reader and validators that know the configured plaintext pairs decide which items must be refused/accepted, and unique "
    "tags/credentials are searched in everything written upstream and to the client. Decides the executions observed."
)
LEVEL_NOTE = "Trusted: vf/ref/c20_basic.py, vf/ref/http1.py, vf/sansio.py, vf/gen/c08_peers.py (proxy peer)."

TAG = re.compile(rb"t\d+-[0-9a-f]{6}")
PROXY = ("proxy.test", 8080)
PATHS = ["regular-abs", "regular-abs", "regular-connect", "regular-connect", "upstream-abs", "upstream-connect", "reverse", "transparent", "socks5", "socks5"]
MODE_OF = {"regular-abs": "regular", "regular-connect": "regular", "upstream-abs": "upstream:http://proxy.test:8080", "upstream-connect": "upstream:http://proxy.test:8080",
           "reverse": "reverse:http://target.test:80", "transparent": "transparent", "socks5": "socks5"}
ALNUM = "abcdefghijklmnopqrstuvwxyzABCDEFGHIJKLMNOPQRSTUVWXYZ0123456789"
NONASCII = ["é", "ü", "ж", "日本", "ß", "😀"]
VALID_KINDS = ["valid", "valid", "valid", "valid-colon-pw", "valid-colon-pw", "valid-nonascii", "valid-empty-pw", "valid-case-scheme", "valid-spaces"]
BAD_KINDS = ["wrong-pw", "wrong-user", "swapped", "missing", "missing", "empty-value", "scheme-only", "bad-b64", "no-colon", "bearer", "other-header",
             "trailing-junk", "no-padding", "tab-sep", "invalid-utf8", "long-pw", "long-pw", "long-pw", "nul-pw", "long-user", "invalid-utf8-pw"]

_TMP = {}


def tmpdir():
    if "d" not in _TMP:
        _TMP["d"] = tempfile.mkdtemp(prefix=f"vf-c20-{os.getpid()}-")
        _TMP["n"] = 0
    return _TMP["d"]


def word(r, n, extra=""):
    return "".join(r.choice(ALNUM + extra) for _ in range(n))


def make_pair(r, flavour):
    user = "u" + word(r, 7)
    pw = "p" + word(r, 8)
    if flavour == "colon":
        pw = r.choice([pw + ":" + word(r, 3), ":" + pw, pw + ":", pw[:3] + "::" + pw[3:], "a:b:c" + pw])
    elif flavour == "nonascii":
        if r.random() < 0.5:
            pw = pw + r.choice(NONASCII)
        else:
            user = user + r.choice(NONASCII)
    elif flavour == "empty":
        pw = ""
    return user, pw


# validator configuration classes (the fixed matrix runs every class on every path before the random cases)
VCLASSES = ["any", "single", "htp-many", "htp-one", "htp-empty", "htp-comments", "htp-blank"]
EMPTY_CLASSES = ("htp-empty", "htp-comments", "htp-blank")
MATRIX_HISTORIES = {"reload-N-0": ("htp-many", "reload-empty"), "reload-N-0-N": ("htp-many", "reload-empty-and-back"),
                    "revoke-user-removed": ("htp-many", "revoke-user-removed"), "revoke-password-changed": ("htp-many", "revoke-password-changed"),
                    "revoke-readded": ("htp-many", "revoke-readded"), "revoke-file-swapped": ("htp-many", "revoke-file-swapped")}
REVOKE_HISTORIES = ["revoke-user-removed", "revoke-password-changed", "revoke-readded", "revoke-file-swapped"]


class ProxyAuthB(ProxyAuth):
    """A second ProxyAuth instance in the same process (state kept on a class would be shared with the first one)."""


def empty_htpasswd_content(r, vclass, pairs=()):
    """An htpasswd file that parses but has NO active user: empty, blank lines, or every user commented out."""
    if vclass == "htp-empty":
        return ""
    if vclass == "htp-blank":
        return r.choice(["\n", "\n\n   \n\t\n", "   \n"])
    lines = ["# all users revoked"]
    for u, p in (list(pairs) or [make_pair(r, "plain")]):
        lines.append("#" + u + ":{SHA}" + base64.b64encode(__import__("hashlib").sha1(p.encode("utf-8")).digest()).decode("ascii"))
    return "\n".join(lines) + "\n"


def make_validator(r, vclass=None):
    vclass = vclass or r.choice(["single", "any", "any", "htp-many", "htp-many", "htp-many", "htp-many", "htp-one", "htp-empty", "htp-comments"])
    if vclass == "any":
        return rb.RefAny(), "any", [], vclass
    if vclass == "single":
        u, p = make_pair(r, r.choice(["plain", "plain", "nonascii", "empty"]))
        return rb.RefSingle(u, p), f"{u}:{p}", [(u, p)], vclass
    pairs = {}
    bcrypt_users = []
    if vclass == "htp-many":
        for fl in ["plain", "colon", "colon", "nonascii", "empty"]:
            u, p = make_pair(r, fl)
            pairs[u] = p
        for fl in ["plain", r.choice(["colon", "nonascii", "plain"])]:
            # bcrypt ($2b$) entries: their validator RAISES for passwords longer than 72 bytes
            u, p = make_pair(r, fl)
            pairs[u] = p
            bcrypt_users.append(u)
    elif vclass == "htp-one":
        u, p = make_pair(r, r.choice(["plain", "colon", "nonascii"]))
        pairs[u] = p
        if r.random() < 0.4:
            bcrypt_users.append(u)
    v = rb.RefHtpasswd(pairs, bcrypt_users, r)
    d = tmpdir()
    _TMP["n"] += 1
    path = os.path.join(d, f"htpasswd-{_TMP['n']}")
    with open(path, "w", encoding="utf-8") as f:
        f.write(empty_htpasswd_content(r, vclass) if vclass in EMPTY_CLASSES else v.file_content())
    return v, "@" + path, list(pairs.items()), vclass


def b64(s: str) -> str:
    return base64.b64encode(s.encode("utf-8")).decode("ascii")


def pick_pair(r, validator, pairs, want):
    """A pair the validator accepts with the wanted flavour (None if the configuration has none)."""
    if validator.kind == "any":
        return make_pair(r, want)
    def fl(u, p):
        if ":" in p:
            return "colon"
        if not p:
            return "empty"
        if any(ord(c) > 127 for c in u + p):
            return "nonascii"
        return "plain"
    c = [(u, p) for u, p in pairs if fl(u, p) == want]
    return r.choice(c) if c else None


def presentation(r, kind, validator, pairs, fresh=False):
    """-> dict(kind, value: str|None (header value), secrets: [bytes] (strings that must not travel upstream), other_header: bool, pair)"""
    want = {"valid-colon-pw": "colon", "valid-nonascii": "nonascii", "valid-empty-pw": "empty"}.get(kind, "plain")
    base = pick_pair(r, validator, pairs, want) or pick_pair(r, validator, pairs, "plain") or (pairs[0] if pairs else make_pair(r, "plain"))
    hostile = kind in ("long-pw", "nul-pw", "invalid-utf8-pw")
    if hostile and getattr(validator, "bcrypt_users", None) and r.random() < 0.8:
        bu = r.choice(sorted(validator.bcrypt_users))  # validator-hostile input aimed at a user whose entry is a bcrypt hash
        base = (bu, validator.pairs[bu])
    if fresh:
        base = make_pair(r, "plain")  # unrelated to any configured credential
    u, p = base
    out = {"kind": kind, "other_header": False, "pair": None}
    if kind.startswith("valid"):
        scheme = "Basic"
        sep = " "
        if kind == "valid-case-scheme":
            scheme = r.choice(["basic", "BASIC", "bAsIc"])
        if kind == "valid-spaces":
            sep = r.choice(["  ", "   "])
        out.update(value=f"{scheme}{sep}{b64(u + ':' + p)}", pair=(u, p))
    elif kind == "revoked":
        # a pair that WAS accepted before the last reload of the htpasswd file and is no longer in it
        u, p = r.choice(validator.revoked)
        out.update(value="Basic " + b64(u + ":" + p))
    elif kind == "wrong-pw":
        out.update(value="Basic " + b64(u + ":" + p + r.choice(["x", " ", "0"]) if r.random() < 0.5 else u + ":" + "W" + word(r, 6)), pair=None)
    elif kind == "wrong-user":
        out.update(value="Basic " + b64("W" + word(r, 6) + ":" + p))
    elif kind == "swapped":
        out.update(value="Basic " + b64(p + ":" + u))
    elif kind == "missing":
        out.update(value=None)
    elif kind == "empty-value":
        out.update(value="")
    elif kind == "scheme-only":
        out.update(value="Basic")
    elif kind == "bad-b64":
        out.update(value="Basic " + r.choice(["!!!" + word(r, 9) + "***", "%%%%", word(r, 5) + "\x7f" + word(r, 4), "====", "a"]))
    elif kind == "no-colon":
        out.update(value="Basic " + b64(u + p + word(r, 2)))
    elif kind == "bearer":
        out.update(value=r.choice(["Bearer ", "Digest ", "Negotiate ", "Basicx "]) + b64(u + ":" + p))
    elif kind == "other-header":
        out.update(value="Basic " + b64(u + ":" + p), other_header=True)
    elif kind == "trailing-junk":
        out.update(value="Basic " + b64(u + ":" + p) + " " + word(r, 4))
    elif kind == "no-padding":
        out.update(value="Basic " + b64(u + ":" + p).rstrip("="))
    elif kind == "tab-sep":
        out.update(value="Basic\t" + b64(u + ":" + p))
    elif kind == "long-pw":
        n = r.choice([73, 74, 80, 128, 200, 300])
        longpw = r.choice([word(r, n), p + "x" * n, (p + "y" * 72)[:72] + word(r, n - 72), "é" * (n // 2 + 1)])
        out.update(value="Basic " + b64(u + ":" + longpw))
    elif kind == "nul-pw":
        out.update(value="Basic " + b64(u + ":" + r.choice([p[:2] + "\x00" + p[2:], p + "\x00", "\x00" + p, p + "\x00" + word(r, 80)])))
    elif kind == "long-user":
        out.update(value="Basic " + b64(u + word(r, r.choice([80, 300, 2000])) + ":" + p))
    elif kind == "invalid-utf8-pw":
        out.update(value="Basic " + base64.b64encode(u.encode() + b":" + r.choice([b"\xff" * 80, p.encode() + b"\xc3", b"\xed\xa0\x80" + p.encode()])).decode())
    elif kind == "invalid-utf8":
        out.update(value="Basic " + base64.b64encode(u.encode() + b":" + p.encode() + b"\xff\xfe").decode())
    # "wrong header" presentations are evaluated as "nothing presented in the right header"
    out["expect"] = "refuse" if out["other_header"] else rb.expectation(out["value"], validator)
    out["bcrypt_user"] = u in getattr(validator, "bcrypt_users", ())
    tok = out["value"].split()[-1] if out["value"] and len(out["value"].split()) >= 2 else None
    out["token"] = tok.encode("latin-1", "replace") if tok and len(tok) >= 12 else None
    return out


def http_item(r, k, form, host, port, pres, proxy_hdr):
    tag = "t%d-%06x" % (k, r.getrandbits(24))
    method = r.choice(["GET", "GET", "POST", "POST", "OPTIONS", "PUT"])
    body = wire_body = b""
    framing = "none"
    lines = []
    au = host if port == 80 else f"{host}:{port}"
    target = f"http://{au}/{tag}" if form == "absolute" else f"/{tag}"
    lines.append(f"Host: {au}")
    if method in ("POST", "PUT"):
        # bodies from 11 bytes to ~3 kB so that small stream_large_bodies / body_size_limit thresholds are crossed,
        # with Content-Length (size known up front) or chunked (size only known while buffering) framing
        body = ("b:" + tag).encode() + b"x" * r.choice([0, 0, 30, 120, 300, 1500, 3000])
        framing = r.choice(["cl", "chunked", "chunked"])
        if framing == "cl":
            lines.append(f"Content-Length: {len(body)}")
            wire_body = body
        else:
            lines.append("Transfer-Encoding: chunked")
            pos = 0
            out = bytearray()
            while pos < len(body):
                n = r.randint(1, r.choice([4, 16, 100, 700]))
                out += b"%x\r\n" % len(body[pos : pos + n]) + body[pos : pos + n] + b"\r\n"
                pos += n
            wire_body = bytes(out) + b"0\r\n\r\n"
    if pres is not None and pres["value"] is not None:
        name = proxy_hdr
        if pres["other_header"]:
            name = "Authorization" if proxy_hdr == "Proxy-Authorization" else "Proxy-Authorization"
        name = r.choice([name, name, name.lower(), name.upper()])
        lines.insert(r.randint(0, len(lines)), f"{name}: {pres['value']}")
    raw = f"{method} {target} HTTP/1.1\r\n".encode() + "".join(l + "\r\n" for l in lines).encode("utf-8") + b"\r\n" + wire_body
    return {"what": "req", "tag": tag.encode(), "method": method, "raw": raw, "pres": pres, "body_len": len(body), "framing": framing}


def classify(item, validator_kind, path):
    """Mechanism from the input: what was presented, on which path."""
    pres = (item.get("auth_by") or item).get("pres")
    if pres and pres["pair"] is not None and ":" in pres["pair"][1] and path != "socks5" and not pres["other_header"]:
        return "basic-password-contains-colon"
    return None


def run_case(ctx, tctx, chain, forced=None, warm_instances=()):
    r = ctx.rng
    forced_hist = None
    if forced is not None:
        # fixed matrix cell: (validator configuration class | reload history) x entry path
        vc, path = forced
        if vc in MATRIX_HISTORIES:
            vc, forced_hist = MATRIX_HISTORIES[vc]
        validator, optval, pairs, vclass = make_validator(r, vc)
        ctx.count("matrix.cells")
    else:
        validator, optval, pairs, vclass = make_validator(r)
        path = r.choice(PATHS)
    ctx.count("validator.class." + vclass)
    mode = MODE_OF[path]
    fam = mode.split(":")[0]
    ctx.count("validator." + validator.kind)
    ctx.count("path." + {"regular-connect": "connect", "upstream-connect": "connect", "upstream-abs": "upstream"}.get(path, path))
    if path.startswith("upstream"):
        ctx.count("path.upstream")
    stream_thr = r.choice([None, None, 10, 50, 1024])
    size_limit = r.choice([None] * 6 + [64, 200, 1024])
    store_streamed = r.random() < 0.3
    tctx.options.update(
        proxyauth=optval, connection_strategy=r.choice(["eager", "lazy"]),
        stream_large_bodies=None if stream_thr is None else {10: "10", 50: "50", 1024: "1k"}[stream_thr],
        body_size_limit=None if size_limit is None else {64: "64", 200: "200", 1024: "1k"}[size_limit],
        store_streamed_bodies=store_streamed,
    )
    # runtime history of the proxyauth option before the traffic: failing updates (bad spec, missing file) and failing RELOADS of
    # the same htpasswd spec after the file was left malformed / removed.  options.proxyauth keeps its value (rollback), so
    # authentication stays configured and the validator in force is still the one the reference models.
    hist = r.choice(["none", "none", "none", "bad-spec", "missing-file", "reload-malformed", "reload-malformed", "reload-deleted", "reload-empty", "reload-empty", "reload-empty-and-back"] + REVOKE_HISTORIES)
    if hist.startswith("revoke") and vclass not in ("htp-many", "htp-one"):
        hist = "none"
    if hist.startswith("reload") and validator.kind != "htpasswd":
        hist = r.choice(["none", "bad-spec", "missing-file"])
    if hist.startswith("reload-empty") and vclass in EMPTY_CLASSES:
        hist = "none"
    if forced is not None:
        hist = forced_hist or "none"
    ctx.count("option_history." + hist)
    revoked = []
    if hist.startswith("revoke"):
        # three-step history: every configured pair is ACCEPTED once (presented to the requestheaders hook of the real addon,
        # instance A = the one in the hook chain, or a second instance B in the same process), then the operator revokes some of
        # them (user removed / password changed / removed and later re-added with another password / another file) and
        # re-sets the option; the conversation then presents the revoked pairs again.  Only the CURRENT configuration counts.
        from mitmproxy.proxy import mode_specs
        from mitmproxy.test import tflow

        inst = r.choice(warm_instances)
        for u, p in pairs:
            f = tflow.tflow()
            f.client_conn.proxy_mode = mode_specs.ProxyMode.parse("regular")
            f.request.headers["Proxy-Authorization"] = "Basic " + b64(u + ":" + p)
            inst.requestheaders(f)
            ctx.count("history.warmup_presented")
            if f.response is not None:
                ctx.violation("valid-credentials-refused", {"where": "warm-up before the reload", "pair": (u, p), "status": f.response.status_code, "htpasswd_pairs": pairs}, None)
        hp = optval[1:]
        old = dict(pairs)
        victims = r.sample(sorted(old), r.randint(1, max(1, len(old) // 2)))
        new = dict(old)
        bc = set(validator.bcrypt_users)

        def write(pairs_, path_=hp):
            with open(path_, "w", encoding="utf-8") as fh:
                fh.write(rb.RefHtpasswd(pairs_, bc & set(pairs_), r).file_content())

        if hist == "revoke-user-removed":
            for u in victims:
                del new[u]
            write(new)
            tctx.options.update(proxyauth=optval)
        elif hist == "revoke-password-changed":
            for u in victims:
                new[u] = make_pair(r, r.choice(["plain", "colon"]))[1]
            write(new)
            tctx.options.update(proxyauth=optval)
        elif hist == "revoke-readded":
            write({u: p for u, p in old.items() if u not in victims})
            tctx.options.update(proxyauth=optval)
            for u in victims:
                new[u] = make_pair(r, "plain")[1]
            write(new)
            tctx.options.update(proxyauth=optval)
        else:  # another file takes over
            victims = sorted(old)
            _v2, optval, _pairs2, _ = make_validator(r, "htp-many")
            new, bc = dict(_pairs2), set(_v2.bcrypt_users)
            tctx.options.update(proxyauth=optval)
        revoked = [(u, old[u]) for u in victims if new.get(u) != old[u]]
        validator = rb.RefHtpasswd(new, bc & set(new), r)
        validator.revoked = revoked
        pairs = list(new.items())
        ctx.count("history.accepted_then_revoked", len(revoked))
        ctx.count("history.warmup_on_second_addon_instance" if inst is not warm_instances[0] else "history.warmup_on_chain_addon_instance")
    elif hist.startswith("reload-empty"):
        # the operator revokes every user (comments them out / empties the file) and re-applies the option: the reload SUCCEEDS,
        # proxyauth stays configured, nobody is valid any more -- and, for "-and-back", restores the users and reloads again
        hp = optval[1:]
        original = open(hp, encoding="utf-8").read()
        with open(hp, "w", encoding="utf-8") as fh:
            fh.write(empty_htpasswd_content(r, r.choice(EMPTY_CLASSES), pairs))
        tctx.options.update(proxyauth=optval)
        if hist == "reload-empty-and-back":
            with open(hp, "w", encoding="utf-8") as fh:
                fh.write(original)
            tctx.options.update(proxyauth=optval)
        else:
            validator = rb.RefHtpasswd({}, (), r)
            pairs = []
            vclass = vclass + "->0"
    elif hist != "none":
        if hist == "bad-spec":
            attempt = r.choice(["nocolonspec", "ldap:broken", "@"])
        elif hist == "missing-file":
            attempt = "@" + os.path.join(tmpdir(), "does-not-exist-%d" % r.getrandbits(30))
        else:
            attempt = optval
            hp = optval[1:]
            if hist == "reload-malformed":
                with open(hp, "w", encoding="utf-8") as fh:
                    fh.write(r.choice(["userwithouthash\n", "bob:plaintextpassword\n", ":{SHA}abc\n", "alice:$1$md5crypt$unsupported\n"]))
            else:
                os.unlink(hp)
        try:
            tctx.options.update(proxyauth=attempt)
        except Exception:  # OptionsError (also from the rollback's re-configure)
            ctx.count("option_history.update_failed")
        else:
            raise Inconclusive(f"update proxyauth={attempt!r} was expected to fail")
        if tctx.options.proxyauth != optval:
            raise Inconclusive("options.proxyauth was not rolled back")
    proxy_hdr = "Proxy-Authorization" if fam in ("regular", "upstream") else "Authorization"

    def pres_kind(p_valid):
        if revoked and r.random() < 0.45:
            return "revoked"
        kinds = VALID_KINDS if r.random() < p_valid else BAD_KINDS
        for _ in range(8):
            k = r.choice(kinds)
            if validator.kind == "single" and k == "valid-colon-pw":
                continue
            if validator.kind == "any" and k in ("wrong-pw", "wrong-user", "swapped"):
                continue
            return k
        return "missing"

    items = []
    k = 0
    host = r.choice(["a.test", "b.test"])
    port = r.choice([80, 80, 8080])
    socks = None
    if path == "socks5":
        pk = pres_kind(0.55)
        methods = r.choice([[2], [0, 2], [2, 0], [0], [1, 2], []]) if r.random() < 0.4 else [2]
        if pk.startswith("valid") or pk in ("wrong-pw", "wrong-user", "swapped"):
            base = presentation(r, pk if pk.startswith("valid") else "valid", validator, pairs)["pair"]
            u, p = base
            if pk == "wrong-pw":
                p = p + "x"
            elif pk == "wrong-user":
                u = "W" + u
            elif pk == "swapped":
                u, p = (p or "e"), u
        elif pk == "revoked" and any(p_ for _, p_ in revoked):
            u, p = r.choice([x for x in revoked if x[1]])
            pk = "socks-revoked"
        elif pk in ("long-pw", "nul-pw") and getattr(validator, "bcrypt_users", None):
            u = r.choice(sorted(validator.bcrypt_users))
            p = validator.pairs[u]
            p = (word(r, r.choice([73, 80, 200, 255])) if r.random() < 0.5 else (p + "x" * 255).encode("utf-8")[:r.choice([73, 100, 255])].decode("utf-8", "ignore")) if pk == "long-pw" else p[:2] + "\x00" + p[2:]
            pk = "socks-" + pk
        else:
            pk = "wrong-pw" if validator.kind != "any" else "valid"
            u, p = make_pair(r, "plain")
        if not p:
            p = "q"  # RFC 1929: PLEN 1..255
            pk = "socks-" + pk
        if len(u.encode()) == 0:
            u = "e"
        ok = validator(u, p) and 2 in methods
        socks = {"methods": methods, "user": u, "pw": p, "ok": ok, "kind": pk + ("" if 2 in methods else "-no-method-2"), "pair": (u, p)}
        items.append({"what": "socks", "raw": rb.socks5_greeting(methods) + rb.socks5_userpass(u, p) + rb.socks5_connect(host, port), "expect": "accept" if ok else "refuse", "pres": {"kind": socks["kind"], "pair": (u, p), "other_header": False}})
        for _ in range(r.choice([1, 2, 3])):
            it = http_item(r, k, "origin", host, port, None, proxy_hdr)
            k += 1
            items.append(it)
    elif fam in ("reverse", "transparent"):
        if fam == "reverse":
            host, port = "target.test", 80
        for _ in range(r.choice([1, 2, 3, 4, 5])):
            pres = presentation(r, pres_kind(0.5), validator, pairs)
            items.append(http_item(r, k, "origin", host, port, pres, proxy_hdr))
            k += 1
    else:
        n_abs = r.choice([1, 2, 3, 4, 5]) if path.endswith("abs") else r.choice([0, 0, 1, 2])
        for _ in range(n_abs):
            pres = presentation(r, pres_kind(0.5), validator, pairs)
            items.append(http_item(r, k, "absolute", r.choice(["a.test", "b.test"]), r.choice([80, 8080]), pres, proxy_hdr))
            k += 1
        if path.endswith("connect"):
            for attempt in range(r.choice([1, 1, 2, 3])):
                last = False
                for _ in range(6):
                    pres = presentation(r, pres_kind(0.45 + 0.2 * attempt), validator, pairs)
                    if pres["expect"] != "either":
                        break
                else:
                    pres = presentation(r, "missing", validator, pairs)
                au = f"{host}:{port}"
                lines = [f"Host: {au}"]
                if pres["value"] is not None:
                    name = "Authorization" if pres["other_header"] else "Proxy-Authorization"
                    lines.insert(r.randint(0, 1), f"{name}: {pres['value']}")
                raw = f"CONNECT {au} HTTP/1.1\r\n".encode() + "".join(l + "\r\n" for l in lines).encode("utf-8") + b"\r\n"
                items.append({"what": "connect", "tag": None, "method": "CONNECT", "raw": raw, "pres": pres})
                if pres["expect"] == "accept":
                    break
            for _ in range(r.choice([1, 2, 3])):
                # inside the tunnel (or, if every CONNECT was refused, bytes a careless client pipelines anyway)
                pres = presentation(r, r.choice(["missing", "missing", "bad-b64", "bearer"]), validator, pairs, fresh=True) if r.random() < 0.3 else None
                items.append(http_item(r, k, "origin", host, port, pres, "Proxy-Authorization"))
                k += 1

    for it in items:
        pr = it.get("pres") or {}
        if pr.get("kind", "").endswith("revoked"):
            ctx.count("history.revoked_pair_presented")
        if pr.get("bcrypt_user") or (it["what"] == "socks" and it["pres"]["pair"][0] in getattr(validator, "bcrypt_users", ())):
            ctx.count("bcrypt.user_presented")
            if pr.get("kind", "").endswith("long-pw"):
                ctx.count("bcrypt.long_password")
    # ---- expectations
    authenticated = False
    auth_by = None
    for it in items:
        if it["what"] == "socks":
            authenticated = it["expect"] == "accept"
            auth_by = it
        elif path == "socks5":
            it["expect"] = "accept" if authenticated else "refuse"
            it["auth_by"] = auth_by
        elif authenticated:
            it["expect"] = "accept"
            it["auth_by"] = auth_by
        else:
            it["expect"] = it["pres"]["expect"] if it["pres"] is not None else "refuse"
            if it["what"] == "connect" and it["expect"] == "accept":
                authenticated = True
                auth_by = it

    # ---- peers
    def responder(kk, msg, peer):
        m = TAG.search(msg["target"])
        tag = m.group(0) if m else b"none"
        body = b"r:" + tag
        head = b"HTTP/1.1 200 OK\r\nx-tag: " + tag + b"\r\nContent-Length: %d\r\n\r\n" % len(body)
        return head + (b"" if msg["method"] == "HEAD" else body), False

    def server_factory(drv, conn):
        if tuple(conn.address[:2]) == PROXY:
            return P.ProxyPeer(responder)
        return P.OriginPeer(responder)

    top = {"regular": layers.modes.HttpProxy, "upstream": layers.modes.HttpUpstreamProxy, "reverse": layers.modes.ReverseProxy,
           "transparent": layers.modes.TransparentProxy, "socks5": layers.modes.Socks5Proxy}[fam]
    client = sansio.make_client(mode)
    d = sansio.Driver(lambda c: top(c), client=client, options=tctx.options, rng=r, addons=chain, server_factory=server_factory,
                      schedule=r.choice(["random", "random", "fifo"]), max_steps=4000)
    if fam == "transparent":
        d.context.server.address = (host, port)
    stream = b"".join(it["raw"] for it in items)
    segmode = r.choice(["whole", "items", "items", "random", "bytes"] if len(stream) < 900 else ["whole", "items", "random"])
    if segmode == "items":
        segs = [it["raw"] for it in items]
    else:
        from vf import peers as vpeers
        segs = vpeers.cut(stream, r, segmode)
    if fam == "transparent" and segmode not in ("whole", "items"):
        # protocol detection on a short first segment is C19's subject: the first segment carries the first request
        segs = [items[0]["raw"]] + vpeers.cut(stream[len(items[0]["raw"]):], r, segmode)
    d.attach_client_peer(sansio.ScriptPeer(segs))
    d.start()
    d.run()
    down = bytes(d.out[client])
    d.teardown()
    if d.budget_exceeded:
        ctx.count("inconclusive_cases")
        return None
    for e in d.exceptions:
        ctx.seen("layer_exceptions", f"{e[0]}@{e[1]}")
    ctx.seen("hook_sequences", ",".join(d.hook_names())[:300])

    up_all = b"".join(bytes(d.out[c]) for c in d.servers)
    up_msgs = {}
    for c in d.servers:
        data = bytes(d.out[c])
        pos = 0
        while pos < len(data):
            try:
                m, npos = ref.parse_request(data, pos)
            except (ref.Incomplete, ref.Reject):
                break
            t = TAG.search(m["target"])
            if t:
                up_msgs[t.group(0)] = m
            pos = npos
    witness = {"path": path, "mode": mode, "proxyauth_option_history": hist, "options": {"stream_large_bodies": stream_thr, "body_size_limit": size_limit, "store_streamed_bodies": store_streamed}, "proxyauth": optval if validator.kind != "htpasswd" else {"htpasswd_pairs": pairs}, "segmentation": segmode,
               "items": [(it["what"], it.get("pres") and it["pres"]["kind"], it["expect"], it["raw"][:200]) for it in items],
               "down": down[:1200], "upstream": up_all[:800], "hooks": d.hook_names()[:40]}

    # ---- client-bound stream: positionally matched answers
    answers = {}  # item index -> parsed response | ("socks", bytes)
    http_items = [(i, it) for i, it in enumerate(items) if it["what"] in ("req", "connect")]
    rest = down
    if path == "socks5":
        s = items[0]
        exp_prefix = b"\x05\x02" if 2 in socks["methods"] else b"\x05\xff"
        n = len(down)  # 05 FF + the rest of the error reply
        if 2 in socks["methods"]:
            n = 4 + (10 if socks["ok"] else 0)
        answers[0] = ("socks", down[:n])
        rest = down[n:]
    methods = [it["method"] for _, it in http_items]
    idx = 0
    while rest and idx < len(http_items):
        st, msgs, tail = ref.parse_responses(rest, methods[idx:], eof=True)
        for m in msgs:
            if 100 <= m["status"] < 200 and m["status"] != 101:
                continue
            if idx + m["for_request"] < len(http_items):
                answers[http_items[idx + m["for_request"]][0]] = m
        if st != "ok":
            ctx.count("down.unparsed")
            ctx.seen("down_unparsed", f"{path}:{st}:{tail[:60]!r}")
        if msgs and msgs[-1].get("framing") == "tunnel":
            idx = idx + msgs[-1]["for_request"] + 1
            rest = msgs[-1].get("after", b"")
            continue
        break

    auth_status = 407 if fam in ("regular", "upstream") else 401
    auth_field = "proxy-authenticate" if auth_status == 407 else "www-authenticate"
    n_acc = n_ref = 0
    # Option interplay (not C20's subject, only its safety half is): a body at/over body_size_limit is answered 413 and the
    # connection is closed; an unauthenticated request whose body reaches stream_large_bodies makes the layer abort
    # ("Can't set a response and enable streaming") -- nothing goes upstream, nothing more is answered on that connection.
    # For such items, and for everything after them, only safety / strip are decided.
    dead = False
    if fam in ("regular", "upstream") and all(x["expect"] == "refuse" for x in items):
        ctx.count("safety.no_upstream_connection")
        if d.servers:
            ctx.violation("upstream-connection-opened-for-unauthenticated-client", {**witness, "opened": [repr(c.address) for c in d.servers]}, None)
    for i, it in enumerate(items):
        exp = it["expect"]
        bl = it.get("body_len", 0)
        oversized = size_limit is not None and bl >= size_limit
        streamed = stream_thr is not None and bl >= stream_thr
        relaxed = dead or oversized or (streamed and exp != "accept")
        if oversized or (streamed and exp != "accept"):
            dead = True
            ctx.count("option.oversized_body" if oversized else "option.unauthenticated_body_reaches_stream_threshold")
            if streamed and not oversized and it.get("framing") == "chunked":
                ctx.count("option.unauthenticated_chunked_body_reaches_stream_threshold")
        mech = classify(it, validator.kind, path)
        if it["what"] == "socks":
            got = answers.get(0, ("socks", b""))[1]
            later = [x["tag"] for x in items[1:]]
            if exp == "refuse":
                n_ref += 1
                ctx.count("safety")
                if d.servers or any(t in up_all for t in later):
                    ctx.violation("socks5-unauthenticated-client-reaches-upstream", {**witness, "socks_answer": got}, mech)
                ctx.count("answer")
                want = b"\x05\x02\x01\x01" if 2 in socks["methods"] else b"\x05\xff"
                if not got.startswith(want):
                    ctx.violation("socks5-refusal-not-signalled", {**witness, "socks_answer": got, "want_prefix": want}, mech)
            else:
                n_acc += 1
                ctx.count("accept")
                if not got.startswith(b"\x05\x02\x01\x00\x05\x00"):
                    ctx.violation("socks5-valid-credentials-refused", {**witness, "socks_answer": got}, mech)
            continue
        tag = it["tag"]
        ans = answers.get(i)
        forwarded = tag is not None and tag in up_all
        is_auth_answer = isinstance(ans, dict) and ans["status"] == auth_status and any(n == auth_field for n, _ in ans["headers"])
        is_other_auth = isinstance(ans, dict) and ans["status"] in (401, 407) and not dict(ans["headers"]).get("x-tag")
        if exp == "refuse":
            n_ref += 1
            ctx.count("safety")
            if forwarded:
                ctx.violation("unauthenticated-request-forwarded", {**witness, "item": i, "tag": tag}, mech)
            if it["what"] == "connect" and isinstance(ans, dict) and 200 <= ans["status"] < 300:
                ctx.violation("unauthenticated-connect-established", {**witness, "item": i}, mech)
            if relaxed:
                pass
            elif ans is not None:
                ctx.count("answer")
                if not is_auth_answer:
                    ctx.violation("refused-without-authentication-required-answer", {**witness, "item": i, "answer_head": ans.get("raw_head") if isinstance(ans, dict) else ans}, mech)
            elif i == min(j for j, x in enumerate(items) if x["expect"] == "refuse") and all(x["expect"] == "accept" for x in items[:i]):
                # the first refusal on a so far healthy connection must be answered
                ctx.count("answer")
                ctx.violation("refused-without-any-answer", {**witness, "item": i}, mech)
        elif exp == "accept":
            n_acc += 1
            ctx.count("accept")
            if relaxed:
                pass
            elif is_other_auth and not forwarded:
                ctx.violation("valid-credentials-refused", {**witness, "item": i, "presented": it["pres"] and it["pres"]["kind"], "pair": it["pres"] and it["pres"]["pair"]}, mech)
            elif it["what"] == "req":
                healthy = all(isinstance(answers.get(j), dict) for j, x in enumerate(items[:i]) if x["what"] != "socks")
                if healthy and not forwarded:
                    ctx.violation("authenticated-request-not-forwarded", {**witness, "item": i, "tag": tag}, mech)
                elif forwarded and isinstance(ans, dict) and dict(ans["headers"]).get("x-tag") != tag:
                    ctx.violation("authenticated-request-answered-with-wrong-response", {**witness, "item": i, "tag": tag}, mech)
            elif it["what"] == "connect":
                if isinstance(ans, dict) and not (200 <= ans["status"] < 300) and ans["status"] != 502:
                    ctx.violation("valid-credentials-refused", {**witness, "item": i, "presented": it["pres"]["kind"], "pair": it["pres"]["pair"]}, mech)
            pres = it.get("pres")
            if pres and pres.get("token") and not pres["other_header"] and pres["expect"] == "accept":
                ctx.count("strip")
                if pres["token"] in up_all:
                    ctx.violation("credential-token-forwarded-upstream", {**witness, "item": i, "token": pres["token"]}, mech)
                um = up_msgs.get(tag) if tag else None
                if um is not None and any(n in ("proxy-authorization",) or (n == "authorization" and fam in ("reverse", "transparent")) for n, _ in um["headers"]):
                    ctx.violation("credential-header-forwarded-upstream", {**witness, "item": i, "upstream_head": um["raw_head"]}, mech)
        else:
            ctx.count("total")
            if forwarded and is_auth_answer:
                ctx.violation("request-both-forwarded-and-refused", {**witness, "item": i}, mech)
            if forwarded and it.get("pres") and it["pres"].get("token") and it["pres"]["token"] in up_all:
                ctx.violation("credential-token-forwarded-upstream", {**witness, "item": i, "token": it["pres"]["token"]}, mech)

    kinds = sorted({(it.get("pres") or {}).get("kind") or "none" for it in items})
    special = any(it.get("pres") and it["pres"].get("pair") and (":" in it["pres"]["pair"][1] or any(ord(c) > 127 for c in "".join(it["pres"]["pair"]))) for it in items)
    sig = (path, vclass, hist, tuple(kinds), min(n_acc, 3), min(n_ref, 3), stream_thr, size_limit, tuple(sorted({x.get("framing", "none") for x in items})))
    sample = {"path": path, "proxyauth": optval if validator.kind != "htpasswd" else f"htpasswd file, class {vclass}, {len(pairs)} active users", "items": [(it["what"], (it.get("pres") or {}).get("kind"), it["expect"]) for it in items], "client_got": down[:160]}
    return sig, (n_acc > 0 and n_ref > 0) or special or (not pairs and validator.kind == "htpasswd" and n_ref > 0), sample


def run(ctx):
    tctx, addons = sansio.addon_context(ProxyAuth, ProxyAuthB)
    pa, pa_b = addons[2], addons[3]
    chain = [addons[1], pa]
    keep = {k: getattr(tctx.options, k) for k in ("proxyauth", "connection_strategy", "stream_large_bodies", "body_size_limit", "store_streamed_bodies")}
    try:
        matrix = [(vc, path) for vc in VCLASSES + sorted(MATRIX_HISTORIES) for path in sorted(set(PATHS))]
        for i in ctx.cases():
            cell = i * ctx.nworkers + ctx.worker  # cell k of the fixed matrix is run by worker k % nworkers as its case k // nworkers
            res = ctx.guard(run_case, ctx, tctx, chain, matrix[cell] if cell < len(matrix) else None, (pa, pa_b), what="c20 case")
            if res is None:
                ctx.case(("aborted",), False)
                continue
            ctx.case(*res)
    finally:
        tctx.options.update(**keep)
        if "d" in _TMP:
            shutil.rmtree(_TMP["d"], ignore_errors=True)
