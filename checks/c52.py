"""C52 -- server replay serves recorded responses only to matching requests, in order.

Monitor (history level, lock-step): random recording sets with colliding and nearly colliding requests are loaded
into the real `ServerPlayback` addon (inside `taddons.context`), then requests, option changes
(`tctx.configure`), `replay.server.add` and reloads are interleaved.  Every recorded response carries a unique
tag, so after each real `request` hook the monitor knows which recording (if any) was served.  The reference
(vf/ref/c52_replaymodel.py) computes matching keys structurally from the request *specs* (no parsing, no
hashing) in a strict and a tolerant reading; checked after every hook: (safety) a served recording's key equals
the request's key even under the tolerant reading; (once) without reuse no recording is served twice; (order) no
earlier-recorded, still unserved recording with a strictly equal key was skipped -- with reuse the first one is
served every time; (complete) a request whose strict key equals that of an unserved recording is served;
(unmatched) otherwise the flow is untouched / killed / answered with the configured status; (inventory) the
response-bearing flows in `flowmap` are exactly the model's unserved recordings after every operation, and
an option change leaves the multiset of flows in `flowmap` unchanged.
"""
import logging

from mitmproxy import http
from mitmproxy.addons import serverplayback
from mitmproxy.test import taddons, tflow, tutils

from vf.ref import c52_replaymodel as ref

PROPERTY = "C52"
LEVEL = "exploration"
BUDGET = {"quick": (800, 9), "thorough": (60_000, 170)}
WORKERS = {"quick": 2, "thorough": 16}
REQUIRED = ["safety", "once", "order", "complete", "unmatched", "inventory", "reindex_preserves", "served", "served_after_option_change"]
ENGINE = "direct"
TECHNIQUE = "history-level lock-step monitor on the real addon; structural (tuple) key model in strict and tolerant readings; unique response tags"
RULE = (
    "case = (initial combination of the 6 matching options, reuse, extra/kill setting, 3-15 recordings derived from one "
    "base request by 0-2 component mutations [method, scheme, host, Host header, port, path incl. ;params and #fragment, "
    "query pairs (order swap, a=1&b=2 vs a=1%26b=2, blank values, ignored names, names repeated 2-3 times with one non-first "
    "value changed/swapped/dropped/added -- likewise for form fields and for headers named in use_headers; ignore_* lists name "
    "other fields, the repeated field, or nothing), body None/empty/raw/urlencoded/multipart "
    "form fields, extra headers], ~15% without response; then 5-40 operations: request (copy of a recording re-encoded or "
    "changed only in currently ignored components, or a near-miss mutation), change of 1-2 matching options, change of "
    "reuse/extra/refresh, replay.server.add, reload); distinct = (option combination, reuse, extra kind, set of observed "
    "events: served/unmatched kinds/equal-key queue/served after re-index/response-less skipped/add/reload); non-trivial = "
    ">= 1 request served a recording and >= 1 request unmatched"
)
ASSUMPTIONS = [
    "replay is 'active' while replay.server.count > 0 (once every recording is consumed the addon stands down)",
    "obligations (must serve / order) use the strict key: ordered decoded pairs, None != empty body, destination host and Host header both equal",
    "safety uses the tolerant key: pairs as multisets, absent == empty body, host equal if destination host or Host-header host agree (case-insensitive)",
    "deprecated server_replay_nopop / server_replay_kill_extra are treated as aliases of reuse / extra=kill",
]
LEVEL_TEXT = (
    "Randomised exploration of histories x configurations against the real addon with a lock-step structural model; every "
    "request hook and every operation is judged. All 64 on/off combinations of the six matching options occur as initial "
    "configurations in a thorough run; the request universe is small and built to collide. Not exhaustive."
)
LEVEL_NOTE = "Trusted: tflow/treq/tresp factories, taddons.context option plumbing, Response.copy/refresh keeping the tag header and body."

HOSTS = ["example.com", "EXAMPLE.com", "other.org", "10.0.0.1"]
HOST_HEADERS = [None, None, "example.com", "example.com:8080", "other.org", "EXAMPLE.com"]
PORTS = [80, 8080, 443]
PATHS = ["/a", "/a", "/a/", "/b", "/a;x=1", "/a;x=2", "/a;x=1/c", "/a%41", "/a#f1", "/a#f2"]
QUERIES = [
    None, [], [("a", "1")], [("a", "1"), ("b", "2")], [("b", "2"), ("a", "1")], [("a", "1&b=2")], [("a", "")],
    [("a", "1"), ("a", "2")], [("a", "2"), ("a", "1")], [("a", "1"), ("a", "3")], [("a", "1"), ("a", "2"), ("a", "3")], [("a", "1"), ("a", "3"), ("a", "2")],
    [("a", "1"), ("ts", "@"), ("a", "2")], [("a", "1"), ("b", "2"), ("a", "2")], [("b", "1"), ("b", "2"), ("a", "1")], [("b", "1"), ("b", "3"), ("a", "1")],
    [("a ", "+x")], [("a", "1"), ("ts", "@")], [("ts", "@")], [("b", "2"), ("ts", "@")],
]
BODIES = [
    ("none", b"", []), ("empty", b"", []), ("raw", b"x", []), ("raw", b"None", []), ("raw", b"p=1&tok=r1", []),
    ("urlenc", b"", [("p", "1"), ("tok", "@")]), ("urlenc", b"", [("p", "2")]), ("urlenc", b"", [("tok", "@")]),
    ("urlenc", b"", [("k", "v&w"), ("p", "1")]), ("urlenc", b"", [("p", "1"), ("k", "v&w")]), ("urlenc", b"", []),
    ("multipart", b"", [("p", "1"), ("tok", "@")]), ("multipart", b"", [("p", "2")]), ("multipart", b"", [("tok", "@")]),
] + [
    (kind, b"", f)
    for kind in ("urlenc", "multipart")
    for f in (
        [("item", "1"), ("item", "2"), ("tok", "@")], [("item", "1"), ("item", "3"), ("tok", "@")], [("item", "2"), ("item", "1"), ("tok", "@")],
        [("item", "1"), ("item", "2"), ("item", "3")], [("item", "1"), ("item", "3"), ("item", "2")], [("item", "1"), ("tok", "@"), ("item", "2")],
        [("item", "1"), ("tok", "@")], [("p", "1"), ("p", "2"), ("item", "1")], [("p", "1"), ("p", "3"), ("item", "1")], [("tok", "@"), ("tok", "@"), ("item", "1")],
    )
]
HEADERS = [
    [], [], [("x-id", "1")], [("x-id", "2")], [("X-ID", "1")], [("x-id", "1"), ("x-id", "2")], [("x-id", "1, 2")], [("accept", "*/*")], [("accept", "*/*"), ("x-id", "1")],
    [("x-id", "1"), ("x-id", "3")], [("x-id", "2"), ("x-id", "1")], [("x-id", "1"), ("X-Id", "2"), ("x-id", "3")], [("x-id", "1"), ("accept", "*/*"), ("x-id", "2")],
    [("accept", "a/b"), ("accept", "c/d")], [("accept", "a/b"), ("accept", "e/f")],
]
OPT_VALUES = {
    "ignore_content": [False, True],
    "ignore_host": [False, True],
    "ignore_port": [False, True],
    "ignore_params": [[], ["ts"], ["ts", "b"], ["ts"], ["a"]],
    "ignore_payload_params": [[], ["tok"], ["tok", "p"], ["tok"], ["item"]],
    "use_headers": [[], ["x-id"], ["X-Id", "accept"]],
}
EXTRAS = ["forward", "forward", "kill", "204", "404", "500"]
KILLED = "Connection killed."


def fill(r, template):
    """'@' placeholders become a random small token (ignored-parameter noise)."""
    return [(k, v.replace("@", r.choice(["r1", "r2", "r3"]))) for k, v in template]


def mutate(r, spec, comp=None):
    s = spec.copy()
    comp = comp or r.choice(["method", "scheme", "host", "host_header", "port", "path", "query", "query", "body", "body", "headers", "enc"])
    if comp == "method":
        s.method = r.choice(["GET", "POST", "PUT"])
    elif comp == "scheme":
        s.scheme = r.choice(["http", "https"])
    elif comp == "host":
        s.host = r.choice(HOSTS)
    elif comp == "host_header":
        s.host_header = r.choice(HOST_HEADERS)
    elif comp == "port":
        s.port = r.choice(PORTS)
    elif comp == "path":
        s.path = r.choice(PATHS)
    elif comp == "query":
        q = r.choice(QUERIES)
        s.query = None if q is None else fill(r, q)
    elif comp == "body":
        kind, raw, fields = r.choice(BODIES)
        s.body_kind, s.body_raw, s.fields = kind, raw, fill(r, fields)
    elif comp == "headers":
        s.headers = list(r.choice(HEADERS))
    elif comp == "enc":
        s.enc_style = r.randrange(8)
    return s


def tweak(r, spec):
    """Near-collision inside a multi-valued component (query pairs, form fields, headers): change, swap, drop or add
    ONE occurrence of a repeated name, preferably a non-first one."""
    s = spec.copy()
    which = [n for n in ("query", "fields", "headers") if getattr(s, n)]
    if not which:
        s.query = [("a", "1"), ("a", r.choice(["2", "3"]))]
        return s
    attr = r.choice(which)
    lst = list(getattr(s, attr))
    names = [k.lower() for k, _ in lst]
    repeated = [i for i, k in enumerate(names) if names.index(k) != i]  # non-first occurrences
    op = r.choice(["change", "change", "swap", "drop", "add"])
    if not repeated or op == "add":
        k, _v = r.choice(lst)
        lst.insert(r.randrange(len(lst) + 1), (k, r.choice(["2", "3", "4"])))
    else:
        i = r.choice(repeated)
        k, v = lst[i]
        if op == "change":
            lst[i] = (k, r.choice([x for x in ["1", "2", "3", "4"] if x != v]))
        elif op == "swap":
            j = names.index(names[i])
            lst[i], lst[j] = (lst[i][0], lst[j][1]), (lst[j][0], lst[i][1])
        else:
            del lst[i]
    setattr(s, attr, lst)
    return s


def ignored_components(opts):
    out = ["enc"]
    if opts["ignore_host"]:
        out += ["host", "host_header"]
    if opts["ignore_port"]:
        out.append("port")
    if opts["ignore_content"]:
        out.append("body")
    if not opts["use_headers"]:
        out.append("headers")
    return out


def make_flow(spec, tag=None):
    content, ct = ref.body_bytes(spec)
    hdrs = []
    if spec.host_header is not None:
        hdrs.append((b"Host", spec.host_header.encode()))
    if ct:
        hdrs.append((b"content-type", ct.encode()))
    for n, v in spec.headers:
        hdrs.append((n.encode(), v.encode()))
    req = tutils.treq(
        method=spec.method.encode(), scheme=spec.scheme.encode(), host=spec.host, port=spec.port,
        path=ref.target(spec).encode(), headers=http.Headers(hdrs), content=content,
    )
    resp = False
    if tag is not None:
        resp = tutils.tresp(content=tag.encode(), headers=http.Headers([(b"x-tag", tag.encode()), (b"date", b"Wed, 21 Oct 2015 07:28:00 GMT")]))
    return tflow.tflow(req=req, resp=resp)


class Rec:
    def __init__(self, idx, spec, tag, has_resp, flow, loaded_at):
        self.idx, self.spec, self.tag, self.has_resp, self.flow = idx, spec, tag, has_resp, flow
        self.consumed = False
        self.loaded_at = loaded_at  # index into the option-snapshot list


def describe(spec):
    return {"m": spec.method, "s": spec.scheme, "h": spec.host, "hh": spec.host_header, "port": spec.port, "target": ref.target(spec),
            "body": [spec.body_kind, spec.body_raw if spec.body_kind == "raw" else spec.fields], "hdr": spec.headers}


def classify_safety(diff, q, x):
    """Mechanism for a response served to a request that differs in `diff` components (input condition only)."""
    if not set(diff) <= {"path", "query"}:
        return None
    marker = any(c in p for p in (q.path, x.path) for c in ";#")
    frag = "#" in q.path or "#" in x.path
    if not marker or ref.strip_params_and_fragment(q.path) != ref.strip_params_and_fragment(x.path):
        return None
    if "query" in diff and not frag:
        return None
    return "urlparse-drops-path-params-and-fragment"


def classify_order(x, y, snapshots, now_opts):
    """X was served although the earlier-recorded Y has an equal key now: known iff matching options changed after
    both were loaded and, under an earlier option set, X and Y were in different groups -- recompute_hashes then
    re-adds the flows grouped by their old key."""
    start = max(x.loaded_at, y.loaded_at)
    earlier = snapshots[start:-1]
    if not earlier:
        return None
    for o in earlier:
        if ref.grouped_apart(x.spec, y.spec, o):
            return "reindex-groups-by-old-key-losing-recording-order"
    return None


def real_opts(o, reuse_pair, extra, kill_extra, refresh):
    d = {"server_replay_" + k: v for k, v in o.items()}
    d["server_replay_reuse"], d["server_replay_nopop"] = reuse_pair
    d["server_replay_extra"] = extra
    d["server_replay_kill_extra"] = kill_extra
    d["server_replay_refresh"] = refresh
    return d


def one_history(ctx, sp, tctx):
    r = ctx.rng
    # ---- configuration
    combo = (ctx.case_index * ctx.nworkers + ctx.worker) % 64 if r.random() < 0.8 else r.randrange(64)
    opts = {}
    for bit, name in enumerate(ref.HASH_OPTS):
        vals = OPT_VALUES[name]
        opts[name] = (r.choice(vals[1:]) if combo >> bit & 1 else vals[0])
    reuse_pair = r.choice([(False, False), (False, False), (True, False), (False, True)])
    extra = r.choice(EXTRAS)
    kill_extra = r.random() < 0.1
    refresh = r.random() < 0.5
    sp.clear()
    tctx.configure(sp, **real_opts(opts, reuse_pair, extra, kill_extra, refresh))
    snapshots = [dict(opts)]
    events = set()
    hist = []
    recs: list[Rec] = []
    by_tag = {}
    counter = [0]

    base = ref.ReqSpec()
    for _ in range(r.choice([0, 1, 2, 3])):
        base = mutate(r, base)

    def new_recs(n):
        out = []
        for _ in range(n):
            s = base
            for _ in range(r.choice([0, 0, 1, 1, 2])):
                s = mutate(r, s)
            if recs and r.random() < 0.3:
                s = r.choice(recs).spec.copy()
                if r.random() < 0.5:
                    s = tweak(r, s)  # recordings that differ in one occurrence of a repeated name
            has = r.random() < 0.85
            tag = f"T{ctx.case_index}-{counter[0]}"
            counter[0] += 1
            rec = Rec(len(recs), s, tag, has, make_flow(s, tag if has else None), len(snapshots) - 1)
            recs.append(rec)
            by_tag[tag] = rec
            out.append(rec)
        return out

    def inventory(where):
        ctx.count("inventory")
        real_tags = sorted(f.response.content.decode() for lst in sp.flowmap.values() for f in lst if f.response)
        reuse = any(reuse_pair)
        model_tags = sorted(x.tag for x in recs if x.has_resp and not x.consumed)
        if real_tags != model_tags:
            ctx.violation(
                "unserved-recordings-differ-from-model",
                {"where": where, "lost": sorted(set(model_tags) - set(real_tags)), "extra_or_duplicated": sorted(t for t in real_tags if real_tags.count(t) > model_tags.count(t)),
                 "reuse": reuse, "history_tail": hist[-4:]},
                None,
            )
            return False
        return True

    first = new_recs(r.choice([3, 4, 6, 9, 12, 15]))
    sp.load_flows([x.flow for x in first])
    hist.append(("load", [describe(x.spec) | {"tag": x.tag if x.has_resp else None} for x in first]))
    inventory("load")
    served_n = unmatched_n = 0
    option_changed_since_load = False

    for _step in range(r.choice([5, 10, 20, 40])):
        z = r.random()
        if z < 0.12:
            # ---- change matching options
            before = sorted(id(f) for lst in sp.flowmap.values() for f in lst)
            changes = {}
            for name in r.sample(ref.HASH_OPTS, r.choice([1, 1, 2])):
                changes[name] = r.choice(OPT_VALUES[name])
            opts.update(changes)
            tctx.configure(sp, **{"server_replay_" + k: v for k, v in changes.items()})
            snapshots.append(dict(opts))
            option_changed_since_load = True
            events.add("optchange")
            hist.append(("options", changes))
            after = sorted(id(f) for lst in sp.flowmap.values() for f in lst)
            ctx.count("reindex_preserves")
            if before != after:
                ctx.violation("option-change-lost-or-duplicated-recordings", {"before": len(before), "after": len(after), "changes": changes, "history_tail": hist[-4:]}, None)
            inventory("options")
        elif z < 0.18:
            reuse_pair = r.choice([(False, False), (True, False), (False, True)])
            extra = r.choice(EXTRAS)
            kill_extra = r.random() < 0.1
            refresh = r.random() < 0.5
            tctx.configure(sp, server_replay_reuse=reuse_pair[0], server_replay_nopop=reuse_pair[1], server_replay_extra=extra,
                           server_replay_kill_extra=kill_extra, server_replay_refresh=refresh)
            hist.append(("behaviour", {"reuse": reuse_pair, "extra": extra, "kill_extra": kill_extra}))
            events.add("behaviour-change")
            inventory("behaviour")
        elif z < 0.23:
            more = new_recs(r.choice([1, 2, 3]))
            sp.add_flows([x.flow for x in more])
            hist.append(("add", [describe(x.spec) | {"tag": x.tag if x.has_resp else None} for x in more]))
            events.add("add")
            inventory("add")
        elif z < 0.25:
            # ---- reload: previous recordings are dropped
            for x in recs:
                x.consumed = True
            again = new_recs(r.choice([2, 5]))
            sp.load_flows([x.flow for x in again])
            hist.append(("reload", [describe(x.spec) | {"tag": x.tag if x.has_resp else None} for x in again]))
            events.add("reload")
            option_changed_since_load = False
            inventory("reload")
        else:
            # ---- request
            live = [x for x in recs if not x.consumed]
            if live and r.random() < 0.65:
                src = r.choice(live).spec
                q = src.copy()
                for _ in range(r.choice([0, 1, 2])):
                    q = mutate(r, q, r.choice(ignored_components(opts)))
                # re-randomise ignored parameter noise
                if q.query:
                    q.query = [(k, r.choice(["r1", "r2", "r3"]) if k in opts["ignore_params"] else v) for k, v in q.query]
                if opts["ignore_payload_params"] and not opts["ignore_content"]:
                    q.fields = [(k, r.choice(["r1", "r2", "r3"]) if k in opts["ignore_payload_params"] else v) for k, v in q.fields]
            else:
                q = r.choice(recs).spec if recs else base
                if r.random() < 0.4:
                    q = tweak(r, q)
                else:
                    for _ in range(r.choice([1, 1, 2])):
                        q = mutate(r, q)
            f = make_flow(q)
            reuse = any(reuse_pair)
            active = sp.count() > 0
            qkey = ref.strict_key(q, opts)
            equal_unserved = [x for x in recs if x.has_resp and not x.consumed and ref.strict_key(x.spec, opts) == qkey]
            if len(equal_unserved) > 1:
                events.add("equal-key-queue")
            try:
                sp.request(f)
            except Exception as e:
                ctx.violation("request-hook-raises", {"request": describe(q), "exc": repr(e), "history_tail": hist[-3:]}, None)
                hist.append(("request", describe(q), "EXC"))
                continue
            # ---- outcome
            tag = None
            if f.response is not None:
                t = f.response.headers.get("x-tag")
                if t in by_tag:
                    tag = t
            if tag is not None:
                outcome = "served:" + tag
            elif f.response is not None:
                outcome = f"status:{f.response.status_code}"
            elif f.error is not None:
                outcome = "killed" if f.error.msg == KILLED else "error"
            else:
                outcome = "forwarded"
            hist.append(("request", describe(q), outcome, {"reuse": reuse}))
            w = {"request": describe(q), "outcome": outcome, "options": dict(opts), "reuse": reuse, "extra": extra, "kill_extra": kill_extra,
                 "history_tail": hist[-6:]}
            if tag is not None:
                x = by_tag[tag]
                served_n += 1
                ctx.count("served")
                events.add("served-reuse" if reuse else "served")
                if option_changed_since_load:
                    ctx.count("served_after_option_change")
                    events.add("served-after-reindex")
                if f.response.content != tag.encode() or f.is_replay != "response":
                    ctx.count("served_response_altered_or_unmarked")
                # safety
                ctx.count("safety")
                diff = ref.loose_diff(q, x.spec, opts)
                if diff:
                    ctx.violation("served-to-request-with-different-key", w | {"recording": describe(x.spec), "differs_in": diff}, classify_safety(diff, q, x.spec))
                # once
                ctx.count("once")
                if x.consumed:
                    ctx.violation("recording-served-after-it-was-consumed", w | {"recording": describe(x.spec)}, None)
                # order
                ctx.count("order")
                earlier = [y for y in equal_unserved if y.idx < x.idx]
                if earlier:
                    y = earlier[0]
                    ctx.violation(
                        "reuse-did-not-serve-first-equal-recording" if reuse else "equal-key-recordings-served-out-of-recording-order",
                        w | {"served": x.tag, "skipped_earlier": y.tag, "served_recording": describe(x.spec), "skipped_recording": describe(y.spec),
                             "option_history": snapshots[max(x.loaded_at, y.loaded_at):]},
                        classify_order(x, y, snapshots, opts),
                    )
                if not reuse:
                    x.consumed = True
                if any(not y.has_resp and not y.consumed and ref.strict_key(y.spec, opts) == qkey and y.idx < x.idx for y in recs):
                    events.add("response-less-skipped")
            else:
                ctx.count("complete")
                if equal_unserved:
                    y = equal_unserved[0]
                    ctx.violation("matching-recording-not-served", w | {"recording": describe(y.spec), "tag": y.tag}, None)
                elif active:
                    unmatched_n += 1
                    ctx.count("unmatched")
                    if kill_extra or extra == "kill":
                        want = "killed"
                    elif extra != "forward":
                        want = f"status:{extra}"
                    else:
                        want = "forwarded"
                    events.add("unmatched-" + ("status" if want.startswith("status") else want))
                    if outcome != want:
                        ctx.violation("unmatched-request-not-handled-as-configured", w | {"expected": want}, None)
                else:
                    ctx.count("requests_while_inactive")
                    events.add("inactive")
            if not inventory("request"):
                break
    sig = (combo, any(reuse_pair), extra if extra in ("forward", "kill") else "status", tuple(sorted(events)))
    ctx.case(sig, nontrivial=served_n >= 1 and unmatched_n >= 1, sample={"options": snapshots[0], "history": hist[:3]})


def run(ctx):
    logging.disable(logging.CRITICAL)
    sp = serverplayback.ServerPlayback()
    with taddons.context(sp) as tctx:
        for _ in ctx.cases():
            one_history(ctx, sp, tctx)
