"""C44 -- option updates are transactional, typed and survive a config round-trip.

Monitor (model/history): a real mitmproxy.optmanager.OptManager with options of every supported type (bool, str, int,
optional str/int, sequence of str; some added late), 2-5 listeners (both .changed receivers and subscribe()d callbacks)
that reject by rule and 0-3 cascading listeners (subscribe()d callbacks that react to option A being set by a nested
update of a derived option B := f(A), subscribed in random order before/after the rejecting ones; listeners are bound
methods of objects, some of which are dropped and garbage-collected or newly subscribed between updates) is driven with a random history: update / attribute assignment / set-specs (with and without defer) /
update_defer / late add_option + process_deferred / reset / toggler / setter.  A model (vf/ref/c44_options.py) predicts for
each operation whether it must be accepted or must raise and the values afterwards.  After every operation:
  outcome     accepted vs raised (and the error class) as predicted
  values      every option equals the model (a raising operation changes nothing, an accepted one assigns exactly its names)
  typed       every stored value conforms to the option's declared type (own checker)
  listeners   an accepted update reached every listener in scope exactly once with exactly the assigned names; whatever
              happened, each listener's last observed value of every option in its scope equals the current value
  roundtrip   (every few operations) optmanager.save to a file + load_paths into fresh options reproduces every non-default value
"""
import gc
import os
import shutil
import tempfile
import weakref
from collections.abc import Sequence
from typing import Optional

from mitmproxy import exceptions
from mitmproxy import optmanager

from vf.ref import c44_options as ref

PROPERTY = "C44"
LEVEL = "exploration"
BUDGET = {"quick": (1500, 14), "thorough": (100_000, 200)}
WORKERS = {"quick": 2, "thorough": 16}
REQUIRED = ["outcome", "values", "typed", "listeners", "roundtrip", "rejected_after_cascade", "listener_dropped", "update_after_drop"]
ENGINE = "direct"
TECHNIQUE = "model-based history checking of the real OptManager plus save/load differential against the model"
RULE = (
    "case = one random history of 5-40 operations on a fresh OptManager with 12 options of all six supported types (+4 added "
    "late, +2 derived) with 2-5 rule-based rejecting listeners and 0-3 cascading listeners (nested update of a derived option) in random "
    "subscription order, listeners dropped + gc.collect()ed (followed by an update every live subscriber hears) or added mid-history; values drawn from YAML-hostile strings (yes/no/null/~, numbers as strings, quotes, "
    "': ', '#', leading/trailing blanks, newlines, tabs, NEL/LS/PS, astral, empty), wrong types, unknown names; distinct = (operation "
    "kinds, outcomes seen, string classes used, listener set) signature; non-trivial = the history contains at least one accepted "
    "multi-name update, one raising operation and one save/load round trip with a non-default hostile string"
)
ASSUMPTIONS = [
    "an operation that raises (OptionsError from a listener, TypeError, KeyError for unknown names) must leave every option unchanged (DESIGN C44)",
    "bool values are never offered to int options (Python treats bool as int; the statement does not say which reading applies)",
    "list and tuple are the same value for sequence options; only non-default values are compared after save/load",
    "the set of deferred (not yet known) options is input state, not part of the property",
]
LEVEL_TEXT = (
    "Randomised exploration of update histories with a full comparison against an executable model after each operation and a real "
    "file round trip every few operations. Finite option set and bounded histories; evidence on the sampled space, not a proof."
)
LEVEL_NOTE = "Trusted: the model vf/ref/c44_options.py (acceptance prediction, type checker, set-spec parser); listeners are harness code using the public API."

M_TYPE = "typeerror-on-later-key-keeps-earlier-keys"
M_UNKNOWN = "unknown-option-alongside-known-options"
M_YAML = "string-with-unicode-line-break-in-yaml-roundtrip"

TYPESPEC = {"bool": bool, "str": str, "int": int, "optstr": Optional[str], "optint": Optional[int], "seqstr": Sequence[str]}
BASE = [("b1", "bool", False), ("b2", "bool", True), ("s1", "str", "dflt"), ("s2", "str", ""), ("i1", "int", 0), ("i2", "int", 8080),
        ("os1", "optstr", None), ("os2", "optstr", "x"), ("oi1", "optint", None), ("oi2", "optint", 5), ("q1", "seqstr", []), ("q2", "seqstr", ["a", "b"])]
# options that only cascading listeners assign (like intercept -> intercept_active in addons/intercept.py); the workload
# never assigns them directly, so "src truthy => dst == f(src)" holds in every accepted state and a re-notification with a
# restored state cannot change them
DERIVED = [("d1", "bool", False), ("d2", "optint", None)]
CASCADES = [
    ref.Cascade("os1-set->d1", "os1", "d1", lambda v: True),
    ref.Cascade("s2-set->d1", "s2", "d1", lambda v: True),
    ref.Cascade("q1-nonempty->d2=len", "q1", "d2", lambda v: len(v)),
]
DERIVED_NAMES = {n for n, _, _ in DERIVED}
LATE = [("ls", "str", "late"), ("li", "optint", None), ("lq", "seqstr", []), ("lb", "bool", False)]

RULES = [
    ref.Rule("s1-contains-bad", None, lambda v: "bad" in v["s1"]),
    ref.Rule("i1-gt-1000-or-i2-negative", ["i1", "i2"], lambda v: v["i1"] > 1000 or v["i2"] < 0),
    ref.Rule("b1-and-negative-oi1", None, lambda v: v["b1"] and v["oi1"] is not None and v["oi1"] < 0),
    ref.Rule("q1-too-long-or-os1-forbidden", ["q1", "os1"], lambda v: len(v["q1"]) > 4 or v["os1"] == "forbidden"),
    ref.Rule("ls-nope", None, lambda v: v["ls"] == "nope"),
    ref.Rule("q2-contains-empty", ["q2"], lambda v: "" in v["q2"]),
]

ATOMS = {
    "word": ["yes", "no", "null", "~", "on", "off", "true", "false", "Null", "NO", "y", "n"],
    "num": ["123", "1e3", "0x1f", "1_000", "-5", "0o17", "1.5", ".inf", "12:30:00", "2001-12-14"],
    "quote": ["'single'", '"double"', "it's", 'say "hi"', "back\\slash", "\\n"],
    "punct": ["a: b", "# c", "- item", "{a: 1}", "[1,2]", "&anchor", "*alias", "!tag", "%dir", "@at", "`bt", "|", ">", "?", ":", "-", "=", "<<", "key:", " #x"],
    "blank": ["", " lead", "trail ", " ", "  two  ", "tab\there", "\ttab"],
    "newline": ["line\nbreak", "\n", "trailing\n", "\nleading", "a\n\nb", "cr\rhere", "crlf\r\n"],
    "ubreak": ["nel\x85here", "ls\u2028here", "ps\u2029here", "\x85", "end\u2028"],
    "unicode": ["ünï", "日本語", "\U0001f600", "á", "﻿bom", "\xa0nbsp"],
    "control": ["esc\x1bseq", "del\x7f", "bell\x07"],
    "plain": ["abc", "example.com", "~/path", "/tmp/x y", "bad", "forbidden", "nope", "very bad idea"],
}
INTS = [0, 1, -1, 5, 80, 8080, 1000, 1001, 65536, -7, 2**40]


def gen_str(r, used):
    cls = r.choice(list(ATOMS))
    used.add(cls)
    s = r.choice(ATOMS[cls])
    if r.random() < 0.15:
        c2 = r.choice(list(ATOMS))
        used.add(c2)
        s = s + r.choice(["", " ", ":"]) + r.choice(ATOMS[c2])
    return s


def gen_value(r, kind, used, wrong=False):
    if wrong:
        bad = {"bool": ["true", 1, None], "str": [None, 5, ["a"], b"bytes"], "int": ["5", None, 1.5], "optstr": [5, ["a"], True],
               "optint": ["5", 2.5, [1]], "seqstr": ["abc", [1, 2], None, ["a", None], 7]}
        return r.choice(bad[kind])
    if kind == "bool":
        return r.random() < 0.5
    if kind == "str":
        return gen_str(r, used)
    if kind == "int":
        return r.choice(INTS)
    if kind == "optstr":
        return None if r.random() < 0.2 else gen_str(r, used)
    if kind == "optint":
        return None if r.random() < 0.25 else r.choice(INTS)
    n = r.choice([0, 1, 1, 2, 3, 5, 6])
    seq = [gen_str(r, used) for _ in range(n)]
    return tuple(seq) if r.random() < 0.2 else seq


class Listener:
    def __init__(self, opts, rule):
        self.opts = opts
        self.rule = rule
        self.name = rule.name
        self.calls = []  # (updated set, snapshot)
        self.lastseen = self.snapshot()
        if rule.scope is None:
            opts.changed.connect(self.on_changed)
        else:
            opts.subscribe(self.on_subscribed, rule.scope)

    def snapshot(self):
        return {k: getattr(self.opts, k) for k in self.opts.keys()}

    def on_changed(self, updated):
        self._seen(updated)

    def on_subscribed(self, opts, updated):
        self._seen(updated)

    def _seen(self, updated):
        snap = self.snapshot()
        self.calls.append((set(updated), snap))
        # a called listener can read every option: it observes the named options and everything in its scope (all options for
        # a .changed receiver).  In particular the re-notification after a rollback shows it restored derived options too.
        seen = set(updated) | (set(snap) if self.rule.scope is None else set(self.rule.scope))
        for k in seen:
            if k in snap:
                self.lastseen[k] = snap[k]
        if self.rule.rejects(snap):
            raise exceptions.OptionsError(f"rejected by {self.rule.name}")


class CascadeListener:
    """subscribe()d callback that reacts to its source option being set by a nested update of the derived option."""

    def __init__(self, opts, cascade):
        self.cascade = cascade
        self.name = cascade.name
        opts.subscribe(self.on_subscribed, [cascade.src])

    def on_subscribed(self, opts, updated):
        c = self.cascade
        if c.src in updated:
            v = getattr(opts, c.src)
            if v:
                opts.update(**{c.dst: c.f(v)})


def real_values(opts):
    return {k: getattr(opts, k) for k in opts.keys()}


def diff(real, model):
    return sorted(k for k in set(real) | set(model) if k not in real or k not in model or not ref.same(real[k], model[k]))


UBREAKS = "\x85\u2028\u2029"  # NEL, LINE SEPARATOR, PARAGRAPH SEPARATOR: YAML treats them as line breaks


def has_ubreak(v):
    items = v if isinstance(v, (list, tuple)) else [v]
    return any(isinstance(x, str) and any(c in x for c in UBREAKS) for x in items)


def run_case(ctx, tmpdir):
    r = ctx.rng
    used = set()
    opts = optmanager.OptManager()
    model = ref.OptModel()
    for name, kind, default in BASE + DERIVED:
        opts.add_option(name, TYPESPEC[kind], default, "help " + name)
        model.add_option(name, kind, default)
    derived_names = {n for n, _, _ in DERIVED}
    late = list(LATE)
    r.shuffle(late)
    rules = r.sample(RULES, r.randint(2, 5))
    # a rule that looks at a late option is only meaningful once the option exists: Rule.rejects() treats KeyError as "accept"
    model.rules = rules
    model.cascades = r.sample(CASCADES, r.choice([0, 1, 1, 2, 2, 3]))
    # subscription order matters: subscribe()d callbacks run in this order, before the .changed receivers
    plan = [("rule", x) for x in rules] + [("cascade", x) for x in model.cascades]
    r.shuffle(plan)
    listeners, cascaders = [], []
    for what, x in plan:
        if what == "rule":
            listeners.append(Listener(opts, x))
        else:
            cascaders.append(CascadeListener(opts, x))
    n_ops = r.choice([5, 10, 15, 25, 40])
    hist = []
    feats = {"ops": set(), "outcomes": set(), "multi_ok": False, "raised": False, "rt_hostile": False}
    path = os.path.join(tmpdir, "config.yaml")
    if os.path.exists(path):
        os.unlink(path)

    def names(p_unknown=0.0, k=None):
        pool = [n for n in model.kinds if n not in derived_names]
        out = r.sample(pool, k or r.choice([1, 1, 2, 2, 3]))
        if r.random() < p_unknown:
            unk = r.choice(["nosuch", "typo_opt"] + [n for n, _, _ in late])
            out.insert(r.randint(0, len(out)), unk)
        return out

    def make_assign(p_wrong, p_unknown, k=None):
        kw = {}
        for n in names(p_unknown, k):
            kind = model.kinds.get(n) or dict((a, b) for a, b, _ in LATE).get(n, "str")
            kw[n] = gen_value(r, kind, used, wrong=r.random() < p_wrong)
        return kw

    forced_names = None  # after a listener was dropped: the next operation is an update that every live subscriber hears
    for step in range(n_ops):
        op = r.choice(["update"] * 8 + ["setattr"] * 2 + ["set"] * 4 + ["update_defer"] * 2 + ["add_late"] + ["process_deferred"] * 2
                      + ["reset"] + ["toggle"] + ["setter"] + ["roundtrip"] * 3 + ["drop_listener"] * 2 + ["add_listener"] * 2)
        if forced_names is not None:
            op = "update"
        feats["ops"].add(op)
        if op == "drop_listener":
            # a component goes away: its callbacks are bound methods held only weakly by the option manager
            victims = listeners + cascaders
            if len(victims) > 1:
                l = None
                obj = r.choice(victims)
                hist.append(f"drop_listener {obj.name}")
                if obj in listeners:
                    listeners.remove(obj)
                    model.rules = [x for x in model.rules if x is not obj.rule]
                else:
                    cascaders.remove(obj)
                    model.cascades = [x for x in model.cascades if x is not obj.cascade]
                probe = weakref.ref(obj)
                del obj, victims
                gc.collect()
                ctx.count("listener_dropped" if probe() is None else "listener_not_collected")
                scopes = [x.rule.scope for x in listeners if x.rule.scope] + [[x.cascade.src] for x in cascaders]
                forced_names = sorted({r.choice(sc) for sc in scopes}) or None
            continue
        if op == "add_listener":
            have_r = {x.rule.name for x in listeners}
            have_c = {x.cascade.name for x in cascaders}
            cand = [("rule", x) for x in RULES if x.name not in have_r and not x.rejects(model.values)]
            # a cascade may only join while its source is unset, otherwise "src set => dst derived" would not hold for the current state
            cand += [("cascade", x) for x in CASCADES if x.name not in have_c and not model.values[x.src]]
            if cand:
                what, x = r.choice(cand)
                if what == "rule":
                    listeners.append(Listener(opts, x))
                    model.rules = model.rules + [x]
                else:
                    cascaders.append(CascadeListener(opts, x))
                    model.cascades = model.cascades + [x]
                hist.append(f"add_listener {x.name}")
            continue
        if op == "roundtrip":
            roundtrip(ctx, r, opts, model, path, hist, feats)
            hist.append("roundtrip")
            continue
        for l in listeners:
            l.calls.clear()
        expect_raise = set()  # acceptable error classes; empty = must be accepted
        assign = {}  # what an accepted operation assigns
        derived = {}  # what cascading listeners set in reaction to it
        notified = None  # names listeners must be told (None = same as assign)
        mech_hint = None  # (mechanism, predicted surplus assignment) computed from the operation's input only
        desc = op
        call = None

        def plan_assign(kw, known_only=False):
            """Fill expect_raise/assign for assigning kw (all known names)."""
            out = model.predict(kw)
            if out[0] == "ok":
                assign.update(kw)
                derived.update(out[2])
            else:
                expect_raise.add(out[0])
                if out[0] == "OptionsError" and model.derived(kw):
                    ctx.count("rejected_after_cascade")  # a listener derived another option before the update was rejected
            return out

        if op in ("update", "setattr", "toggle", "setter"):
            if op == "update" and forced_names is not None:
                kw = {n: gen_value(r, model.kinds[n], used) for n in forced_names}
                forced_names = None
                ctx.count("update_after_drop")
            elif op == "update":
                kw = make_assign(p_wrong=0.08, p_unknown=0.08)
            elif op == "setattr":
                kw = make_assign(p_wrong=0.1, p_unknown=0.0, k=1)
            elif op == "toggle":
                n = r.choice([n for n, k in model.kinds.items() if k == "bool" and n not in derived_names])
                kw = {n: not model.values[n]}
            else:
                kw = make_assign(p_wrong=0.0, p_unknown=0.0, k=1)
            unknown = [n for n in kw if n not in model.kinds]
            known = {n: v for n, v in kw.items() if n in model.kinds}
            if unknown:
                expect_raise.add("KeyError")
                out = model.predict(known) if known else ("ok",)
                if out[0] != "ok":
                    expect_raise.add(out[0])
                    if out[0] == "TypeError":
                        mech_hint = type_hint(model, known)
                elif known:
                    mech_hint = (M_UNKNOWN, dict(known))
            else:
                out = plan_assign(kw)
                if out[0] == "TypeError":
                    mech_hint = type_hint(model, kw)
            if op == "update":
                call = lambda: opts.update(**kw)  # noqa: E731
            elif op == "setattr":
                (n, v), = kw.items()
                call = lambda: setattr(opts, n, v)  # noqa: E731
            elif op == "toggle":
                call = opts.toggler(next(iter(kw)))
            else:
                (n, v), = kw.items()
                call = lambda: opts.setter(n)(v)  # noqa: E731
            desc = f"{op} {kw!r}"
        elif op == "set":
            specs, defer = gen_specs(r, model, used, late)
            grouped = {}
            for s in specs:
                if "=" in s:
                    n, v = s.split("=", 1)
                    grouped.setdefault(n, []).append(v)
                else:
                    grouped.setdefault(s, [])
            kw = {}
            try:
                for n, vals in grouped.items():
                    if n in model.kinds:
                        kw[n] = ref.parse_setval(model.kinds[n], model.values[n], vals)
                if any(n not in model.kinds for n in grouped) and not defer:
                    raise ref.SetError("unknown")
                if kw:
                    plan_assign(kw)
            except ref.SetError:
                expect_raise.add("OptionsError")
            call = lambda: opts.set(*specs, defer=defer)  # noqa: E731
            desc = f"set {specs!r} defer={defer}"
        elif op == "update_defer":
            kw = make_assign(p_wrong=0.05, p_unknown=0.5)
            known = {n: v for n, v in kw.items() if n in model.kinds}
            if known:
                out = plan_assign(known)
                if out[0] == "TypeError":
                    mech_hint = type_hint(model, known)
            call = lambda: opts.update_defer(**kw)  # noqa: E731
            desc = f"update_defer {kw!r}"
        elif op == "add_late":
            if not late:
                continue
            n, kind, default = late.pop()
            model.add_option(n, kind, default)
            for l in listeners:
                l.lastseen.setdefault(n, default)
            notified = {n}
            call = lambda: opts.add_option(n, TYPESPEC[kind], default, "late")  # noqa: E731
            desc = f"add_option {n}"
        elif op == "process_deferred":
            pending = {}
            try:
                for n, v in opts.deferred.items():  # deferred options are input state of this operation
                    if n in model.kinds:
                        if isinstance(v, optmanager._UnconvertedStrings):
                            v = ref.parse_setval(model.kinds[n], model.values[n], v.val)
                        pending[n] = v
                if pending:
                    out = plan_assign(pending)
                    if out[0] == "TypeError":
                        mech_hint = type_hint(model, pending)
            except ref.SetError:
                expect_raise.add("OptionsError")
            call = opts.process_deferred
            desc = f"process_deferred {sorted(pending)}"
        elif op == "reset":
            assign.update(model.defaults)
            call = opts.reset
        hist.append(desc)

        raised = None
        try:
            call()
        except (exceptions.OptionsError, TypeError, KeyError) as e:
            raised = type(e).__name__
        feats["outcomes"].add(raised or "ok")
        if raised:
            feats["raised"] = True
        elif len(assign) > 1 and op != "reset":
            feats["multi_ok"] = True

        problems = []  # (kind, details)
        ctx.count("outcome")
        if raised and not expect_raise:
            problems.append(("raised-but-must-be-accepted", {"raised": raised}))
        elif not raised and expect_raise:
            problems.append(("accepted-but-must-raise", {"expected": sorted(expect_raise)}))
        elif raised and raised not in expect_raise:
            problems.append(("wrong-error-class", {"raised": raised, "expected": sorted(expect_raise)}))

        if not expect_raise:
            model.commit(assign, derived)
        ctx.count("values")
        real = real_values(opts)
        dv = diff(real, model.values)
        if dv:
            problems.append(("values-differ", {"options": dv, "real": {k: real.get(k) for k in dv}, "model": {k: model.values.get(k) for k in dv}}))

        ctx.count("typed")
        for k, o in opts.items():
            if not ref.conforms(o.current(), model.kinds[k]) or (o.value is not optmanager.unset and not ref.conforms(o.value, model.kinds[k])):
                problems.append(("value-of-wrong-type", {"option": k, "value": repr(o.value)}))

        ctx.count("listeners")
        tell = set(assign) if notified is None else notified
        for l in listeners:
            scope = set(real) if l.rule.scope is None else set(l.rule.scope)
            if not raised and not expect_raise and tell:
                # one call for the operation itself (if in scope) plus, for .changed receivers, one per nested update made
                # by a cascading listener
                want = [tell] if l.rule.hears(tell) else []
                if l.rule.scope is None and notified is None and op != "reset":
                    want += [{c.dst} for c in model.cascades if c.fires(assign.keys(), model.values)]
                got = [u for u, _ in l.calls]
                if sorted(map(sorted, got)) != sorted(map(sorted, want)):
                    problems.append(("notification-differs", {"listener": l.rule.name, "calls": [sorted(u) for u in got], "expected": [sorted(u) for u in want]}))
            stale = sorted(k for k in scope if k in real and not ref.same(l.lastseen.get(k), real[k]))
            if stale:
                problems.append(("listener-view-outdated", {"listener": l.rule.name, "options": stale}))

        if problems:
            mech = classify(mech_hint, raised, problems, real, model.values)
            for kind, details in problems:
                ctx.violation(kind, {"history": hist[-12:], "operation": desc, **details}, mech)
            # compensate through the public API so that the history can go on from the model state
            try:
                if dv:
                    opts.update(**{k: model.values[k] for k in dv if k in real})
                for l in listeners:
                    l.lastseen.update({k: v for k, v in l.snapshot().items()})
            except Exception:  # noqa
                break
            if diff(real_values(opts), model.values):
                break

    sig = (tuple(sorted(feats["ops"])), tuple(sorted(feats["outcomes"])), tuple(sorted(used)), tuple(sorted(x.name[:6] for x in rules)),
           tuple(sorted(c.name[:6] for c in model.cascades)))
    nontrivial = feats["multi_ok"] and feats["raised"] and feats["rt_hostile"]
    ctx.case(sig, nontrivial, {"history": hist[:30]})


def type_hint(model, kw):
    """Assignments are applied in the order given: everything before the first value of the wrong type would stay."""
    order = list(kw)
    first_bad = next(i for i, n in enumerate(order) if not ref.conforms(kw[n], model.kinds[n]))
    if first_bad > 0:
        return (M_TYPE, {n: kw[n] for n in order[:first_bad]})
    return None


def classify(mech_hint, raised, problems, real, model_values):
    """Known mechanisms are predicted from the operation's input (mech_hint = mechanism + the surplus assignment it would
    cause).  They explain a violation only if the observed deviation is exactly that surplus and nothing else."""
    if mech_hint is None:
        return None
    mech, surplus = mech_hint
    need = {M_TYPE: "TypeError", M_UNKNOWN: "KeyError"}[mech]
    if raised != need:
        return None
    dv = set(diff(real, model_values))
    changed = {k for k, v in surplus.items() if not ref.same(v, model_values[k])}
    if dv != changed or any(not ref.same(real[k], surplus[k]) for k in dv):
        return None
    for kind, d in problems:
        if kind == "values-differ":
            continue
        if kind == "listener-view-outdated" and mech == M_TYPE and set(d["options"]) <= changed:
            continue  # nobody was told about the keys that stayed assigned
        return None
    return mech


def gen_specs(r, model, used, late):
    specs = []
    defer = r.random() < 0.3
    for _ in range(r.choice([1, 1, 2, 3])):
        if r.random() < 0.12:
            n = r.choice(["nosuch"] + [x for x, _, _ in late])
            specs.append(f"{n}={r.choice(['1', 'x', 'true', ''])}" if r.random() < 0.8 else n)
            continue
        n = r.choice([x for x in model.kinds if x not in DERIVED_NAMES])
        kind = model.kinds[n]
        x = r.random()
        if kind == "bool":
            specs.append(r.choice([n, f"{n}=true", f"{n}=false", f"{n}=toggle", f"{n}=yes", f"{n}="]))
        elif kind in ("int", "optint"):
            specs.append(r.choice([f"{n}={r.choice(INTS)}", f"{n}=abc", n, f"{n}=", f"{n}= 7", f"{n}=1_0"]))
        elif kind in ("str", "optstr"):
            specs.append(n if x < 0.1 else f"{n}={gen_str(r, used)}")
        else:
            for _ in range(r.choice([0, 1, 2, 3, 6])):
                specs.append(f"{n}={gen_str(r, used)}")
            if x < 0.1:
                specs.append(n)
    r.shuffle(specs)
    return specs, defer


def roundtrip(ctx, r, opts, model, path, hist, feats):
    ctx.count("roundtrip")
    nd = model.non_default()
    if any(isinstance(x, str) and (x != x.strip() or any(c in x for c in ":#\n'\"\\") or x.lower() in ("yes", "no", "null", "~", "true", "false", "on", "off") or not x)
           for v in nd.values() for x in (v if isinstance(v, (list, tuple)) else [v])):
        feats["rt_hostile"] = True
    if r.random() < 0.7 and os.path.exists(path):
        os.unlink(path)  # fresh file; otherwise the previous save is modified in place
    try:
        optmanager.save(opts, path)
        fresh = optmanager.OptManager()
        for k, o in opts.items():
            fresh.add_option(k, o.typespec, o.default, o.help)
        optmanager.load_paths(fresh, path)
        loaded = {k: getattr(fresh, k) for k in fresh.keys()}
    except Exception as e:  # noqa
        mech = M_YAML if any(has_ubreak(v) for v in nd.values()) else None
        ctx.violation("roundtrip-raises", {"history": hist[-8:], "non_default": nd, "exc": repr(e)[:300]}, mech)
        return
    bad = sorted(k for k, v in nd.items() if not ref.same(loaded.get(k), v))
    if bad:
        # explained only if every option that came back different holds a string with NEL / LS / PS
        mech = M_YAML if all(has_ubreak(nd[k]) for k in bad) else None
        ctx.violation("roundtrip-differs", {"history": hist[-8:], "options": bad, "saved": {k: nd[k] for k in bad}, "loaded": {k: loaded.get(k) for k in bad},
                                            "file": open(path, encoding="utf8").read()[:600]}, mech)


def run(ctx):
    base = os.environ.get("VERIF_TMP", tempfile.gettempdir())
    tmpdir = tempfile.mkdtemp(prefix=f"vf-c44-w{ctx.worker}-", dir=base)
    try:
        for _ in ctx.cases():
            ctx.guard(run_case, ctx, tmpdir, what="history")
    finally:
        shutil.rmtree(tmpdir, ignore_errors=True)
