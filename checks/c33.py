"""C33 -- Request.url / host / port / authority stay consistent.

Two kinds of generated case on real ``mitmproxy.http.Request`` objects (HTTP/1.x, HTTP/2, HTTP/3; origin-form
GET/POST/HEAD/OPTIONS, asterisk-form ``OPTIONS *`` and authority-form ``CONNECT``; with and without Host header /
authority).  On a CONNECT request ``Request.url`` reads "host:port" by design, so there only components, Host header and
authority are checked after a URL assignment:

* ``url``   -- a valid http/https URL u (DNS names, IDN as U-label / A-label, IPv4, bracketed IPv6; no / default /
  explicit / empty / zero-padded port; paths and queries from RFC 3986 characters incl. %xx, ;params, //, dot
  segments, fragment) is assigned: the setter must accept it, ``r.url`` must parse (reference parser
  vf/ref/c33_url.py: regex + ipaddress + ``idna`` package) to an equivalent URL, scheme/host/port/path must agree
  with it, assigning the read-back URL again must neither raise nor change any observable state, and an existing
  Host header / authority must denote the new (host, port).
* ``edits`` -- 1..6 edits (``r.host = h`` with str or IDNA bytes, ``r.port = p``, ``r.url = u``, ``r.method = m`` which
  switches the request form, e.g. GET -> CONNECT) on such a request;
  after every edit r.host / r.port reflect it and an existing Host header and authority denote (r.host, r.port)
  under the reference authority reader (IPv6 bracketed, default port may be elided, IDN forms equivalent).
"""
import re

from mitmproxy import http
from vf.ref import c33_url as ref

PROPERTY = "C33"
LEVEL = "exploration"
BUDGET = {"quick": (7000, 14), "thorough": (300_000, 180)}
WORKERS = {"quick": 2, "thorough": 16}
ENGINE = "direct"
TECHNIQUE = "differential monitoring against an independent URL/authority normaliser + idempotence check"
REQUIRED = [
    "url.assign_accepted",
    "url.readback_equivalent",
    "url.components_consistent",
    "url.reassign_idempotent",
    "edit.host_header_points_to_destination",
    "edit.authority_points_to_destination",
    "edit.host_port_reflect_edit",
    "url.same_destination_other_scheme_with_host_or_authority",
    "edit.connect_request_with_authority_edited",
]
RULE = (
    "case = url (one generated valid URL assigned to a request in a random initial state: origin-form, OPTIONS *, or "
    "CONNECT authority-form) or edits (1..6 host/port/url/method edits); hosts: DNS names (1-5 labels, case, '_' '-', trailing dot, long), IDN (9 scripts; U-label, upper-case "
    "and mixed-case U-label, A-label, upper- and mixed-case A-label, optional trailing dot), IPv4, IPv6 (::1, ::, full, upper-case hex, v4-mapped); ports: absent, "
    "empty, default, zero-padded, 1..65535; ~1/3 of the URLs name the request's current (host, port) again, mostly under the "
    "other scheme with the port explicit or elided (Host/authority text must follow the scheme); targets: RFC 3986 pchar / %xx / ;params / empty params / query / fragment / "
    "'//' / dot segments / empty path with query. distinct = (kind, host class, IDN form, port form, target feature "
    "set, protocol version, Host header present, authority present, str|bytes) or (edit-kind sequence, host classes, "
    "version, Host, authority); non-trivial = url: host not a plain DNS name or explicit port or target with features; "
    "edits: a Host header or authority exists while edited"
)
ASSUMPTIONS = [
    "URL equivalence = vf/ref/c33_url.py: case-insensitive scheme/host, U-label == A-label (idna package, UTS 46), IPv6 "
    "compared as addresses and required in brackets, absent == empty == default port, empty path == '/', an empty "
    "'?' or '#' component is ignored, everything else literal (';' is an ordinary path character)",
    "URLs with userinfo, zone ids, raw non-ASCII or characters outside RFC 3986 in the path are not 'valid http URLs' and are not generated",
    "a URL whose host is written as raw U-label (an IRI) may be rejected with ValueError (the repository's tests require that); "
    "counted as url.non_ascii_url_rejected; if accepted, all monitors apply. The A-label form must work",
    "a Host header / authority must be ASCII (uri-host, RFC 9110 7.2): an IDN has to appear as A-label there; in the read-back of "
    "Request.url (a str for display and re-assignment) the U-label form is accepted as the same host",
    "edited ports are 1..65535",
    "generated ASCII labels never have '--' in positions 3-4 (reserved LDH labels, RFC 5891): a random 'xn--x' is not a valid A-label, "
    "so the host setter rejecting it (UnicodeError from the idna codec) is outside the property's domain of valid hosts",
]
LEVEL_TEXT = (
    "Exploration over inputs and short edit histories: generated URLs and host/port/url edits run against the real "
    "Request object and every read-back value is compared with an independent URL/authority normaliser. "
    "It shows absence of violations on the sampled cases only."
)
LEVEL_NOTE = "Trusted: vf/ref/c33_url.py (regex RFC 3986 reader), CPython ipaddress, the idna package."

IDN_LABELS = ["bücher", "例え", "テスト", "пример", "ñandú", "café", "ελληνικά", "한국", "中国"]
_TARGET = re.compile(r"^(?P<path>[^?#]*)(?:\?(?P<query>[^#]*))?(?:#(?P<fragment>.*))?$", re.S)


# ---------------------------------------------------------------------------------------------
# generators
# ---------------------------------------------------------------------------------------------

def rand_case(r, s):
    k = r.random()
    if k < 0.6:
        return s
    if k < 0.75:
        return s.upper()
    return "".join(c.upper() if r.random() < 0.5 else c for c in s)


def gen_label(r):
    n = r.choice([1, 2, 3, 5, 8, 20, 63])
    alpha = "abcdefghijklmnopqrstuvwxyz0123456789"
    s = "".join(r.choice(alpha + "-_" if 0 < i < n - 1 else alpha) for i in range(n))
    if s[2:4] == "--":
        # RFC 5891 4.2.3.1: "--" in positions 3-4 is reserved (xn-- A-labels); a random one is not a valid host label
        s = s[:2] + "a-" + s[4:]
    return s


def gen_host(r):
    """-> (text inside a URL, value for r.host, class, idn form)"""
    k = r.random()
    if k < 0.36:
        labels = [gen_label(r) for _ in range(r.choice([1, 2, 2, 3, 3, 4, 5]))]
        if r.random() < 0.03:
            labels = [gen_label(r)[:60] + "x" * 3 for _ in range(3)] + ["com"]
        while len(".".join(labels)) > 250:  # RFC 1035: a name is at most 253 characters
            labels.pop()
        h = ".".join(labels)
        cls = "dns"
        if r.random() < 0.1:
            h += "."
            cls = "dns-dot"
        h = rand_case(r, h)
        return h, h, cls, "-"
    if k < 0.62:
        n = r.choice([1, 1, 2])
        labs = r.sample(IDN_LABELS, n)
        form = r.choice(["ulabel", "ulabel-upper", "ulabel-mixed", "alabel", "alabel-upper", "alabel-mixed"])
        out = []
        for lab in labs:
            if form == "ulabel":
                out.append(lab)
            elif form == "ulabel-upper":
                out.append(lab.upper() if lab.upper().lower() == lab else lab)
            elif form == "ulabel-mixed":
                mixed = "".join(c.upper() if r.random() < 0.5 else c for c in lab)
                out.append(mixed if mixed.lower() == lab else lab)
            elif form == "alabel":
                out.append(lab.encode("idna").decode())
            elif form == "alabel-upper":
                out.append(lab.encode("idna").decode().upper())
            else:
                out.append("".join(c.upper() if r.random() < 0.5 else c for c in lab.encode("idna").decode()))
        pos = r.randrange(len(out) + 1)
        out[pos:pos] = [gen_label(r)] if r.random() < 0.6 else []
        out.append(r.choice(["de", "com", "example", out[-1]]))
        h = ".".join(out)
        if len(h.encode("idna")) > 250:
            h = ".".join(out[-2:])
        if r.random() < 0.1:
            h += "."  # fully qualified form
            form += "-dot"
        return h, h, "idn", form
    if k < 0.78:
        h = ".".join(str(r.choice([0, 1, 10, 127, 192, 255, r.randint(0, 255)])) for _ in range(4))
        return h, h, "ipv4", "-"
    v6 = r.choice(
        [
            "::1", "::", "2001:db8::1", "2001:DB8::1", "2001:0db8:0000:0000:0000:0000:0000:0001", "fe80::1", "::ffff:1.2.3.4",
            "2001:db8:1:2:3:4:5:6", ":".join("%x" % r.getrandbits(16) for _ in range(8)),
        ]
    )
    return f"[{v6}]", v6, "ipv6", "-"


def gen_port(r, scheme):
    """-> (text appended to the host, effective port, form)"""
    d = ref.DEFAULT_PORT[scheme]
    k = r.random()
    if k < 0.35:
        return "", d, "absent"
    if k < 0.42:
        return ":", d, "empty"
    if k < 0.52:
        return f":{d}", d, "default"
    if k < 0.58:
        p = r.choice([80, 443, 8080, 1])
        return f":{p:05d}", p, "zero-padded"
    p = r.choice([1, 80, 443, 8080, 8443, 65535, r.randint(1, 65535)])
    return f":{p}", p, "explicit"


PCHARS = "abcdefghijklmnopqrstuvwxyzABCXYZ0123456789-._~!$&'()*+,=:@"


def gen_segment(r, feats):
    n = r.choice([0, 1, 1, 2, 3, 6, 15])
    out = []
    for _ in range(n):
        k = r.random()
        if k < 0.7:
            out.append(r.choice(PCHARS))
        elif k < 0.85:
            out.append(r.choice(["%20", "%2F", "%2f", "%E4%BD%A0", "%00", "%25", "%3B", "%3F", "%23", "%c3%a9"]))
            feats.add("pct")
        else:
            out.append(r.choice(["..", ".", ";", ";v=1", ";a;b", "index.html", "a;", "*"]))
            if ";" in out[-1]:
                feats.add("params")
    return "".join(out)


def gen_target(r):
    feats = set()
    k = r.random()
    if k < 0.12:
        path = ""
        feats.add("nopath")
    elif k < 0.22:
        path = "/"
    else:
        segs = [gen_segment(r, feats) for _ in range(r.choice([1, 1, 2, 3, 5]))]
        path = "/" + "/".join(segs)
        if "//" in path:
            feats.add("dslash")
        if r.random() < 0.1:
            path += r.choice([";", ";x", "/;", ";="])
            feats.add("params")
    last = path.rsplit("/", 1)[-1]
    if ";" in last and last.index(";") == len(last) - 1:
        feats.add("empty-params")
    t = path
    if r.random() < 0.45:
        q = "&".join(r.choice(["a=1", "b", "c=", "=d", "x=%26%3D", "q=a+b", "u=http://x/?y", "k=v;w", "", "/?", "n=%C3%A9"]) for _ in range(r.choice([0, 1, 1, 2, 4])))
        t += "?" + q
        feats.add("query" if q else "empty-query")
    if r.random() < 0.15:
        f = r.choice(["", "frag", "a/b?c", "%41"])
        t += "#" + f
        feats.add("fragment" if f else "empty-fragment")
    return t, tuple(sorted(feats))


def same_destination(r, req):
    """Host / port texts of a URL that names the request's CURRENT destination (same host, same port), or None.
    The port is written explicitly unless it is the default of the URL's scheme; the scheme may flip."""
    host, port = req.host, req.port
    if not isinstance(host, str) or not host or not isinstance(port, int) or not 1 <= port <= 65535:
        return None
    try:
        kind, _ = ref.norm_host(host)
    except ref.RefURLError:
        return None
    if kind == "ip6":
        htext, hcls = f"[{host}]", "ipv6"
    elif kind == "ip4":
        htext, hcls = host, "ipv4"
    elif host.isascii():
        htext, hcls = rand_case(r, host), "dns"
    else:
        try:
            htext, hcls = host.encode("idna").decode("ascii"), "idn"  # A-label form: a URL is ASCII
        except UnicodeError:
            return None
    flip = r.random() < 0.65
    scheme = {"http": "https", "https": "http"}.get(req.scheme, "http") if flip else (req.scheme if req.scheme in ("http", "https") else "http")
    if ref.DEFAULT_PORT[scheme] == port and r.random() < 0.4:
        ptext, pform = r.choice(["", ":"]), "same-elided"
    else:
        ptext, pform = f":{port}", "same-explicit"
    return scheme, htext, host, hcls, ptext, port, pform + ("-flip" if flip else "")


def gen_url(r, same_as=None):
    """A valid URL; with `same_as` (a request) it may name that request's current host and port, possibly under the
    other scheme -- the Host header / authority text then has to change although the destination does not."""
    same = same_destination(r, same_as) if same_as is not None and r.random() < 0.35 else None
    if same:
        scheme, htext, hval, hcls, ptext, port, pform = same
        form = "alabel" if hcls == "idn" else "-"
    else:
        scheme = r.choice(["http", "https"])
        htext, hval, hcls, form = gen_host(r)
        ptext, port, pform = gen_port(r, scheme)
    spelled = r.choice([scheme, scheme, scheme, scheme.upper(), scheme.title()])
    target, feats = gen_target(r)
    return {
        "url": f"{spelled}://{htext}{ptext}{target}", "scheme": scheme, "host_text": htext, "host": hval, "host_class": hcls, "idn_form": form,
        "port": port, "port_form": pform, "target": target, "feats": feats, "scheme_case": spelled != scheme,
    }


def gen_request(r):
    """A request in a random initial state: origin-form / absolute-form GET|POST, asterisk-form OPTIONS *, authority-form
    CONNECT; HTTP/1.x, HTTP/2, HTTP/3; with and without Host header and authority."""
    version = r.choice([b"HTTP/1.1", b"HTTP/1.1", b"HTTP/2.0", b"HTTP/2.0", b"HTTP/3", b"HTTP/1.0"])
    scheme = r.choice([b"http", b"https"])
    host = r.choice(["example.com", "1.2.3.4", "old.example"])
    port = r.choice([80, 443, 8080])
    form = r.choices(["origin", "asterisk", "connect"], [60, 12, 28])[0]
    had_host = r.random() < 0.65
    if form == "connect":
        had_auth = r.random() < 0.9  # authority-form: the request target IS the authority
    else:
        had_auth = r.random() < (0.8 if version in (b"HTTP/2.0", b"HTTP/3") else 0.3)
    fields = [(b"Accept", b"*/*")]
    if had_host:
        fields.insert(r.randrange(2), (r.choice([b"Host", b"host", b"HOST"]), r.choice([b"example.com", b"example.com:8080", b"other.example", b"example.com:443"])))
    authority = r.choice([b"example.com", b"example.com:8080", b"example.com:443"]) if had_auth else b""
    if form == "connect":
        method, path = b"CONNECT", b""
    elif form == "asterisk":
        method, path = b"OPTIONS", b"*"
    else:
        method, path = r.choice([b"GET", b"GET", b"POST", b"OPTIONS", b"connect"[:0] + b"HEAD"]), r.choice([b"/", b"/old?x=1"])
    req = http.Request(host, port, method, scheme, authority, path, version, http.Headers(fields), b"", None, 0.0, 0.0)
    return req, version.decode(), had_host, had_auth, form


# ---------------------------------------------------------------------------------------------
# classification (input predicates only)
# ---------------------------------------------------------------------------------------------

def classify(monitor, host, target="", port_elided=True):
    """monitor: which check failed and how; host: host of the URL / edit that was applied last; target: path+query text;
    port_elided: the request's port is the scheme default (no ':port' is appended to the host).
    Each mechanism is tied to the one failure shape it explains (an unbracketed IPv6 literal is *unparseable*, it never
    merely 'points elsewhere'), so a different defect on the same kind of host stays unclassified."""
    if monitor in ("readback-unparseable", "reassign-raises", "host-header-unparseable", "authority-unparseable") and ref.host_is_ipv6(host):
        return "ipv6-literal-host-unbracketed"
    if monitor == "connect-url" and ref.host_is_ipv6(host):
        return "ipv6-literal-unbracketed-in-connect-url"
    if monitor == "host-header-not-ascii" and ref.host_is_idn(host):
        return "idn-host-header-written-as-utf8-u-label"
    if monitor == "reassign-raises" and ref.host_is_idn(host):
        return "idn-host-readback-url-not-reassignable"
    if monitor == "authority-unparseable" and not port_elided and ref.host_is_idn(host.rstrip(".").rsplit(".", 1)[-1]):
        return "idn-last-label-punycoded-together-with-port"
    if monitor in ("readback-differs", "components"):
        m = _TARGET.match(target)
        last = m["path"].rsplit("/", 1)[-1] if m else ""
        if ";" in last and last.index(";") == len(last) - 1:
            return "empty-params-in-last-path-segment-dropped"
    return None


# ---------------------------------------------------------------------------------------------
# monitors
# ---------------------------------------------------------------------------------------------

def snapshot(req):
    return {
        "scheme": req.scheme, "host": req.host, "port": req.port, "path": req.path, "authority": req.data.authority,
        "headers": list(req.headers.fields), "url": req.url,
    }


def check_pointing(ctx, req, had_host, had_auth, host_for_class, wit):
    """An existing Host header / authority must denote (req.host, req.port)."""
    try:
        want = (ref.norm_host(req.host), req.port)
    except ref.RefURLError as e:
        ctx.violation("request-host-not-a-host", {**wit, "host": req.host, "err": str(e)})
        return False
    ok = True
    if had_host:
        ctx.count("edit.host_header_points_to_destination")
        v = req.headers.get("Host")
        if v is None:
            ctx.violation("host-header-lost", wit)
            ok = False
        else:
            if not v.isascii():
                # RFC 9110 7.2 / RFC 3986 3.2.2: Host = uri-host [":" port] is ASCII; an IDN goes on the wire as A-label.
                # Raw UTF-8 is not a host any recipient resolves or matches (and differs from the authority mitmproxy
                # itself writes for the same request), so it does not point at the destination.
                ctx.violation("host-header-not-ascii", {**wit, "host_header": v, "want": want}, classify("host-header-not-ascii", host_for_class))
                return False
            try:
                got = ref.parse_hostport(v, req.scheme)
            except ref.RefURLError as e:
                ctx.violation("host-header-unparseable", {**wit, "host_header": v, "want": want, "err": str(e)}, classify("host-header-unparseable", host_for_class))
                got = want
                ok = False
            if got != want:
                ctx.violation("host-header-points-elsewhere", {**wit, "host_header": v, "denotes": got, "want": want})
                ok = False
    if had_auth:
        ctx.count("edit.authority_points_to_destination")
        raw = req.data.authority
        if not raw:
            ctx.violation("authority-lost", wit)
            return False
        try:
            got = ref.parse_hostport(raw.decode("utf-8", "surrogateescape"), req.scheme)
        except ref.RefURLError as e:
            ctx.violation("authority-unparseable", {**wit, "authority": raw, "want": want, "err": str(e)}, classify("authority-unparseable", host_for_class, port_elided=ref.DEFAULT_PORT.get(req.scheme) == req.port))
            return False
        if got != want:
            ctx.violation("authority-points-elsewhere", {**wit, "authority": raw, "denotes": got, "want": want})
            ok = False
    return ok


def check_url_assign(ctx, req, g, had_host, had_auth, wit, as_bytes=False):
    """Assign URL g['url']; all url.* monitors. Returns False when a violation stops the case."""
    u = g["url"]
    wit = {**wit, "url": u}
    exp = ref.parse_url(u)  # the generator only builds valid URLs; a RefURLError here is a harness bug
    assert exp["port"] == g["port"] and exp["scheme"] == g["scheme"], (u, exp)
    ctx.count("url.assign_accepted")
    try:
        req.url = u.encode("ascii") if as_bytes else u
    except ValueError as e:
        if not u.isascii():
            # an IRI (raw U-label host) is not a valid URL in the RFC 3986 sense; rejecting it is allowed
            ctx.count("url.non_ascii_url_rejected")
            return False
        ctx.violation(f"url-assign-raises:{type(e).__name__}", {**wit, "exc": repr(e)[:200]}, classify("assign", g["host"]))
        return False
    except Exception as e:
        ctx.violation(f"url-assign-raises:{type(e).__name__}", {**wit, "exc": repr(e)[:200]}, classify("assign", g["host"]))
        return False
    u1 = req.url
    wit["readback"] = u1
    connect = req.method == "CONNECT"
    if connect:
        # authority-form request: Request.url is documented to read "host:port", not a URL -> only components,
        # Host header and authority are checked
        ctx.count("url.assigned_to_connect_request")
        try:
            got = exp if ref.parse_hostport(u1, exp["scheme"]) == (exp["host"], exp["port"]) else None
        except ref.RefURLError:
            got = None
        if got is None:
            ctx.violation("connect-url-not-hostport", {**wit, "want": exp}, classify("connect-url", g["host"]))
            return False
    else:
        ctx.count("url.readback_equivalent")
    try:
        got = got if connect else ref.parse_url(u1)
    except ref.RefURLError as e:
        ctx.violation("readback-not-a-valid-url", {**wit, "err": str(e)}, classify("readback-unparseable", g["host"], g["target"]))
        got = None
    if got is not None and got != exp:
        diff = [k for k in exp if exp[k] != got[k]]
        ctx.violation("readback-not-equivalent:" + "+".join(diff), {**wit, "want": exp, "got": got}, classify("readback-differs", g["host"], g["target"]))
        return False
    ctx.count("url.components_consistent")
    bad = []
    if req.scheme != exp["scheme"]:
        bad.append("scheme")
    try:
        if ref.norm_host(req.host) != exp["host"]:
            bad.append("host")
    except ref.RefURLError:
        bad.append("host")
    if req.port != exp["port"]:
        bad.append("port")
    m = _TARGET.match(req.path)
    if ref.norm_target(m["path"], m["query"], m["fragment"]) != exp["target"]:
        bad.append("path")
    if bad:
        ctx.violation("components-inconsistent:" + "+".join(bad), {**wit, "want": exp, "state": snapshot(req)}, classify("components", g["host"], g["target"]))
        return False
    if not check_pointing(ctx, req, had_host, had_auth, g["host"], wit):
        return False
    if connect:
        return True
    ctx.count("url.reassign_idempotent")
    before = snapshot(req)
    try:
        req.url = u1
    except Exception as e:
        ctx.violation(f"reassign-raises:{type(e).__name__}", {**wit, "exc": repr(e)[:200]}, classify("reassign-raises", g["host"]))
        return False
    after = snapshot(req)
    if after != before:
        ctx.violation("reassign-changes-state", {**wit, "before": before, "after": after})
        return False
    return got is not None


def run(ctx):
    for i in ctx.cases():
        r = ctx.rng
        req, version, had_host, had_auth, form0 = gen_request(r)
        base = {"version": version, "method": req.method, "had_host_header": had_host, "had_authority": had_auth, "initial": snapshot(req)}
        if r.random() < 0.65:
            g = gen_url(r, same_as=req)
            if g["port_form"].endswith("-flip") and (had_host or had_auth):
                ctx.count("url.same_destination_other_scheme_with_host_or_authority")
            as_bytes = g["url"].isascii() and r.random() < 0.25
            check_url_assign(ctx, req, g, had_host, had_auth, {"kind": "url", **base}, as_bytes)
            nontrivial = g["host_class"] != "dns" or g["port_form"] != "absent" or bool(g["feats"])
            sig = ("url", form0, g["host_class"], g["idn_form"], g["port_form"], g["feats"], g["scheme_case"], version, had_host, had_auth, as_bytes)
            ctx.case(sig, nontrivial, {"kind": "url", "url": g["url"], "readback": req.url, "host": req.host, "port": req.port, "path": req.path, "host_header": req.headers.get("Host"), "authority": req.data.authority})
            continue
        # ---- edit sequence
        n = r.randint(1, 6)
        kinds, classes, log = [], set(), []
        last_host = req.host
        for step in range(n):
            k = r.choice(["host", "host", "host", "port", "port", "port", "url", "url", "method"])
            kinds.append(k)
            wit = {"kind": "edits", **base, "step": step, "edits": log[-6:]}
            if k == "method":
                # request form changes (GET -> CONNECT = authority-form, OPTIONS, ...); nothing to check by itself: the
                # following host/port/url edits must keep Host header and authority right whatever the method is
                mth = r.choice(["CONNECT", "CONNECT", "GET", "OPTIONS", "POST", b"CONNECT", "connect"])
                log.append(("method", mth))
                req.method = mth
                continue
            if k in ("host", "port") and req.method == "CONNECT" and req.data.authority:
                ctx.count("edit.connect_request_with_authority_edited")
            if k == "url":
                g = gen_url(r, same_as=req)
                if g["port_form"].endswith("-flip") and (had_host or had_auth):
                    ctx.count("url.same_destination_other_scheme_with_host_or_authority")
                classes.add(g["host_class"])
                log.append(("url", g["url"]))
                wit["edits"] = log[-6:]
                last_host = g["host"]
                if not check_url_assign(ctx, req, g, had_host, had_auth, wit):
                    break
                continue
            if k == "host":
                _, hval, hcls, form = gen_host(r)
                classes.add(hcls)
                val = hval
                if r.random() < 0.3:
                    try:
                        val = hval.encode("idna")  # the setter documents str | bytes (IDNA)
                    except UnicodeError:
                        val = hval
                log.append(("host", val))
                wit["edits"] = log[-6:]
                last_host = hval
                try:
                    req.host = val
                except Exception as e:
                    ctx.violation(f"host-setter-raises:{type(e).__name__}", {**wit, "exc": repr(e)[:200]})
                    break
                ctx.count("edit.host_port_reflect_edit")
                try:
                    same = ref.norm_host(req.host) == ref.norm_host(hval)
                except ref.RefURLError:
                    same = False
                if not same:
                    ctx.violation("host-not-reflected", {**wit, "host": req.host})
                    break
            else:
                p = r.choice([80, 443, 8080, 1, 65535, r.randint(1, 65535)])
                log.append(("port", p))
                wit["edits"] = log[-6:]
                try:
                    req.port = p
                except Exception as e:
                    ctx.violation(f"port-setter-raises:{type(e).__name__}", {**wit, "exc": repr(e)[:200]})
                    break
                ctx.count("edit.host_port_reflect_edit")
                if req.port != p:
                    ctx.violation("port-not-reflected", {**wit, "port": req.port})
                    break
            if not check_pointing(ctx, req, had_host, had_auth, last_host, wit):
                break
        sig = ("edits", form0, tuple(kinds), tuple(sorted(classes)), version, had_host, had_auth)
        ctx.case(sig, had_host or had_auth, {"kind": "edits", "edits": log, "host": req.host, "port": req.port, "host_header": req.headers.get("Host"), "authority": req.data.authority, "url": req.url})
