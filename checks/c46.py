"""C46 -- mitmweb requires authentication and blocks cross-site state changes.

Engine 'web': the real tornado Application of a real WebMaster (WebAuth, View, EventStore, all default addons)
listens on a loopback ephemeral port inside the worker; a raw asyncio HTTP/1.1 client (vf/gen/c46_web.py) sends
one request per case.  Every route pattern registered in the Application (tornado's static-file routes excluded)
is instantiated with real / missing flow ids and crossed with 7 methods x 18 credential forms x 15 XSRF forms x
7 Sec-Fetch-Site values; the /updates WebSocket handshake is crossed with credential forms x Origin.

Monitors (reference policy vf/ref/c46_policy.py decides from the *input* what is demanded):
  unauth_status            no valid credential -> 403 (405 only if the route does not implement the method)
  unauth_no_disclosure     ... and no planted tag of flow/event/option data, no session cookie in the answer
  unauth_no_state_change   ... and the state digest (flows' get_state, live/intercepted, view order, all options,
                           events, client-replay queue, websocket connections, token) is unchanged
  blocked_refused          valid credential, non-safe method, XSRF token missing/invalid or Sec-Fetch-Site
                           cross-site/same-site -> error status
  blocked_no_state_change  any request without valid XSRF token or marked cross-site leaves the digest unchanged
  ws_unauth_refused        /updates upgrade without credential: 403, no connection registered, nothing broadcast
Positive controls (valid credential + valid XSRF + same-origin) are counted to prove that the same requests do
change the digest / do return tagged data / do upgrade when allowed (otherwise the monitors would be vacuous).
"""
import asyncio
import base64
import inspect
import json
import re
import time
import urllib.parse
import random as _random

import tornado.web
import tornado.websocket

from vf.core import Inconclusive, short
from vf.gen import c46_web as web
from vf.ref import c46_policy as pol

PROPERTY = "C46"
LEVEL = "exploration"
ENGINE = "web"
TECHNIQUE = "route x method x credential x XSRF x Sec-Fetch-Site enumeration against the live application, state digest + taint tags"
BUDGET = {"quick": (9000, 8), "thorough": (60_000, 200)}
WORKERS = {"quick": 4, "thorough": 16}
MIN_CASES = {"quick": 600, "thorough": 600}  # stage A (positive controls, sharpest probes) always runs, however slow the start-up was
REQUIRED = [
    "unauth_status",
    "unauth_no_disclosure",
    "unauth_no_state_change",
    "blocked_refused",
    "blocked_no_state_change",
    "ws_unauth_refused",
    "control_accepted",
    "control_state_changed",
    "control_tag_visible",
    "control_ws_delivery",
    "hist_stale_password_refused",
    "hist_current_password_accepted",
    "hist_password_changes",
    "keepalive.unauth_after_auth_same_connection",
    "keepalive.authenticated_requests",
    "xsrf_matrix.session_cookie_plus_extra_credential",
]
RULE = (
    "case = one HTTP request (route instance, method, credential form, XSRF form, Sec-Fetch-Site) or one /updates "
    "WebSocket handshake (credential form, Origin) against the live application in canonical state, or one run-time "
    "history of 3-6 web_password changes (plain / other plain / argon2 hash / empty = new random token / an earlier one; via "
    "options or the HTTP API) each followed by cookie-less requests presenting the current, every previously valid and "
    "never-valid passwords via Bearer, ?token= and the login form, or one sequence of 2-6 requests on ONE keep-alive connection "
    "(sequential or pipelined; valid credential via Bearer / ?token= / login form / cookie mixed with none / wrong in every order, "
    "optionally a credential-less websocket upgrade last); a fixed matrix (every implemented state-changing route/method x valid "
    "session cookie x {no, header-only, mismatching} XSRF token x {no, junk, valid} additional credential via Bearer / ?token= / form) runs first; stage A covers every "
    "route x method with every value of each dimension (others at their most permissive), then the full product is "
    "walked in a seeded permutation (completely in the thorough tier if time allows); distinct = distinct (route "
    "pattern, method, credential form, XSRF form, Sec-Fetch-Site) tuple; non-trivial = the policy demands something of "
    "the request (credential invalid, or XSRF token invalid / cross-site), i.e. positive controls are not counted"
)
ASSUMPTIONS = [
    "tornado's three loggers are disabled as in the repository's test-suite: access-log lines about a refused request appended to the event store are not a state change",
    "routes served by tornado.web.StaticFileHandler are not application routes (DESIGN 3.6)",
    "400 instead of 403 is accepted only when the credential itself makes the request malformed HTTP (query not decodable as UTF-8, NUL in a header value): the framework rejects it before the application runs",
    "405 instead of 403 is accepted for an unauthenticated request only if the route's handler class does not implement the method (DESIGN 3.5)",
    "Sec-Fetch-Site values other than same-origin/none/same-site/cross-site and non-browser credential placements (token in a form body, lower-case 'bearer') are not judged",
    "the state digest covers view flows, options, events, replay queue, websocket connections and the token; files on disk are not observed",
    "session cookies issued under an earlier web_password are not judged: the property demands a valid session cookie and does not tie sessions to the password (observed behaviour is recorded)",
    "a currently valid password being refused is recorded, not a violation (the property only states refusals)",
    "refusal of an authenticated cross-site / token-less request may use any error status (>=400); 403 is demanded only of unauthenticated requests",
]
LEVEL_TEXT = (
    "Every registered route and seven methods are driven through the real HTTP server with all credential, XSRF and "
    "Sec-Fetch-Site forms of the reference policy; each answer is checked for status, planted secrets and a digest of the "
    "whole observable master state. This is exploration of a finite request grammar (fully enumerated in the thorough tier "
    "when the time budget suffices), not a proof over all byte-level requests."
)
LEVEL_NOTE = "trusted: tornado's HTTP server/cookie verification, the own raw HTTP client, the digest covering the relevant state"

GROUP_VALUES = {
    "flow_id": [web.FLOW_HTTP, web.FLOW_MISSING, web.FLOW_TCP],
    "message": ["request", "response", "messages"],
    "content_view": ["raw", "auto"],
    "cmd": ["view.clear", "replay.client.stop", "view.flows.resume"],
}


def instantiate(pattern: str):
    """Concrete request paths for a tornado route regex (named groups filled from GROUP_VALUES, optional
    '(?:\\.json)?' suffix both ways).  Every result is verified with re.fullmatch against the real pattern."""
    pat = pattern.rstrip("$")
    names = re.findall(r"\(\?P<(\w+)>", pat)
    for n in names:
        if n not in GROUP_VALUES:
            raise Inconclusive(f"route group {n!r} in {pattern!r} has no fill-in")
    n_variants = max([len(GROUP_VALUES[n]) for n in names] + [1])
    outs = []
    for v in range(n_variants):
        s = pat
        for n in names:
            vals = GROUP_VALUES[n]
            s = re.sub(r"\(\?P<%s>(?:[^()]|\([^()]*\))*?\)" % n, lambda m, x=vals[v % len(vals)]: x.replace("\\", "\\\\"), s, count=1)
        opts = [s]
        if "(?:\\.json)?" in s:
            opts = [s.replace("(?:\\.json)?", ""), s.replace("(?:\\.json)?", ".json")]
        for o in opts:
            o = re.sub(r"\\(.)", r"\1", o)
            if re.search(r"[()\[\]?*+|^$]", o):
                raise Inconclusive(f"cannot instantiate route {pattern!r} (left {o!r})")
            if not re.fullmatch(pattern, o):
                raise Inconclusive(f"instantiated path {o!r} does not match {pattern!r}")
            if o not in outs:
                outs.append(o)
    return outs


def implements(handler_cls, method: str) -> bool:
    fn = getattr(handler_cls, method.lower(), None)
    if fn is None:
        return False
    fn = inspect.unwrap(fn)
    return fn is not tornado.web.RequestHandler._unimplemented_method


def hostile_body(path: str, method: str, flowdump: bytes):
    """A body that WOULD change state if the request were accepted. -> (content_type | None, bytes)."""
    if method in pol.SAFE_METHODS:
        return None, None
    if re.fullmatch(r"/flows/[0-9a-f\-]+", path) and method in ("PUT", "PATCH", "POST"):
        return "application/json", json.dumps({"comment": "pwned", "request": {"method": "PWN", "port": 1}, "marked": ":red_circle:"}).encode()
    if path.startswith("/options") and "save" not in path:
        return "application/json", json.dumps({"anticache": True, "intercept": "~all"}).encode()
    if path == "/flows/dump":
        return "application/octet-stream", flowdump
    if path.endswith("content.data"):
        return "application/octet-stream", b"PWNED-BODY"
    if path.startswith("/commands/"):
        return "application/json", json.dumps({"arguments": []}).encode()
    return None, b""


def classify(item, status):
    """Mechanism from properties of the request only."""
    if (
        item["cred"] in pol.CRED_NONASCII
        and (not item["cred"].startswith("form-") or item["method"] not in pol.SAFE_METHODS)
        and status == 500
    ):
        # refused, but by an internal error: the plaintext password comparison cannot handle non-ASCII text
        return "non-ascii-password-crashes-the-comparison"
    if (
        not pol.CRED_VALID[item["cred"]]
        and item["method"] not in pol.SAFE_METHODS
        and pol.XSRF_VALID[item["xsrf"]]
        and item["sfs"] not in (None, "same-origin", "none")
        and not item.get("ws")
        and status == 500  # refused, but by an internal error instead of 403; any other answer is a different defect
    ):
        # the request passes tornado's XSRF check and reaches RequestHandler.prepare's Sec-Fetch-Site rejection
        return "unauth-unsafe-request-rejected-by-sec-fetch-site-check"
    return None


EXTRA_CREDENTIALS = ["none", "junk-bearer", "junk-query", "junk-form", "valid-bearer", "valid-query", "valid-form"]


class Plan:
    def __init__(self, rig, seed, tier="quick"):
        self.n_hist = 32 if tier == "quick" else 640
        self.n_keepalive = 64 if tier == "quick" else 3000
        self.xsrf_matrix = []
        routes, self.skipped_static = rig.routes()
        self.routes = routes
        self.instances = []  # (route_idx, path, primary)
        self.ws_routes = []
        for ri, (pat, cls) in enumerate(routes):
            paths = instantiate(pat)
            for k, p in enumerate(paths):
                self.instances.append((ri, p, k == 0))
            if issubclass(cls, tornado.websocket.WebSocketHandler):
                self.ws_routes.append((ri, paths[0]))
        # fixed matrix, first seconds of every tier: every state-changing route/method the application implements, riding
        # on a valid session cookie, without a valid XSRF token, with and without an ADDITIONAL (junk or valid) credential
        for ri, p, prim in self.instances:
            for m in pol.METHODS:
                if m in pol.SAFE_METHODS or not implements(routes[ri][1], m):
                    continue
                for x in ("none", "header-only", "mismatch-header"):
                    for extra in EXTRA_CREDENTIALS:
                        self.xsrf_matrix.append({"route": ri, "path": p, "method": m, "cred": "cookie-valid", "xsrf": x, "sfs": None, "sfs_class": "ok", "extra": extra})
        creds = [c for c, _ in pol.CRED_FORMS]
        xsrfs = [x for x, _ in pol.XSRF_FORMS]
        nsfs = len(pol.SFS)
        A = []
        # sharpest probes first: no credential at all, everything else permissive, every route instance x method
        for ri, p, prim in self.instances:
            for m in pol.METHODS:
                A.append((ri, p, m, "none", "valid-v1-header", 0))
        for ri, p, prim in self.instances:
            for m in pol.METHODS:
                A.append((ri, p, m, "cookie-valid", "none", 0))
                A.append((ri, p, m, "cookie-valid", "valid-v1-header", 4))
                A.append((ri, p, m, "cookie-valid", "valid-v2-header", 3))
                A.append((ri, p, m, "bearer-wrong", "valid-v2-header", 1))
        # websocket handshakes
        self.ws_items = []
        for ri, p in self.ws_routes:
            for c in creds:
                for origin in ("absent", "same", "cross"):
                    self.ws_items.append({"route": ri, "path": p, "method": "GET", "cred": c, "xsrf": "none", "sfs": None, "ws": True, "origin": origin})
        # each dimension fully, others permissive, primary instance of every route x every method
        # (this block is shuffled so that a time-limited run covers all routes evenly)
        n_fixed = len(A)
        for ri, p, prim in self.instances:
            if not prim:
                continue
            for m in pol.METHODS:
                for c in creds:
                    A.append((ri, p, m, c, "valid-v1-header", 0))
                for x in xsrfs:
                    A.append((ri, p, m, "cookie-valid", x, 0))
                    A.append((ri, p, m, "none", x, 0))
                for s in range(nsfs):
                    A.append((ri, p, m, "cookie-valid", "valid-v1-header", s))
                    A.append((ri, p, m, "none", "valid-v1-header", s))
                    A.append((ri, p, m, "bearer-right", "valid-v2-remasked-header", s))
        tail = A[n_fixed:]
        _random.Random(f"{seed}/C46/stageA").shuffle(tail)
        A = A[:n_fixed] + tail
        seen = set()
        self.stage_a = []
        for t in A:
            if t not in seen:
                seen.add(t)
                self.stage_a.append(t)
        self.dims = (len(self.instances), len(pol.METHODS), len(creds), len(xsrfs), nsfs)
        self.creds, self.xsrfs = creds, xsrfs
        n = 1
        for d in self.dims:
            n *= d
        self.product_size = n
        self.perm_seed = f"{seed}/C46/perm"
        self._perm = None

    def perm(self):
        if self._perm is None:
            p = list(range(self.product_size))
            _random.Random(self.perm_seed).shuffle(p)
            self._perm = p
        return self._perm

    def item(self, k):
        """k-th global item: websocket handshakes, password-rotation histories, stage A, then the permuted full product."""
        if k < len(self.ws_items):
            return dict(self.ws_items[k]), "ws"
        k -= len(self.ws_items)
        if k < len(self.xsrf_matrix):
            return dict(self.xsrf_matrix[k]), "xsrfmatrix"
        k -= len(self.xsrf_matrix)
        if k < self.n_hist:
            return {"hist": True, "n": k}, "hist"
        k -= self.n_hist
        if k < self.n_keepalive:
            return {"keepalive": True, "n": k}, "keepalive"
        k -= self.n_keepalive
        if k < len(self.stage_a):
            ri, p, m, c, x, s = self.stage_a[k]
            return {"route": ri, "path": p, "method": m, "cred": c, "xsrf": x, "sfs": pol.SFS[s][0], "sfs_class": pol.SFS[s][1]}, "A"
        k -= len(self.stage_a)
        if k >= self.product_size:
            return None, None
        idx = self.perm()[k]
        idx, s = divmod(idx, self.dims[4])
        idx, x = divmod(idx, self.dims[3])
        idx, c = divmod(idx, self.dims[2])
        inst, m = divmod(idx, self.dims[1])
        ri, p, _ = self.instances[inst]
        return {"route": ri, "path": p, "method": pol.METHODS[m], "cred": self.creds[c], "xsrf": self.xsrfs[x], "sfs": pol.SFS[s][0], "sfs_class": pol.SFS[s][1]}, "P"

    def total(self):
        return len(self.ws_items) + len(self.stage_a) + self.product_size


def flow_dump_bytes():
    import io

    from mitmproxy import io as mio
    from mitmproxy.test import tflow

    bio = io.BytesIO()
    w = mio.FlowWriter(bio)
    f = tflow.tflow(resp=True)
    f.id = "22222222-aaaa-4bbb-8ccc-00000000000a"
    w.add(f)
    return bio.getvalue()


def tag_in(data: bytes) -> bool:
    return web.TAG.lower().encode() in data.lower()


async def do_http(ctx, rig, plan, item, flowdump):
    r = ctx.rng
    now = int(time.time())
    cred_valid = pol.CRED_VALID[item["cred"]]
    xsrf_valid = pol.XSRF_VALID[item["xsrf"]]
    ch, cq, cc = pol.build_cred(item["cred"], token=rig.token, secret=rig.cookie_secret, cookie_name=rig.auth_cookie_name, now=now, rng=r)
    xh, xq, xc, xf = pol.build_xsrf(item["xsrf"], cookie_name=rig.xsrf_cookie_name, now=now, rng=r)
    method = item["method"]
    headers = list(ch) + list(xh)
    if item["sfs"] is not None:
        headers.append(("Sec-Fetch-Site", item["sfs"]))
    cookies = cc + xc
    if cookies:
        headers.append(("Cookie", "; ".join(f"{k}={v}" for k, v in cookies)))
    target = item["path"]
    q = cq + xq
    if q:
        target += "?" + urllib.parse.urlencode(q)
    ctype, body = hostile_body(item["path"], method, flowdump)
    cf = pol.build_cred_form(item["cred"], token=rig.token, rng=r)
    extra = item.get("extra", "none")
    if extra != "none":
        secret = rig.token if extra.startswith("valid") else r.choice(["x", "junk", rig.token[:-1]])
        if extra.endswith("bearer"):
            headers.append(("Authorization", f"Bearer {secret}"))
        elif extra.endswith("query"):
            target += ("&" if "?" in target else "?") + urllib.parse.urlencode({"token": secret})
        else:
            cf = cf + [("token", secret)]
    if (xf or cf) and method not in pol.SAFE_METHODS:
        ctype, body = "application/x-www-form-urlencoded", urllib.parse.urlencode(xf + cf).encode()
    elif xf:
        # a form body on a safe method is not sent; the token then is simply missing (still an invalid XSRF form for GET: irrelevant)
        pass
    if ctype:
        headers.append(("Content-Type", ctype))
    try:
        resp = await rig.request(method, target, headers, body)
    except (asyncio.TimeoutError, ValueError, ConnectionError) as e:
        ctx.count("inconclusive_cases")
        ctx.seen("client_errors", type(e).__name__)
        if rig.digest() != rig.canonical:
            rig.reset()
        return None
    after = rig.digest()
    changed = after != rig.canonical
    handler = plan.routes[item["route"]][1]
    impl = implements(handler, method)
    exp = pol.expected(method, cred_valid, xsrf_valid and not (xf and method in pol.SAFE_METHODS), item["sfs_class"])
    wit = {
        "request": f"{method} {target}",
        "route": plan.routes[item["route"]][0],
        "handler": handler.__name__,
        "cred": item["cred"],
        "xsrf": item["xsrf"],
        "sec_fetch_site": item["sfs"],
        "status": resp.status,
        "method_implemented": impl,
    }
    if "extra" in item:
        wit["additional_credential"] = item["extra"]
        ctx.count("xsrf_matrix.session_cookie_plus_extra_credential")
    ctx.seen("statuses", f"{'auth' if cred_valid else 'unauth'}:{resp.status}")
    if exp["must_403"]:
        ctx.count("unauth_status")
        malformed_ok = resp.status == 400 and item["cred"] in pol.CRED_MALFORMED
        if not (resp.status == 403 or (resp.status == 405 and not impl) or malformed_ok):
            ctx.violation("unauth-status", dict(wit, body=short(resp.body, 200)), mechanism=classify(item, resp.status))
        ctx.count("unauth_no_disclosure")
        if tag_in(resp.raw) or tag_in(resp.body):
            ctx.violation("unauth-discloses-tagged-data", dict(wit, body=short(resp.body, 300)))
        issued = [v.split(";")[0] for v in resp.header_all("set-cookie") if rig.auth_cookie_name in v]
        if issued:
            follow = None
            try:
                follow = (await rig.request("GET", "/flows", [("Cookie", issued[0])], None)).status
            except (asyncio.TimeoutError, ValueError, ConnectionError):
                pass
            ctx.violation("unauth-receives-session-cookie", dict(wit, set_cookie=issued, follow_up_get_flows_with_that_cookie=follow))
        ctx.count("unauth_no_state_change")
        if changed:
            ctx.violation("unauth-changes-state", dict(wit, diff=state_diff(rig)))
    else:
        if exp["must_refuse"]:
            ctx.count("blocked_refused")
            if resp.status < 400:
                ctx.violation("xsrf-or-cross-site-not-refused", wit)
        if exp["must_not_change"]:
            ctx.count("blocked_no_state_change")
            if changed:
                ctx.violation("xsrf-or-cross-site-changes-state", dict(wit, diff=state_diff(rig)))
        if exp["control"]:
            ctx.count("control")
            if 200 <= resp.status < 300:
                ctx.count("control_accepted")
                if changed:
                    ctx.count("control_state_changed")
                if tag_in(resp.body):
                    ctx.count("control_tag_visible")
    if changed:
        rig.reset()
        if rig.digest() != rig.canonical:
            raise Inconclusive("harness could not restore the canonical state")
    return resp.status


def state_diff(rig):
    """Top-level keys of the state that differ from a freshly populated canonical state (for witnesses)."""
    cur = rig.state()
    return [k for k in cur if json.dumps(cur[k], default=repr, sort_keys=True) != rig.canonical_parts.get(k)]


async def do_ws(ctx, rig, plan, item):
    from mitmproxy.tools.web import app as webapp

    r = ctx.rng
    now = int(time.time())
    cred_valid = pol.CRED_VALID[item["cred"]]
    ch, cq, cc = pol.build_cred(item["cred"], token=rig.token, secret=rig.cookie_secret, cookie_name=rig.auth_cookie_name, now=now, rng=r)
    key = base64.b64encode(bytes(r.getrandbits(8) for _ in range(16))).decode()
    headers = [("Upgrade", "websocket"), ("Connection", "Upgrade"), ("Sec-WebSocket-Key", key), ("Sec-WebSocket-Version", "13")] + list(ch)
    if item["origin"] == "same":
        headers.append(("Origin", f"http://127.0.0.1:{rig.port}"))
    elif item["origin"] == "cross":
        headers.append(("Origin", "http://evil.example"))
        headers.append(("Sec-Fetch-Site", "cross-site"))
    if cc:
        headers.append(("Cookie", "; ".join(f"{k}={v}" for k, v in cc)))
    target = item["path"] + ("?" + urllib.parse.urlencode(cq) if cq else "")
    flow = rig.master.view.get_by_id(web.FLOW_HTTP)

    def probe():
        webapp.ClientConnection.broadcast_flow("flows/update", flow)
        webapp.ClientConnection.broadcast(type="events/add", payload={"message": web.TAG + "event"})

    try:
        resp, after = await rig.ws_handshake(target, headers, probe=probe)
    except (asyncio.TimeoutError, ValueError, ConnectionError, asyncio.IncompleteReadError) as e:
        ctx.count("inconclusive_cases")
        ctx.seen("client_errors", type(e).__name__)
        rig.reset()
        return None
    nconn = len(webapp.ClientConnection.connections)
    wit = {"request": f"GET {target} (websocket upgrade)", "cred": item["cred"], "origin": item["origin"], "status": resp.status, "bytes_after": len(after)}
    ctx.seen("statuses", f"ws-{'auth' if cred_valid else 'unauth'}-{item['origin']}:{resp.status}")
    if not cred_valid:
        ctx.count("ws_unauth_refused")
        if resp.status != 403 and not (resp.status == 400 and item["cred"] in pol.CRED_MALFORMED):
            ctx.violation("ws-unauth-status", wit, mechanism=classify(item, resp.status))
        if tag_in(resp.raw) or tag_in(after):
            ctx.violation("ws-unauth-receives-updates", dict(wit, data=short(after, 200)))
        if any(rig.auth_cookie_name in v for v in resp.header_all("set-cookie")):
            ctx.violation("unauth-receives-session-cookie", wit)
        await settle()
        if rig.digest() != rig.canonical:
            ctx.violation("ws-unauth-changes-state", dict(wit, diff=state_diff(rig)))
    elif item["origin"] != "cross":
        ctx.count("control")
        if resp.status == 101 and tag_in(after):
            ctx.count("control_ws_delivery")
    await settle()
    if rig.digest() != rig.canonical:
        rig.reset()
        await settle()
        if rig.digest() != rig.canonical:
            raise Inconclusive("harness could not restore the canonical state after a websocket case")
    return resp.status


# ---------------------------------------------------------------------------------------------
# runtime histories of web_password changes on the one running application
# ---------------------------------------------------------------------------------------------
HIST_TARGETS = [("GET", "/flows"), ("GET", "/state.json"), ("GET", "/"), ("GET", "/options.json"), ("POST", "/clear"), ("GET", "/events")]


async def do_history(ctx, rig):
    """The operator changes `web_password` at run time (plain -> other plain -> argon2 hash -> empty = fresh random
    token -> an earlier one again ...), through options.update or through the authenticated HTTP API.  After every
    change, requests WITHOUT a session cookie present the current, every previously valid (and successfully used),
    and never-valid passwords through every credential channel (Bearer header, ?token=, login form POST).
    Demanded (property: no valid password/token and no valid session cookie -> 403, nothing disclosed or changed):
    a password that does not match the CURRENT web_password is refused.  Acceptance of the current password is a
    positive control only.  Session cookies issued under an earlier password are not judged (the property calls
    for a *valid session cookie*; the code does not tie sessions to the password) -- their fate is recorded."""
    import argon2

    r = ctx.rng
    m = rig.master
    alphabet = "abcdefghijklmnopqrstuvwxyz0123456789-_."

    def fresh():
        return "pw" + "".join(r.choice(alphabet) for _ in range(r.randint(5, 14)))

    def current_token_from_url():
        # public API: the URL mitmweb prints for the operator contains the generated token
        q = urllib.parse.urlparse(m.web_url).query
        return urllib.parse.parse_qs(q).get("token", [""])[0]

    used = []  # passwords that were valid at some time AND authenticated successfully (what a cache could remember)
    never = [fresh(), rig.token[:-1] + ("0" if rig.token[-1] != "0" else "1"), r.choice(["p\u00e4ssw\u00f6rd-\u00e9", "\u00e9", rig.token[:-1] + "\u00ff"])]
    current_is_plain = True
    plains = []
    current = rig.token
    n_phases = r.randint(3, 6)
    kinds = ["initial-token"]
    nreq = 0
    old_cookie = None

    async def probe(secret, label):
        nonlocal nreq, old_cookie
        channel = r.choice(["bearer", "query", "form"])
        now = int(time.time())
        xh, xq, xc, xf = pol.build_xsrf("valid-v1-header", cookie_name=rig.xsrf_cookie_name, now=now, rng=r)
        headers = list(xh) + [("Cookie", "; ".join(f"{k}={v}" for k, v in xc))]
        body = None
        if channel == "form":
            method, target = "POST", "/"
            headers.append(("Content-Type", "application/x-www-form-urlencoded"))
            body = urllib.parse.urlencode({"token": secret}).encode()
        else:
            method, target = r.choice(HIST_TARGETS)
            if channel == "bearer":
                headers.append(("Authorization", f"Bearer {secret}"))
            else:
                target += "?" + urllib.parse.urlencode({"token": secret})
            if method == "POST":
                body = b""
        before = rig.digest()
        try:
            resp = await rig.request(method, target, headers, body)
        except (asyncio.TimeoutError, ValueError, ConnectionError):
            ctx.count("inconclusive_cases")
            return
        nreq += 1
        changed = rig.digest() != before
        valid_now = secret == current and secret != ""
        got_cookie = [v for v in resp.header_all("set-cookie") if rig.auth_cookie_name in v]
        wit = {
            "password_history": list(kinds),
            "presented": label,
            "channel": channel,
            "request": f"{method} {target.split('?')[0]}",
            "status": resp.status,
            "session_cookie_issued": bool(got_cookie),
        }
        ctx.seen("statuses", f"hist-{label}:{resp.status}")
        if valid_now:
            ctx.count("control")
            if resp.status != 403:
                ctx.count("hist_current_password_accepted")
                if secret not in used:
                    used.append(secret)
                if got_cookie and old_cookie is None:
                    old_cookie = got_cookie[0].split(";")[0]
            else:
                ctx.seen("hist_current_password_refused", f"{kinds[-1]} via {channel}")
            return
        ctx.count("hist_stale_password_refused" if label.startswith("previously-valid") else "hist_invalid_password_refused")
        if resp.status >= 500:
            nonascii = (not secret.isascii()) or (current_is_plain and not current.isascii())
            mech = "non-ascii-password-crashes-the-comparison" if (nonascii and current_is_plain and resp.status == 500) else None
            ctx.violation("unauth-status", dict(wit, body=short(resp.body, 160)), mechanism=mech)
        elif resp.status != 403:
            ctx.violation("password-not-matching-current-web_password-accepted", dict(wit, body=short(resp.body, 160)))
        if tag_in(resp.raw) or tag_in(resp.body):
            ctx.violation("unauth-discloses-tagged-data", dict(wit, body=short(resp.body, 200)))
        if got_cookie:
            ctx.violation("unauth-receives-session-cookie", wit)
        if changed:
            ctx.violation("unauth-changes-state", wit)

    async def round_of_probes(extra=()):
        await probe(current, "current")
        cands = [(u, "previously-valid-and-used") for u in used if u != current]
        cands += [(p, "previously-valid-unused") for p in plains if p != current and p not in used]
        cands += [(n, "never-valid") for n in never] + list(extra)
        r.shuffle(cands)
        for secret, label in cands[: r.randint(2, 5)]:
            await probe(secret, label)
        if r.random() < 0.5:
            await probe(current, "current")
        if old_cookie is not None and r.random() < 0.3:
            try:
                resp = await rig.request("GET", "/state.json", [("Cookie", old_cookie)], None)
                ctx.seen("session_cookie_issued_under_earlier_password", f"{kinds[-1]}:{resp.status}")
            except (asyncio.TimeoutError, ValueError, ConnectionError):
                pass

    await round_of_probes()
    for _ in range(n_phases):
        kind = r.choice(["plain", "plain", "plain", "argon2", "argon2", "empty", "empty", "revisit", "revisit", "plain-nonascii"])
        if kind == "revisit" and not plains:
            kind = "plain"
        extra = []
        if kind == "plain":
            value = secret = fresh()
            plains.append(secret)
        elif kind == "plain-nonascii":
            value = secret = fresh() + r.choice(["\u00e9", "\u00fc\u00df"])
            plains.append(secret)
        elif kind == "revisit":
            value = secret = r.choice(plains)
        elif kind == "argon2":
            secret = fresh()
            plains.append(secret)
            salt = bytes(r.getrandbits(8) for _ in range(16))
            value = argon2.PasswordHasher(time_cost=1, memory_cost=8, parallelism=1).hash(secret, salt=salt)
            extra.append((value, "never-valid-the-hash-itself"))
        else:
            value, secret = "", None
        via_api = r.random() < 0.5
        done = False
        if via_api:
            now = int(time.time())
            ch, cq, cc = pol.build_cred("cookie-valid", token=rig.token, secret=rig.cookie_secret, cookie_name=rig.auth_cookie_name, now=now, rng=r)
            xh, xq, xc, xf = pol.build_xsrf("valid-v1-header", cookie_name=rig.xsrf_cookie_name, now=now, rng=r)
            headers = ch + xh + [("Cookie", "; ".join(f"{k}={v}" for k, v in cc + xc)), ("Content-Type", "application/json")]
            try:
                resp = await rig.request("PUT", "/options", headers, json.dumps({"web_password": value}).encode())
                done = resp.status == 200
            except (asyncio.TimeoutError, ValueError, ConnectionError):
                done = False
        if not done:
            via_api = False
            m.options.update(web_password=value)
        await settle()
        if secret is None:
            secret = current_token_from_url()
            if not secret:
                raise Inconclusive("cannot learn the generated token from web_url")
        current = secret
        current_is_plain = kind != "argon2"
        kinds.append(kind + ("/api" if via_api else "/options"))
        ctx.count("hist_password_changes")
        await round_of_probes(extra)
    # back to the canonical configuration
    await settle()
    rig.reset()
    await settle()
    rig.reset()
    if rig.digest() != rig.canonical:
        raise Inconclusive("harness could not restore the canonical state after a password history")
    return kinds, nreq


# ---------------------------------------------------------------------------------------------
# several requests on ONE persistent connection
# ---------------------------------------------------------------------------------------------
KA_VALID = ["bearer-right", "query-right", "form-right", "cookie-valid"]
KA_INVALID = ["none", "none", "none", "bearer-wrong", "query-wrong", "cookie-unsigned", "bearer-truncated", "form-wrong"]
KA_SAFE_TARGETS = [("GET", "/flows"), ("GET", "/events"), ("GET", "/options.json"), ("GET", "/state.json"), ("GET", "/"), ("HEAD", "/flows")]
KA_UNSAFE_TARGETS = [("POST", "/clear"), ("PUT", "/options"), ("POST", "/flows/resume"), ("DELETE", "/flows/" + web.FLOW_HTTP), ("POST", "/commands/view.clear")]


async def do_keepalive(ctx, rig):
    """Sequences of requests on one HTTP/1.1 keep-alive connection (sequential or pipelined), mixing requests that
    carry a valid credential (every channel) with requests that carry none / a wrong one, in every order, optionally
    ending with a credential-less WebSocket upgrade.  Oracle per request exactly as for single requests: the decision
    depends only on what THAT request carries."""
    r = ctx.rng
    n = r.randint(2, 6)
    # shapes: make sure "valid then invalid" occurs, but also every other order
    creds = [r.choice(KA_VALID + KA_INVALID) for _ in range(n)]
    if r.random() < 0.7:
        i = r.randrange(n - 1)
        creds[i] = r.choice(KA_VALID[:3] if r.random() < 0.8 else KA_VALID)
        creds[i + 1] = r.choice(KA_INVALID)
    pipelined = r.random() < 0.35
    ws_tail = r.random() < 0.3
    steps = []
    now = int(time.time())
    for c in creds:
        valid = c in KA_VALID
        base = {"form-right": "none", "form-wrong": "none"}.get(c, c)
        ch, cq, cc = pol.build_cred(base, token=rig.token, secret=rig.cookie_secret, cookie_name=rig.auth_cookie_name, now=now, rng=r)
        xh, xq, xc, xf = pol.build_xsrf("valid-v1-header", cookie_name=rig.xsrf_cookie_name, now=now, rng=r)
        if c.startswith("form-"):
            method, target = "POST", "/"
            body = urllib.parse.urlencode({"token": rig.token if valid else rig.token[::-1] + "x"}).encode()
            ctype = "application/x-www-form-urlencoded"
        else:
            # in pipelined mode authorised requests are read-only so that one digest comparison around the batch decides
            pool = KA_SAFE_TARGETS if (valid and pipelined) else (KA_SAFE_TARGETS + KA_UNSAFE_TARGETS if valid else KA_UNSAFE_TARGETS + KA_SAFE_TARGETS[:3])
            method, target = r.choice(pool)
            ctype, body = hostile_body(target, method, b"")
        headers = list(ch) + list(xh) + [("Cookie", "; ".join(f"{k}={v}" for k, v in cc + xc))]
        if ctype:
            headers.append(("Content-Type", ctype))
        if cq:
            target += "?" + urllib.parse.urlencode(cq)
        steps.append({"cred": c, "valid": valid, "method": method, "target": target, "headers": headers, "body": body})
    shape = [("V:" if st["valid"] else "x:") + st["cred"] for st in steps] + (["ws-upgrade-without-credential"] if ws_tail else [])
    mode = "pipelined" if pipelined else "sequential"
    ka = web.KeepAlive(rig)
    await ka.open()
    auth_seen = False
    try:
        if pipelined:
            before = rig.digest()
            await ka.send(b"".join(ka.encode(st["method"], st["target"], st["headers"], st["body"]) for st in steps))
        for idx, st in enumerate(steps):
            if not pipelined:
                before = rig.digest()
                await ka.send(ka.encode(st["method"], st["target"], st["headers"], st["body"]))
            try:
                resp = await ka.read_response(st["method"])
            except (EOFError, asyncio.TimeoutError, ValueError, ConnectionError, asyncio.IncompleteReadError) as e:
                ctx.count("inconclusive_cases")
                ctx.seen("client_errors", "keepalive:" + type(e).__name__)
                return shape, mode
            ctx.count("keepalive.requests")
            wit = {"one_connection": shape, "mode": mode, "request_index": idx, "request": f"{st['method']} {st['target'].split('?')[0]}", "cred": st["cred"], "status": resp.status}
            ctx.seen("statuses", f"keepalive-{'auth' if st['valid'] else 'unauth'}{'-after-auth' if auth_seen else ''}:{resp.status}")
            if st["valid"]:
                ctx.count("control")
                if resp.status not in (403, 500):
                    auth_seen = True
                    ctx.count("keepalive.authenticated_requests")
            else:
                ctx.count("keepalive.unauth_after_auth_same_connection" if auth_seen else "keepalive.unauth_before_auth")
                if resp.status != 403:
                    ctx.violation("unauth-status", dict(wit, body=short(resp.body, 160)))
                if tag_in(resp.raw) or tag_in(resp.body):
                    ctx.violation("unauth-discloses-tagged-data", dict(wit, body=short(resp.body, 200)))
                if any(rig.auth_cookie_name in v for v in resp.header_all("set-cookie")):
                    ctx.violation("unauth-receives-session-cookie", wit)
                if not pipelined and rig.digest() != before:
                    ctx.violation("unauth-changes-state", dict(wit, diff=state_diff(rig)))
        if pipelined and rig.digest() != before:
            ctx.violation("unauth-changes-state", {"one_connection": shape, "mode": mode, "diff": state_diff(rig)})
        if ws_tail:
            from mitmproxy.tools.web import app as webapp

            key = base64.b64encode(bytes(r.getrandbits(8) for _ in range(16))).decode()
            await ka.send(ka.encode("GET", "/updates", [("Upgrade", "websocket"), ("Connection", "Upgrade"), ("Sec-WebSocket-Key", key), ("Sec-WebSocket-Version", "13")]))
            try:
                resp = await ka.read_response("GET")
            except (EOFError, asyncio.TimeoutError, ValueError, ConnectionError, asyncio.IncompleteReadError):
                ctx.count("inconclusive_cases")
                return shape, mode
            ctx.count("keepalive.unauth_after_auth_same_connection" if auth_seen else "keepalive.unauth_before_auth")
            ctx.count("keepalive.ws_upgrade_without_credential")
            if resp.status != 403 or len(webapp.ClientConnection.connections):
                ctx.violation("ws-unauth-status", {"one_connection": shape, "mode": mode, "status": resp.status, "registered_connections": len(webapp.ClientConnection.connections)})
    finally:
        ka.close()
        await settle()
        if rig.digest() != rig.canonical:
            rig.reset()
            await settle()
            if rig.digest() != rig.canonical:
                raise Inconclusive("harness could not restore the canonical state after a keep-alive history")
    return shape, mode


async def settle():
    for _ in range(5):
        await asyncio.sleep(0)


async def amain(ctx):
    rig = web.WebRig()
    init = _random.Random(f"{ctx.seed}/C46/token")
    await rig.start("".join(init.choice("0123456789abcdef") for _ in range(32)))
    rig.canonical_parts = {k: json.dumps(v, default=repr, sort_keys=True) for k, v in rig.state().items()}
    try:
        plan = Plan(rig, ctx.seed, ctx.tier)
        ctx.extra["routes"] = len(plan.routes)
        ctx.extra["route_instances"] = len(plan.instances)
        ctx.extra["static_routes_skipped"] = plan.skipped_static
        ctx.extra["stage_a_items"] = len(plan.stage_a) + len(plan.ws_items)
        ctx.extra["full_product_size"] = plan.product_size
        flowdump = flow_dump_bytes()
        done_all = False
        # the time budget is meant for cases: give back what importing mitmproxy / starting the server took (capped)
        startup = min(time.monotonic() - ctx.t0, 6.0)
        for i in ctx.cases(frac=1.0 + startup / max(ctx.seconds, 1e-9)):
            k = i * ctx.nworkers + ctx.worker
            item, stage = plan.item(k)
            if item is None:
                done_all = True
                break
            if item.get("keepalive"):
                shape, mode = await do_keepalive(ctx, rig)
                ctx.count("stage_keepalive")
                ctx.case(("keepalive", mode) + tuple(shape), nontrivial=True, sample={"one_connection": shape, "mode": mode})
                continue
            if item.get("hist"):
                kinds, nreq = await do_history(ctx, rig)
                ctx.count("stage_hist")
                ctx.case(("hist",) + tuple(kinds), nontrivial=True, sample={"password_history": kinds, "requests": nreq})
                continue
            if item.get("ws"):
                status = await do_ws(ctx, rig, plan, item)
                demanded = not pol.CRED_VALID[item["cred"]]
                sig = ("ws", item["cred"], item["origin"])
            else:
                status = await do_http(ctx, rig, plan, item, flowdump)
                e = pol.expected(item["method"], pol.CRED_VALID[item["cred"]], pol.XSRF_VALID[item["xsrf"]], item["sfs_class"])
                demanded = e["must_403"] or e["must_refuse"] or e["must_not_change"]
                sig = (item["route"], item["method"], item["cred"], item["xsrf"], item["sfs"]) + ((item["extra"],) if "extra" in item else ())
            ctx.count(f"stage_{stage}")
            ctx.case(sig, nontrivial=demanded, sample={k2: item[k2] for k2 in ("path", "method", "cred", "xsrf", "sfs")} | {"status": status})
        if done_all:
            ctx.extra["full_product_enumerated_by_some_worker"] = True
    finally:
        await rig.stop()


def run(ctx):
    asyncio.run(amain(ctx))
