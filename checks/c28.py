"""C28 -- WebSocket messages are relayed exactly once with their exact content.

Engine A.  A real WebsocketLayer (constructed on a Context with an HTTPFlow carrying a 101 response and WebSocketData, the
Sec-WebSocket-Extensions response header deciding permessage-deflate) is the top layer of the sans-io driver.  Both remote
endpoints are in-memory peers that *decode* with the wsproto library (Connection(CLIENT/SERVER, [PerMessageDeflate])) and
*encode* either with wsproto or with an own RFC 6455/7692 serialiser (vf/ref/c28_wsframes.py: fragment boundaries inside
UTF-8 characters, empty fragments, own zlib compression).  Each peer sends a pre-planned script (text/binary messages of
hostile sizes and fragmentations, pings/pongs also in the middle of fragmented messages, finally close frame / EOF / nothing)
cut into random TCP segments; an addon policy on websocket_message keeps / edits (same length, to 1 byte, to 9001 bytes of
multi-byte text, grow) / drops / delays; messages are injected through WebSocketMessageInjected at random points.  Monitors:

  source    per direction, the messages recorded in flow.websocket.messages (type, content at hook time before edits,
            injected flag) == what that peer sent + what was injected, in delivery order, each once, up to the close
  delivered per direction, the complete messages the far peer's wsproto decodes (type, content) == the recorded messages
            (final content after addon edits) that are not dropped, in order, each once
  frames    an unmodified, non-injected message arrives with the sender's frame payload lengths
  control   pings and pongs arrive at the other peer with their payload, in order
  close     flow.websocket.close_code / close_reason / closed_by_client are what the closing peer sent
"""
import wsproto.events as wev
from wsproto.connection import Connection, ConnectionType
from wsproto.extensions import PerMessageDeflate
from wsproto.frame_protocol import CloseReason, Opcode

from mitmproxy import http
from mitmproxy.connection import ConnectionState
from mitmproxy.proxy import events
from mitmproxy.proxy.layers import websocket as lws
from mitmproxy.websocket import WebSocketData, WebSocketMessage

from vf import peers as vpeers
from vf import sansio
from vf.ref import c28_wsframes as wf

PROPERTY = "C28"
LEVEL = "exploration"
ENGINE = "sansio"
BUDGET = {"quick": (600, 18), "thorough": (12000, 220)}
WORKERS = {"quick": 4, "thorough": 16}
REQUIRED = ["source", "delivered", "frames", "control", "close", "deflate_cases", "edited_messages", "injected_messages", "dropped_messages", "big_messages", "fragmented_messages"]
TECHNIQUE = "runtime monitoring: sans-io schedule exploration + differential oracle (wsproto peers decode the wire, own RFC 6455/7692 encoder) against sender truth and recorded flow"
RULE = (
    "case = (permessage-deflate variant or none, encoder per peer [wsproto | own raw serialiser], per peer 0-5 messages: text (ASCII / 2-3-4 byte "
    "UTF-8) or binary, size class 0/1/125/126/~4000/>8000/65535/65536, 1-6 fragments incl. empty ones and cuts inside a character, pings/pongs "
    "also inside fragmented messages, ending close(code,reason)/EOF/none; addon policy per message keep/same-length/to-1-byte/to-9001-bytes/"
    "grow/drop, delayed hooks; 0-3 injections (text/binary, small or >4000 multi-byte); random TCP segmentation and schedule); signature = "
    "(deflate variant, encoders, set of (type,size class,fragmented,policy) per message, injection kinds, ending); non-trivial iff some message is "
    "fragmented or modified or injected or larger than 4000 bytes"
)
ASSUMPTIONS = [
    "peers are protocol-conformant (valid UTF-8 text, valid close codes, masking by the client); addon edits of text messages keep them valid UTF-8",
    "frame boundaries of a message compressed as a whole and cut at arbitrary compressed offsets (own encoder + deflate) carry no meaning: the frames monitor is evaluated for wsproto-encoded and uncompressed messages only",
    "a close frame without status code is recorded as 1005 (RFC 6455 7.1.5); EOF without close frame has no 'sent' code and is only counted",
    "the decoding side of both peers and the extension negotiation object are wsproto (mature library)",
]
LEVEL_TEXT = (
    "Exploration: generated hostile WebSocket conversations (sizes around every length-encoding and re-fragmentation threshold, fragment cuts inside "
    "characters, compression variants, edits/drops/injections, random segmentation and hook timing) run through the real WebsocketLayer; what the far "
    "wsproto endpoint decodes is compared with the recorded flow and with what the near endpoint sent. Decides the executions observed."
)
LEVEL_NOTE = "Trusted: wsproto (decoder of both peers), vf/ref/c28_wsframes.py (own encoder), vf/sansio.py."

EXT_VARIANTS = [
    None,
    None,
    "permessage-deflate",
    "permessage-deflate; client_no_context_takeover; server_no_context_takeover",
    "permessage-deflate; server_max_window_bits=10; client_max_window_bits=10",
]
CHARS = ["a", "Z", "0", " ", "é", "ß", "€", "中", "\U0001f600", "\U00010348"]


def gen_text(r, nbytes, flavour):
    """valid UTF-8 of exactly nbytes bytes"""
    if flavour == "ascii":
        pool = CHARS[:4]
    elif flavour == "mb3":
        pool = ["€", "中"]
    else:
        pool = CHARS
    out = []
    n = 0
    while n < nbytes:
        ch = r.choice(pool)
        b = len(ch.encode())
        if n + b > nbytes:
            ch = "x"
            b = 1
        out.append(ch)
        n += b
    return "".join(out).encode()


SIZES = [0, 1, 2, 7, 30, 125, 126, 127, 300, 3999, 4000, 4001, 4003, 8001, 9000, 12005, 65535, 65536]
SIZE_W = [3, 4, 4, 6, 8, 3, 3, 2, 5, 2, 2, 3, 3, 3, 2, 2, 1, 1]


def size_class(n):
    return "0" if n == 0 else "s" if n < 126 else "m" if n <= 4000 else "L" if n < 65535 else "XL"


def fragment(r, data, is_text, allow_midchar):
    n = len(data)
    k = r.choice([1, 1, 1, 2, 3, 4, 6])
    if k == 1:
        return [data]
    cuts = sorted(r.choice([0, n, r.randint(0, n), r.randint(0, n)]) for _ in range(k - 1))
    if is_text and not allow_midchar:
        cuts2 = []
        for c in cuts:
            while not wf.char_boundary_ok(data, c):
                c -= 1
            cuts2.append(c)
        cuts = cuts2
    out, last = [], 0
    for c in cuts:
        out.append(data[last:c])
        last = c
    out.append(data[last:])
    return out


class WsPeer(sansio.Peer):
    """Endpoint: decodes with wsproto; sends a pre-planned byte stream."""

    def __init__(self, is_client, ext, stream_segments, eof):
        super().__init__()
        exts = []
        if ext:
            p = PerMessageDeflate()
            p.finalize(ext)
            exts.append(p)
        self.ws = Connection(ConnectionType.CLIENT if is_client else ConnectionType.SERVER, exts)
        self.segments = stream_segments
        self.eof = eof
        self.rx_messages = []  # (is_text, content bytes, [frame decoded byte lengths])
        self.rx_ping, self.rx_pong, self.rx_close = [], [], []
        self._cur = []
        self._cur_frame = 0
        self._frames = []
        self.decode_errors = []

    def on_open(self):
        for s in self.segments:
            self.send(s)
        if self.eof:
            self.close()

    def on_data(self, data):
        try:
            self.ws.receive_data(data)
            for ev in self.ws.events():
                if isinstance(ev, wev.Message):
                    is_text = isinstance(ev.data, str)
                    b = ev.data.encode() if is_text else bytes(ev.data)
                    self._cur.append(b)
                    self._cur_frame += len(b)
                    if ev.frame_finished:
                        self._frames.append(self._cur_frame)
                        self._cur_frame = 0
                    if ev.message_finished:
                        self.rx_messages.append((is_text, b"".join(self._cur), self._frames))
                        self._cur, self._frames = [], []
                elif isinstance(ev, wev.Ping):
                    self.rx_ping.append(bytes(ev.payload))
                elif isinstance(ev, wev.Pong):
                    self.rx_pong.append(bytes(ev.payload))
                elif isinstance(ev, wev.CloseConnection):
                    self.rx_close.append((int(ev.code), ev.reason or ""))
        except Exception as e:  # noqa: the far side could not decode what mitmproxy wrote
            self.decode_errors.append(repr(e)[:200])


def build_script(r, is_client, ext, encoder):
    """-> (stream bytes, actions) ; action = dict(kind, end=offset after it, ...)"""
    deflate = bool(ext)
    wbits, nct = 15, False
    if ext and "max_window_bits=10" in ext:
        wbits = 10
    if ext and "no_context_takeover" in ext:
        nct = True
    raw = wf.RawSender(is_client, r, deflate, wbits, nct) if encoder == "raw" else None
    ws = None
    if encoder == "wsproto":
        exts = []
        if ext:
            p = PerMessageDeflate()
            p.finalize(ext)
            exts.append(p)
        ws = Connection(ConnectionType.CLIENT if is_client else ConnectionType.SERVER, exts)
    stream = bytearray()
    actions = []
    n_msgs = r.choice([0, 1, 1, 2, 3, 5])
    def control(kind):
        payload = bytes(r.getrandbits(8) for _ in range(r.choice([0, 1, 5, 125])))
        if raw:
            stream.extend(raw.control(wf.OP_PING if kind == "ping" else wf.OP_PONG, payload))
        else:
            stream.extend(ws.send(wev.Ping(payload) if kind == "ping" else wev.Pong(payload)))
        actions.append({"kind": kind, "payload": payload, "end": len(stream)})

    for _ in range(n_msgs):
        if r.random() < 0.25:
            control(r.choice(["ping", "pong"]))
        is_text = r.random() < 0.6
        size = r.choices(SIZES, SIZE_W)[0]
        flavour = r.choice(["ascii", "mixed", "mixed", "mb3"])
        data = gen_text(r, size, flavour) if is_text else bytes(r.getrandbits(8) for _ in range(min(size, 64))) * (size // 64 + 1)
        data = data[:size] if not is_text else data
        midchar = raw is not None and r.random() < 0.5
        frags = fragment(r, data, is_text, midchar)
        start = len(stream)
        ctl_inside = len(frags) > 1 and r.random() < (0.08 if deflate else 0.3)
        if raw:
            wire_frames = raw.message_frames(is_text, frags)
            k = r.randrange(1, len(frags)) if ctl_inside else None
            for idx, fb in enumerate(wire_frames):
                if idx == k:
                    control(r.choice(["ping", "pong"]))
                stream.extend(fb)
        else:
            for idx, f in enumerate(frags):
                last = idx == len(frags) - 1
                if ctl_inside and idx == 1:
                    control(r.choice(["ping", "pong"]))
                if is_text:
                    stream.extend(ws.send(wev.TextMessage(f.decode(), message_finished=last)))
                else:
                    stream.extend(ws.send(wev.BytesMessage(f, message_finished=last)))
        # byte offsets (relative to stream) after which each fragment is complete: only needed for "message in progress"
        actions.append(
            {
                "kind": "msg",
                "text": is_text,
                "content": data,
                "frags": [len(f) for f in frags],
                "frag_bytes": frags,
                "start": start,
                "end": len(stream),
                "midchar": is_text and any(not wf.char_boundary_ok(data, c) for c in _cum(frags)[:-1]),
                "frames_meaningful": not deflate,
                "ctl_inside": ctl_inside,
            }
        )
    if r.random() < 0.2:
        control(r.choice(["ping", "pong"]))
    ending = r.choice(["close", "close", "eof", "none", "none"])
    if ending == "close":
        code = r.choice([1000, 1000, 1001, 1003, 1008, 1011, 3000, 4999, None])
        reason = "" if code is None else r.choice(["", "bye", "grüße €", "x" * 123, "\U0001f600" * 30])
        if raw:
            stream.extend(raw.close(code, reason))
        else:
            stream.extend(ws.send(wev.CloseConnection(code=code if code is not None else CloseReason.NO_STATUS_RCVD, reason=reason or None)))
        actions.append({"kind": "close", "code": code if code is not None else 1005, "reason": reason, "end": len(stream)})
    return bytes(stream), actions, ending


def _cum(frags):
    out, t = [], 0
    for f in frags:
        t += len(f)
        out.append(t)
    return out


class RecDriver(sansio.Driver):
    def __init__(self, *a, **kw):
        self.fed = []  # (kind, side, info)
        self.cum = {"c": 0, "s": 0}
        self.pre = []  # messages as recorded when their hook started
        super().__init__(*a, **kw)

    def side(self, conn):
        return "c" if conn is self.client else "s"

    def feed(self, ev):
        if isinstance(ev, lws.WebSocketMessageInjected):
            self.fed.append(("inject", "c" if ev.message.from_client else "s", ev.message))
        elif isinstance(ev, events.DataReceived):
            s = self.side(ev.connection)
            self.cum[s] += len(ev.data)
            self.fed.append(("data", s, self.cum[s]))
        elif isinstance(ev, events.ConnectionClosed):
            self.fed.append(("closed", self.side(ev.connection), None))
        else:
            self.fed.append(("other", None, None))
        super().feed(ev)

    def _command(self, cmd):
        if isinstance(cmd, lws.WebsocketMessageHook):
            m = cmd.flow.websocket.messages[-1]
            self.pre.append({"from_client": m.from_client, "text": m.type == Opcode.TEXT, "content": bytes(m.content), "injected": m.injected, "obj": m})
        super()._command(cmd)


BIG_TEXT = ("€" * 3000 + "a").encode()  # 9001 bytes, cut at 4000/8000 falls inside a character


def make_policy(r, log):
    def policy(drv, hook):
        if hook.name != "websocket_message":
            return "delay" if r.random() < 0.2 else None
        m = hook.flow.websocket.messages[-1]
        a = r.choice(["keep", "keep", "keep", "same", "same", "to1", "to9001", "grow", "drop"])
        before = bytes(m.content)
        if a == "same":
            if m.is_text:
                m.text = m.text[::-1]
            else:
                m.content = m.content[::-1]
        elif a == "to1":
            if m.is_text:
                m.text = "x"
            else:
                m.content = b"\xff"
        elif a == "to9001":
            if m.is_text:
                m.text = BIG_TEXT.decode()
            else:
                m.content = bytes(range(256)) * 35 + b"\x00" * 41
        elif a == "grow":
            if m.is_text:
                m.text = m.text + "é€\U0001f600" * r.randint(1, 700)
            else:
                m.content = m.content + b"\x80\x00\xff" * r.randint(1, 2000)
        elif a == "drop":
            m.drop()
        log[id(m)] = (a, bytes(m.content) != before)
        return "delay" if r.random() < 0.3 else None

    return policy


def classify(kind, info):
    if info.get("ctl_inside_compressed"):
        return "control-frame-inside-compressed-fragmented-message"
    if kind in ("delivered-differs-from-recorded", "recorded-differs-from-sent") and info.get("text") and info.get("differs_only_by_replacement_chars"):
        if info.get("modified") or info.get("injected") or info.get("inject_during_fragmented_message"):
            return "modified-or-injected-text-refragmented-inside-multibyte-character"
    if kind == "recorded-differs-from-sent" and info.get("inject_during_fragmented_message"):
        return "message-injected-while-fragmented-message-from-same-side-in-progress"
    if kind == "delivered-differs-from-recorded" and info.get("inject_during_fragmented_message") and info.get("recorded_text_not_utf8"):
        return "message-injected-while-fragmented-message-from-same-side-in-progress"
    if kind == "frame-boundaries-changed" and info.get("midchar"):
        return "unmodified-text-fragment-boundary-inside-multibyte-character-shifted"
    if kind == "frame-boundaries-changed" and info.get("inject_during_fragmented_message"):
        return "message-injected-while-fragmented-message-from-same-side-in-progress"
    return None


def run_case(ctx, opts):
    r = ctx.rng
    ext = r.choice(EXT_VARIANTS)
    enc = {"c": r.choice(["wsproto", "raw"]), "s": r.choice(["wsproto", "raw"])}
    c_stream, c_actions, c_end = build_script(r, True, ext, enc["c"])
    s_stream, s_actions, s_end = build_script(r, False, ext, enc["s"])
    seg_mode = lambda st: r.choice(["whole", "random", "random"] if len(st) > 3000 else ["whole", "random", "random", "bytes"])  # noqa: E731
    c_peer = WsPeer(True, ext, vpeers.cut(c_stream, r, seg_mode(c_stream)), c_end == "eof")
    s_peer = WsPeer(False, ext, vpeers.cut(s_stream, r, seg_mode(s_stream)), s_end == "eof")
    polog = {}
    holder = {}

    def top(context):
        context.server.address = ("example.com", 80)
        context.server.state = ConnectionState.OPEN
        context.server.timestamp_start = 1.5
        context.server.peername = ("example.com", 80)
        flow = http.HTTPFlow(context.client, context.server)
        flow.request = http.Request.make("GET", "http://example.com/", headers={"Connection": "upgrade", "Upgrade": "websocket", "Sec-WebSocket-Version": "13"})
        hdrs = {"Connection": "upgrade", "Upgrade": "websocket"}
        if ext:
            hdrs["Sec-WebSocket-Extensions"] = ext
        flow.response = http.Response.make(101, headers=hdrs)
        flow.websocket = WebSocketData()
        holder["flow"] = flow
        return lws.WebsocketLayer(context, flow)

    d = RecDriver(
        top,
        client=sansio.make_client("regular"),
        options=opts,
        rng=r,
        policy=make_policy(r, polog),
        schedule=r.choice(["random", "random", "fifo"]),
        complete_bias=r.choice([0.2, 0.5, 0.8]),
        max_steps=4000,
    )
    flow = holder["flow"]
    server = d.context.server
    d.transports[server] = "server"
    d.servers.append(server)
    d.peers[server] = s_peer
    s_peer.attach(d, server)
    d.attach_client_peer(c_peer)

    n_inj = r.choice([0, 0, 1, 2, 3])
    inj_kinds = []
    started = lambda drv: any(h[1] == "websocket_start" for h in drv.hooks)  # noqa: E731
    for k in range(n_inj):
        fc = r.random() < 0.5
        is_text = r.random() < 0.6
        size = r.choice([0, 5, 300, 4001, 9001, 12002])
        content = gen_text(r, size, r.choice(["ascii", "mixed", "mb3"])) if is_text else bytes(r.getrandbits(8) for _ in range(50)) * (size // 50 + 1)
        content = content if is_text else content[:size]
        after = r.randint(0, 12)
        gate = (lambda a: lambda drv: started(drv) and len(drv.fed) >= a + 2)(after)
        d.injected.append(("inj%d" % k, (lambda fc_, t_, ct: lambda drv: lws.WebSocketMessageInjected(flow, WebSocketMessage(Opcode.TEXT if t_ else Opcode.BINARY, fc_, ct)))(fc, is_text, content), gate))
        inj_kinds.append(("t" if is_text else "b") + size_class(size))

    d.start()
    d.run()
    d.injected.clear()
    d.teardown()
    if d.budget_exceeded:
        ctx.count("inconclusive_cases")
        return None

    peer = {"c": c_peer, "s": s_peer}
    actions = {"c": c_actions, "s": s_actions}
    # ---- when did each scripted action complete (feed index), and where does the conversation end
    data_feeds = {"c": [], "s": []}  # (feed idx, cumulative bytes)
    for i, (kind, side, info) in enumerate(d.fed):
        if kind == "data":
            data_feeds[side].append((i, info))

    def feed_index_of(side, offset):
        for i, cum in data_feeds[side]:
            if cum >= offset:
                return i
        return None

    end_key = None  # (feed idx, side, offset): the event that ends the websocket conversation
    for side in "cs":
        for a in actions[side]:
            if a["kind"] == "close":
                fi = feed_index_of(side, a["end"])
                if fi is not None and (end_key is None or (fi, a["end"]) < end_key[:1] + (end_key[2],)):
                    end_key = (fi, side, a["end"], a)
    for i, (kind, side, info) in enumerate(d.fed):
        if kind == "closed" and (end_key is None or i < end_key[0]):
            end_key = (i, side, -1, None)
            break

    def before_end(fi, side, offset):
        if fi is None:
            return False
        if end_key is None:
            return True
        if fi != end_key[0]:
            return fi < end_key[0]
        return side == end_key[1] and offset < end_key[2]

    witness = {
        "ext": ext,
        "encoders": enc,
        "client_script": [_brief(a) for a in c_actions],
        "server_script": [_brief(a) for a in s_actions],
        "endings": [c_end, s_end],
        "fed": [(k, s, i if not isinstance(i, WebSocketMessage) else ("text" if i.is_text else "bin", len(i.content))) for k, s, i in d.fed][:60],
        "policy": [(("c" if p["from_client"] else "s"), "text" if p["text"] else "bin", len(p["content"]), polog.get(id(p["obj"]), ("?", False))[0]) for p in d.pre][:40],
        "exceptions": [e[:3] for e in d.exceptions],
        "peer_decode_errors": c_peer.decode_errors + s_peer.decode_errors,
    }
    for e in d.exceptions:
        ctx.seen("layer_exceptions", f"{e[0]}@{e[1]}")
    # history condition for a known decoder problem: a control frame between the fragments of a compressed message was delivered
    bug_ctl = bool(ext) and any(
        a["kind"] == "msg" and a["ctl_inside"] and feed_index_of(side, a["start"] + 1) is not None for side in "cs" for a in actions[side]
    )
    base_info = {"ctl_inside_compressed": bug_ctl}
    if bug_ctl:
        ctx.count("ctl_inside_compressed_cases")
    if c_peer.decode_errors or s_peer.decode_errors:
        ctx.violation("far-peer-cannot-decode", witness, classify("far-peer-cannot-decode", base_info))

    # ---- source: expected recorded sequence per direction
    msg_sigs = set()
    any_nontrivial = False
    for side in "cs":
        exp = []
        for a in actions[side]:
            if a["kind"] != "msg":
                continue
            fi = feed_index_of(side, a["end"])
            if before_end(fi, side, a["end"]):
                exp.append((fi, a["end"], {"text": a["text"], "content": a["content"], "injected": False, "action": a}))
        inflight = False
        for i, (kind, s2, info) in enumerate(d.fed):
            if kind == "inject" and s2 == side and before_end(i, None, 0):
                exp.append((i, 0, {"text": info.type == Opcode.TEXT, "content": bytes(info.content), "injected": True, "action": None}))
                # was a fragmented message of this side in progress (some of its frame payload delivered, not yet finished)?
                cum = max([c for fi, c in data_feeds[side] if fi < i], default=0)
                if any(a["kind"] == "msg" and a["start"] < cum < a["end"] for a in actions[side]):
                    inflight = True
        exp.sort(key=lambda t: (t[0], t[1]))
        want = [e[2] for e in exp]
        got = [p for p in d.pre if p["from_client"] == (side == "c")]
        ctx.count("source")
        ok = len(want) == len(got) and all(w["text"] == g["text"] and w["content"] == g["content"] and w["injected"] == g["injected"] for w, g in zip(want, got))
        action_of = {id(g["obj"]): w["action"] for w, g in zip(want, got)} if ok else None
        if not ok:
            # find first differing message for classification
            info = {**base_info, "inject_during_fragmented_message": inflight}
            for w, g in zip(want, got):
                if (w["text"], w["content"], w["injected"]) != (g["text"], g["content"], g["injected"]):
                    info.update(text=w["text"], injected=w["injected"], differs_only_by_replacement_chars=w["text"] and w["injected"] and len(w["content"]) > 4000 and only_fffd_diff(w["content"], g["content"]))
                    break
            ctx.violation(
                "recorded-differs-from-sent",
                {**witness, "side": side, "want": [(w["text"], len(w["content"]), w["injected"], w["content"][:20]) for w in want], "got": [(g["text"], len(g["content"]), g["injected"], g["content"][:20]) for g in got], "info": {k: v for k, v in info.items()}},
                classify("recorded-differs-from-sent", info),
            )

        # ---- delivered: far peer's decoded messages == recorded (final content), not dropped
        far = peer[wf_other(side)]
        rec = [m for m in flow.websocket.messages if m.from_client == (side == "c")]
        want_d = [(m.type == Opcode.TEXT, bytes(m.content)) for m in rec if not m.dropped]
        got_d = [(t, c) for t, c, _ in far.rx_messages]
        ctx.count("delivered")
        if want_d != got_d:
            info = dict(base_info)
            live = [m for m in rec if not m.dropped]
            for idx, (w, g) in enumerate(zip(want_d, got_d)):
                if w != g:
                    m = live[idx]
                    pre = next((p for p in d.pre if p["obj"] is m), None)
                    info = {
                        **base_info,
                        "inject_during_fragmented_message": inflight,
                        "recorded_text_not_utf8": w[0] and not _is_utf8(w[1]),
                        "text": w[0],
                        "modified": pre is not None and pre["content"] != bytes(m.content),
                        "injected": m.injected,
                        "differs_only_by_replacement_chars": w[0] and g[0] and only_fffd_diff(w[1], g[1]),
                    }
                    break
            ctx.violation(
                "delivered-differs-from-recorded",
                {**witness, "direction_from": side, "recorded": [(t, len(c), c[:16]) for t, c in want_d], "far_peer": [(t, len(c), c[:16]) for t, c in got_d], "info": info},
                classify("delivered-differs-from-recorded", info),
            )

        # ---- frames: unmodified messages keep the sender's frame payload lengths
        live = [m for m in rec if not m.dropped]
        if len(live) == len(far.rx_messages) and action_of is not None:
            for m, (t, c, frames) in zip(live, far.rx_messages):
                act, changed = polog.get(id(m), ("?", False))
                big = len(m.content) > 4000
                a = action_of.get(id(m))
                fragmented = bool(a and len(a["frags"]) > 1)
                msg_sigs.add(("t" if t else "b", size_class(len(c)), fragmented, act, m.injected))
                if fragmented:
                    ctx.count("fragmented_messages")
                if big:
                    ctx.count("big_messages")
                if changed:
                    ctx.count("edited_messages")
                if m.injected:
                    ctx.count("injected_messages")
                if fragmented or changed or m.injected or big:
                    any_nontrivial = True
                if m.injected or changed or act not in ("keep",) or a is None or not a["frames_meaningful"]:
                    continue
                ctx.count("frames")
                if frames != a["frags"]:
                    ctx.violation(
                        "frame-boundaries-changed",
                        {**witness, "direction_from": side, "sent_frames": a["frags"], "received_frames": frames, "text": a["text"], "midchar": a["midchar"]},
                        classify("frame-boundaries-changed", {**base_info, "inject_during_fragmented_message": inflight, "midchar": a["midchar"] and frames == wf.aligned_lengths(a["frag_bytes"])}),
                    )
        n_dropped = sum(1 for m in rec if m.dropped)
        if n_dropped:
            ctx.count("dropped_messages", n_dropped)
            any_nontrivial = True

        # ---- control frames
        for kind, rx in (("ping", far.rx_ping), ("pong", far.rx_pong)):
            want_c = []
            for a in actions[side]:
                if a["kind"] == kind:
                    fi = feed_index_of(side, a["end"])
                    if before_end(fi, side, a["end"]):
                        want_c.append(a["payload"])
            ctx.count("control")
            if want_c != rx:
                ctx.violation("control-frames-not-relayed", {**witness, "direction_from": side, "kind": kind, "sent": [p[:8] for p in want_c], "far_peer": [p[:8] for p in rx]}, classify("control-frames-not-relayed", base_info))

    # ---- close
    ws = flow.websocket
    if end_key is not None and end_key[3] is not None:
        a = end_key[3]
        ctx.count("close")
        if (ws.close_code, ws.close_reason or "", ws.closed_by_client) != (a["code"], a["reason"], end_key[1] == "c"):
            ctx.violation("recorded-close-differs-from-sent", {**witness, "sent": (a["code"], a["reason"], end_key[1]), "recorded": (ws.close_code, ws.close_reason, ws.closed_by_client)}, classify("recorded-close-differs-from-sent", base_info))
        far = peer[wf_other(end_key[1])]
        ctx.count("close_relayed_same" if far.rx_close[:1] == [(a["code"], a["reason"])] else "close_relayed_differs")
    elif end_key is not None:
        ctx.count("close_by_eof")
        if ws.close_code != 1006:
            ctx.count("close_by_eof_not_1006")
    if ext:
        ctx.count("deflate_cases")
    sig = (ext, enc["c"], enc["s"], tuple(sorted(msg_sigs))[:8], tuple(sorted(inj_kinds)), c_end, s_end)
    sample = {"ext": ext, "encoders": enc, "client_script": witness["client_script"][:6], "server_script": witness["server_script"][:6], "policy": witness["policy"][:8]}
    return sig, any_nontrivial, sample


def only_fffd_diff(want: bytes, got: bytes) -> bool:
    """got equals want except that some multi-byte characters are each replaced by 2-4 U+FFFD (what decoding the two
    halves of a split character with errors='replace' produces)"""
    try:
        w, g = want.decode("utf-8"), got.decode("utf-8")
    except UnicodeDecodeError:
        return False
    F = "\ufffd"

    def match(i, j, depth):
        while i < len(w) and j < len(g):
            if g[j] == F:
                k = j
                while k < len(g) and g[k] == F:
                    k += 1
                run = k - j
                # the run stands for n >= 1 adjacent items of w: an existing U+FFFD (1, or 2-3 if itself split) or a split
                # multi-byte character (2 .. len(bytes) replacement characters); ambiguous with repeated characters -> backtrack
                n, lo, hi = 0, 0, 0
                while i + n < len(w) and (w[i + n] == F or len(w[i + n].encode()) > 1):
                    lo += 1 if w[i + n] == F else 2
                    hi += 3 if w[i + n] == F else len(w[i + n].encode())
                    n += 1
                    if lo > run:
                        break
                    if run <= hi and depth < 200 and match(i + n, k, depth + 1):
                        return True
                return False
            if w[i] != g[j]:
                return False
            i += 1
            j += 1
        return i == len(w) and j == len(g)

    return w != g and match(0, 0, 0)


def _is_utf8(b):
    try:
        b.decode("utf-8")
        return True
    except UnicodeDecodeError:
        return False


def wf_other(side):
    return "s" if side == "c" else "c"


def _brief(a):
    if a["kind"] == "msg":
        return ("msg", "text" if a["text"] else "bin", len(a["content"]), a["frags"][:8], "midchar" if a["midchar"] else "")
    if a["kind"] == "close":
        return ("close", a["code"], a["reason"][:20])
    return (a["kind"], len(a["payload"]))


def run(ctx):
    tctx, _ = sansio.addon_context()
    opts = tctx.options
    for i in ctx.cases():
        res = ctx.guard(run_case, ctx, opts, what="c28 case")
        if res is None:
            ctx.case(("aborted",), False)
            continue
        ctx.case(*res)
