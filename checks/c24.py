"""C24 -- upstream credentials are only sent to the upstream proxy or the reverse-proxy target.

Engine A with the REAL addons UpstreamAuth (+ NextLayer, Proxyserver, TlsConfig.tls_start_server) in the hook chain.
Every case configures `upstream_auth` with a unique random credential (so a substring search is decisive) and runs a
generated client conversation through the real top layer of the mode: regular, upstream:http://, upstream:https://,
reverse:http://, reverse:https://, transparent, socks5.  Conversations: absolute-form / origin-form plain requests,
`https://` absolute-form requests (mitmproxy opens TLS itself), CONNECT host:80 followed by tunnelled plain requests
(origin-form and hostile absolute-form), CONNECT followed by raw non-HTTP bytes, CONNECT followed by a real TLS
ClientHello.  Peers: a real HTTP proxy peer (answers CONNECT, then hands the tunnel payload to an origin / TLS origin),
real TLS servers (stdlib ssl over MemoryBIO) on the TLS ports, plain origins elsewhere.

`upstream_auth` is also changed at RUNTIME between items of a conversation (injected driver action that fires once all
earlier items are answered; later items are sent only afterwards); every credential ever configured in the case is searched.

Client replay sub-workload (~12% of the cases): flows recorded under upstream / regular / reverse / transparent / socks5 mode
(http and https, recorded inside a CONNECT tunnel or not) are replayed through the real clientplayback.ReplayHandler (its
HttpLayer driven sans-io, hooks delivered to the real UpstreamAuth) while options.mode[0] is each of upstream / regular /
reverse / transparent / socks5; same oracle, with "configured proxy / reverse target" taken from the CURRENT mode.

Shared-destination histories (45% of the regular/upstream cases): 2-5 absolute-form requests on the one client connection go
to the SAME host:port with mixed schemes (https -> CONNECT + real TLS in the tunnel, http -> absolute-form to the proxy), with
tunnels kept open or closed by the peer; every endpoint speaks TLS iff it is greeted with a ClientHello.

Monitor (M2, wire boundary, independent RFC 9112 reader + stdlib TLS as decryptor): the base64 credential and its raw
user / password strings are searched in
  search.conn        every byte written to every upstream connection (ciphertext included),
  search.tls_plain   the plaintext decrypted by every TLS peer (outer proxy TLS, origin TLS, TLS inside a tunnel),
  search.tunnel      everything written after a CONNECT head on a proxy connection (the tunnel payload).
An occurrence is legitimate only in a request (CONNECT or plain) written OUTSIDE any tunnel on a connection whose address
is the configured upstream proxy (upstream modes) or the reverse target (reverse modes).  Everything else refutes.
"""
import base64
import re
import ssl

from mitmproxy.addons.tlsconfig import TlsConfig
from mitmproxy.addons.upstream_auth import UpstreamAuth
from mitmproxy import http as mhttp
from mitmproxy.proxy import layers
from mitmproxy.proxy import server_hooks

from vf import sansio
from vf.gen import c08_peers as P
from vf.ref import http1 as ref

PROPERTY = "C24"
LEVEL = "exploration"
ENGINE = "sansio"
BUDGET = {"quick": (350, 18), "thorough": (40000, 220)}
WORKERS = {"quick": 4, "thorough": 16}
REQUIRED = ["replay.mode_spec_not_lower_case", "replay.flow_carries_recorded_via", "history.mixed_scheme_same_destination", "history.https_request_seen_inside_tunnel_tls", "replay.option_history.auth-then-mode", "replay.cases", "replay.forwarded", "replay.cred_to_proxy", "connect.answered_by_addon_2xx", "connect.refused_by_addon", "upstream.closes_after_response", "tunnel.reconnected", "hook.server_disconnected", "option_change.unset_to_set", "option_change.set_to_other", "option_change.set_to_unset", "option_change.applied", "search.conn", "search.tunnel", "search.tls_plain", "cred.in_connect_head", "cred.in_plain_to_proxy", "cred.to_reverse_target", "forwarded.no_cred_expected"]
TECHNIQUE = "runtime monitoring: sans-io conversations with real addons, unique-token search on every wire / tunnel / decrypted stream"
RULE = (
    "case = (mode, upstream_auth timeline: initially unset or a unique random credential, 0-2 runtime changes between items "
    "(unset->set, set->other, set->unset; every credential a fresh unique token, ALL of them searched), conversation of 1-4 items: plain absolute/origin-form "
    "requests, https:// requests, CONNECT + tunnelled plain requests / raw bytes / TLS ClientHello, proxy CONNECT answer 200/407, "
    "connection_strategy, segmentation, schedule); signature = (mode, auth on, item kinds, connect answer, strategy, where the "
    "credential was seen); non-trivial iff upstream_auth is set and >= 1 tagged request or tunnel payload reached a peer"
)
ASSUMPTIONS = [
    "a peer's protocol is a property of its (host, port): ports 443/8443 speak TLS, others plaintext; upstream certificates are not verified (ssl_insecure) -- C15's subject",
    "HTTP/1 clients only (the upstream-proxy CONNECT path is HTTP/1 in mitmproxy); no addon rewrites of the destination (C08's subject)",
    "legitimate placement = outside any tunnel, on a connection whose address is the configured upstream proxy / reverse target",
]
LEVEL_TEXT = (
    "Exploration: generated conversations in every HTTP-capable proxy mode run through the real layer stack with the real "
    "UpstreamAuth addon; the unique credential is searched in all bytes leaving mitmproxy, including decrypted TLS streams and tunnel "
    "payloads as seen by real proxy/TLS peers. Decides the executions observed."
)
LEVEL_NOTE = "Trusted: vf/sansio.py driver, vf/ref/http1.py, stdlib ssl (decryption at the peers), vf/gen/c08_peers.py."

TAG = re.compile(rb"t\d+-[0-9a-f]{6}")
PROXY_HTTP = ("proxy.test", 8080)
PROXY_HTTPS = ("proxy.test", 8443)
TARGET_HTTP = ("target.test", 80)
TARGET_HTTPS = ("target.test", 443)
TLS_PORTS = (443, 8443)
MODES = (
    ["upstream:http://proxy.test:8080"] * 5
    + ["upstream:https://proxy.test:8443"] * 2
    + ["reverse:http://target.test:80"] * 2
    + ["reverse:https://target.test:443"]
    + ["regular"] * 2
    + ["transparent", "socks5"]
)
HOSTS = ["a.test", "b.test", "proxy.test", "target.test"]
ALNUM = "abcdefghijklmnopqrstuvwxyzABCDEFGHIJKLMNOPQRSTUVWXYZ0123456789"


class TlsStartOnly:
    """Exposes only TlsConfig.tls_start_server to the hook chain (the other TlsConfig hooks need a CA store)."""

    def __init__(self, ta):
        self.tls_start_server = ta.tls_start_server


class ConnectAnswerer:
    """A second (script-like) addon next to UpstreamAuth: answers the client's CONNECT itself in `http_connect`, either with a
    2xx (the tunnel is still established, e.g. to add a Proxy-Agent header) or with a non-2xx (tunnel refused)."""

    def __init__(self, plan, rng):
        self.plan = plan
        self.rng = rng
        self.answered = []

    def http_connect(self, f):
        if self.plan == "2xx":
            status = self.rng.choice([200, 200, 204, 299])
        elif self.plan == "refuse":
            status = self.rng.choice([403, 407, 502])
        else:
            return
        f.response = mhttp.Response.make(status, b"", {"Proxy-Agent": "c24-script", "X-Answered-By": "addon"})
        self.answered.append(status)


class LifecycleDriver(sansio.Driver):
    """Driver that also delivers the connection lifecycle hooks which the real ConnectionHandler fires around
    open_connection / handle_connection (server_connect, server_connected, server_connect_error, server_disconnected,
    client_connected, client_disconnected) to the hook chain.  Hooks reach an addon by NAME (getattr on the live addon
    object), so a hook an addon newly implements is delivered as well."""

    def lifecycle(self, hook):
        try:
            self.run_addons(hook)
        except Exception as e:  # like AddonManager: logged, the hook completes
            self.exceptions.append(("addon:" + type(e).__name__, hook.name, self.step_no, repr(e)))
        self.hooks.append((self.step_no, hook.name, hook, None))

    def _hook_data(self, conn):
        hd = self.__dict__.setdefault("_hd", {})
        if conn not in hd:
            hd[conn] = server_hooks.ServerConnectionHookData(client=self.client, server=conn)
        return hd[conn]

    def start(self):
        self.__dict__.setdefault("_live", set())
        self.lifecycle(server_hooks.ClientConnectedHook(self.client))
        super().start()

    def _complete(self, p):
        if p.kind == "open":
            self.lifecycle(server_hooks.ServerConnectHook(self._hook_data(p.conn)))
            super()._complete(p)
            if p.conn not in self.transports and p.conn not in self._live:
                self.lifecycle(server_hooks.ServerConnectErrorHook(self._hook_data(p.conn)))
        else:
            super()._complete(p)

    def connected(self, conn):
        """called from the server_factory: the connection is OPEN, OpenConnectionCompleted not yet delivered"""
        self._live.add(conn)
        self.lifecycle(server_hooks.ServerConnectedHook(self._hook_data(conn)))

    def sweep(self):
        for conn in [c for c in self._live if c not in self.transports]:
            self._live.discard(conn)
            self.lifecycle(server_hooks.ServerDisconnectedHook(self._hook_data(conn)))

    def step(self):
        ok = super().step()
        self.sweep()
        return ok

    def teardown(self):
        super().teardown()
        self.sweep()
        self.lifecycle(server_hooks.ClientDisconnectedHook(self.client))


def top_factory(mode):
    if mode == "regular":
        return lambda c: layers.modes.HttpProxy(c)
    if mode.startswith("upstream"):
        return lambda c: layers.modes.HttpUpstreamProxy(c)
    if mode.startswith("reverse"):
        return lambda c: layers.modes.ReverseProxy(c)
    if mode == "socks5":
        return lambda c: layers.modes.Socks5Proxy(c)
    return lambda c: layers.modes.TransparentProxy(c)


def client_hello(host):
    c = ssl.SSLContext(ssl.PROTOCOL_TLS_CLIENT)
    c.check_hostname = False
    c.verify_mode = ssl.CERT_NONE
    inc, out = ssl.MemoryBIO(), ssl.MemoryBIO()
    o = c.wrap_bio(inc, out, server_hostname=host)
    try:
        o.do_handshake()
    except ssl.SSLWantReadError:
        pass
    return out.read()


def authority(host, port, scheme="http"):
    return host if port == (443 if scheme == "https" else 80) else f"{host}:{port}"


def req(r, k, form, host, port, scheme="http"):
    tag = "t%d-%06x" % (k, r.getrandbits(24))
    method = r.choice(["GET", "GET", "POST", "PUT", "HEAD"])
    body = b""
    hdr = ""
    if method in ("POST", "PUT"):
        body = ("b:" + tag).encode()
        hdr = f"Content-Length: {len(body)}\r\n"
    au = authority(host, port, scheme)
    target = f"{scheme}://{au}/{tag}" if form == "absolute" else f"/{tag}"
    extra = r.choice(["", "", "X-Note: n\r\n", "Proxy-Connection: keep-alive\r\n"])
    raw = f"{method} {target} HTTP/1.1\r\nHost: {au}\r\n{hdr}{extra}\r\n".encode() + body
    return tag.encode(), raw


def tls_view(peer):
    """-> (speaks TLS, application peer | None, plaintext the application peer received) for TLS / auto-detecting endpoints."""
    if isinstance(peer, P.AutoTlsPeer):
        if peer.delegate is None:
            return False, None, b""
        if peer.tls:
            return True, peer.delegate.inner, peer.delegate.plaintext()
        return False, peer.delegate, bytes(peer.delegate.received)
    if isinstance(peer, P.TlsServerPeer):
        return True, peer.inner, peer.plaintext()
    return False, peer, bytes(peer.received) if peer is not None else b""


def build_case(r):
    mode = r.choice(MODES)
    fam = mode.split(":")[0]
    items = []  # dict(kind, tag?, raw, tunnel: bool)
    k = 0
    spec = {"mode": mode, "fam": fam, "items": items, "dest": None, "shared": False}
    if fam in ("regular", "upstream"):
        # "shared destination" histories: several requests on the one client connection go to the SAME host:port with mixed
        # schemes (https then http, http then https) -- every endpoint speaks TLS iff it is greeted with a ClientHello
        shared = r.random() < 0.45
        spec["shared"] = shared
        pool = [(r.choice(HOSTS), r.choice([80, 443, 8080, 8443])) for _ in range(r.choice([1, 1, 2]))]
        for _ in range(r.choice([2, 3, 4, 5]) if shared else r.choice([0, 1, 1, 2, 3])):
            scheme = "https" if r.random() < (0.5 if shared else 0.2) else "http"
            host = r.choice(HOSTS)
            port = r.choice([443, 8443] if scheme == "https" else [80, 80, 8080])
            if shared:
                host, port = r.choice(pool)
            form = "absolute" if r.random() < 0.9 or scheme == "https" else "origin"
            tag, raw = req(r, k, form, host, port, scheme)
            k += 1
            items.append({"kind": f"plain-{scheme}-{form}", "tag": tag, "raw": raw, "tunnel": False, "dest3": (host, port, scheme)})
        if r.random() < 0.65 or not items:
            host = r.choice(HOSTS)
            inner = r.choice(["http", "http", "http", "raw", "tls"])
            port = r.choice([80, 80, 8080]) if inner == "http" else r.choice([443, 8443, 80]) if inner == "raw" else r.choice([443, 8443])
            au = f"{host}:{port}"
            items.append({"kind": "connect", "tag": None, "raw": f"CONNECT {au} HTTP/1.1\r\nHost: {au}\r\n\r\n".encode(), "tunnel": False, "dest": (host, port)})
            if inner == "http":
                for _ in range(r.choice([1, 2, 3, 4, 5])):
                    form = "absolute" if r.random() < 0.25 else "origin"
                    tag, raw = req(r, k, form, host, port)
                    k += 1
                    items.append({"kind": f"inner-http-{form}", "tag": tag, "raw": raw, "tunnel": True})
            elif inner == "raw":
                tag = b"t%d-%06x" % (k, r.getrandbits(24))
                items.append({"kind": "inner-raw", "tag": tag, "raw": b"\x00\x01RAW " + tag + b"\n", "tunnel": True})
            else:
                items.append({"kind": "inner-tls", "tag": None, "raw": client_hello(host), "tunnel": True})
    else:
        if fam == "reverse":
            host, port = TARGET_HTTPS if "https" in mode else TARGET_HTTP
        else:
            host, port = r.choice(HOSTS), r.choice([80, 80, 8080])
        spec["dest"] = (host, port)
        if fam == "socks5":
            items.append({"kind": "socks-greeting", "tag": None, "raw": b"\x05\x01\x00" + b"\x05\x01\x00\x03" + bytes([len(host)]) + host.encode() + port.to_bytes(2, "big"), "tunnel": False})
        for _ in range(r.choice([1, 2, 2, 3, 4])):
            form = "absolute" if r.random() < 0.15 else "origin"
            h2 = r.choice(HOSTS) if r.random() < 0.3 else host
            tag, raw = req(r, k, form, h2, port)
            k += 1
            items.append({"kind": f"plain-http-{form}", "tag": tag, "raw": raw, "tunnel": False})
    return spec


def classify(spec, where, tag_item):
    """Mechanism from the history: which mode, and what kind of conversation item carried the credential."""
    if spec["fam"] == "upstream" and where in ("tunnel", "tunnel-tls") and tag_item is not None and tag_item["kind"].startswith("inner-http"):
        return "upstream-mode-plain-http-request-inside-connect-tunnel"
    return None


def messages_outside_tunnel(data: bytes):
    """-> (list of (msg, raw_bytes)), tunnel_payload | None, unparsed_rest)."""
    out = []
    pos = 0
    while pos < len(data):
        if data[pos:].strip(b"\r\n") == b"":
            return out, None, b""
        try:
            m, npos = ref.parse_request(data, pos)
        except (ref.Incomplete, ref.Reject):
            return out, None, data[pos:]
        out.append((m, data[pos:npos]))
        pos = npos
        if m["method"] == "CONNECT":
            return out, data[pos:], b""
    return out, None, b""


def run_case(ctx, tctx, ua, chain):
    r = ctx.rng
    spec = build_case(r)
    mode, fam = spec["mode"], spec["fam"]
    needles = []  # every credential EVER configured in this case: base64 token, raw user, raw password

    def fresh_cred():
        user = "u" + "".join(r.choice(ALNUM) for _ in range(9))
        pw = "p" + "".join(r.choice(ALNUM + ":@ ") if r.random() < 0.15 else r.choice(ALNUM) for _ in range(11))
        c = f"{user}:{pw}"
        needles.extend([base64.b64encode(c.encode()), user.encode(), pw.encode()])
        return c

    cred = fresh_cred() if r.random() < 0.8 else None
    # runtime option changes between items of the conversation (console `set upstream_auth=...`, options API)
    timeline = [cred]
    changes = []  # (before item index, new value)
    n_items = len(spec["items"])
    if n_items >= 2 and r.random() < 0.5:
        cur = cred
        for j in sorted(r.sample(range(1, n_items), min(n_items - 1, r.choice([1, 1, 2])))):
            new = fresh_cred() if cur is None or r.random() < 0.65 else None
            ctx.count("option_change." + ("unset_to_set" if cur is None else "set_to_unset" if new is None else "set_to_other"))
            changes.append((j, new))
            timeline.append(new)
            cur = new
    auth_on = bool(needles)
    strategy = r.choice(["eager", "lazy"])
    connect_answer = r.choice([200, 200, 200, 200, 407])
    tctx.options.update(upstream_auth=cred, connection_strategy=strategy, ssl_insecure=True)

    by_tag = {it["tag"]: it for it in spec["items"] if it["tag"]}
    close_p = r.choice([0, 0, 0.4, 0.8])

    def responder(k, msg, peer):
        m = TAG.search(msg["target"])
        tag = m.group(0) if m else b"none"
        body = b"" if msg["method"] == "HEAD" else b"r:" + tag
        # the upstream side may close after a response (announced keep-alive close, or silent idle close): mitmproxy keeps
        # the client connection / client side of the tunnel and reconnects (re-CONNECTs) for the next request
        how = r.choice(["announced", "silent"]) if r.random() < close_p else None
        if how:
            ctx.count("upstream.closes_after_response")
        extra = b"Connection: close\r\n" if how == "announced" else b""
        return b"HTTP/1.1 200 OK\r\nx-tag: " + tag + b"\r\n" + extra + b"Content-Length: " + (b"%d" % (len(body) if msg["method"] != "HEAD" else 4)) + b"\r\n\r\n" + body, bool(how)

    def connect_plan(msg, peer):
        if connect_answer == 200:
            return b"HTTP/1.1 200 Connection established\r\n\r\n", True
        return b"HTTP/1.1 407 Proxy Authentication Required\r\nProxy-Authenticate: Basic realm=\"up\"\r\nContent-Length: 0\r\n\r\n", False

    def tunnel_factory(msg):
        return P.AutoTlsPeer(P.OriginPeer(responder))  # TLS iff greeted with a ClientHello

    def server_factory(drv, conn):
        addr = tuple(conn.address[:2])
        if addr in (PROXY_HTTP, PROXY_HTTPS):
            p = P.ProxyPeer(responder, connect_plan, tunnel_factory)
        else:
            p = P.OriginPeer(responder)
        drv.connected(conn)
        return P.AutoTlsPeer(p)

    # a second addon answers the client's CONNECT itself (2xx: tunnel established anyway / non-2xx: refused), placed
    # before or after the real UpstreamAuth in the hook chain
    answer_plan = r.choice(["none", "none", "none", "2xx", "2xx", "refuse"])
    answerer = ConnectAnswerer(answer_plan, r)
    chain = list(chain)
    answerer_first = r.random() < 0.5
    chain.insert(1 if answerer_first else 2, answerer)
    client = sansio.make_client(mode)
    d = LifecycleDriver(
        top_factory(mode), client=client, options=tctx.options, rng=r, addons=chain, server_factory=server_factory,
        schedule=r.choice(["random", "random", "fifo"]), max_steps=4000,
    )
    if fam == "transparent":
        d.context.server.address = spec["dest"]
    # client script: items before/including CONNECT (or the SOCKS preamble) first; the rest either pipelined or after an answer
    segs = []
    gated = r.random() < 0.6
    seen_gatepoint = False
    done = {"n": 0}
    answering = [it["kind"].startswith(("plain-", "inner-http")) or it["kind"] == "connect" for it in spec["items"]]
    for ci, (j, new) in enumerate(changes):
        # the change happens once every earlier item has been answered; the items from j on are sent only afterwards
        def fire(drv, new=new):
            tctx.options.update(upstream_auth=new)
            done["n"] += 1
            return None

        d.injected.append((f"set-upstream_auth-{ci}", fire, lambda drv, ci=ci, j=j: done["n"] == ci and bytes(drv.out[client]).count(b"HTTP/1.1 ") >= sum(answering[:j])))
    sequential = r.random() < 0.5  # every item is sent only after all earlier ones were answered (keep-alive client)
    for idx, it in enumerate(spec["items"]):
        need = sum(1 for j, _ in changes if j <= idx)
        g1 = (lambda drv: len(drv.out[client]) > 0) if (seen_gatepoint and gated) else None
        if sequential and idx:
            g1 = lambda drv, idx=idx: bytes(drv.out[client]).count(b"HTTP/1.1 ") >= sum(answering[:idx])
        gate = g1
        if need:
            gate = lambda drv, need=need, g1=g1: done["n"] >= need and (g1 is None or g1(drv))
        segs.append((it["raw"], gate))
        if it["kind"] in ("connect", "socks-greeting"):
            seen_gatepoint = True
    if r.random() < 0.3:
        segs = [(bytes([b]), g) for s, g in segs for b in s] if sum(len(s) for s, _ in segs) < 700 else segs
    d.attach_client_peer(sansio.ScriptPeer(segs))
    d.start()
    d.run()
    d.teardown()
    ctx.count("option_change.applied", done["n"])
    if d.budget_exceeded:
        ctx.count("inconclusive_cases")
        return None
    for e in d.exceptions:
        ctx.seen("layer_exceptions", f"{e[0]}@{e[1]}")
    ctx.seen("hook_sequences", ",".join(d.hook_names())[:300])

    proxy_addr = (PROXY_HTTPS if "https" in mode else PROXY_HTTP) if fam == "upstream" else None
    target_addr = (TARGET_HTTPS if "https" in mode else TARGET_HTTP) if fam == "reverse" else None
    seen_where = set()
    reached = 0
    witness = {"mode": mode, "upstream_auth_timeline": timeline, "option_changes_before_item": changes, "changes_applied": done["n"], "strategy": strategy, "connect_answer": connect_answer, "addon_answers_connect": (answer_plan, "before-upstream_auth" if answerer_first else "after-upstream_auth"),
               "items": [(it["kind"], it["raw"][:120]) for it in spec["items"]], "hooks": d.hook_names()}

    def hit(data):
        return [n for n in needles if n in data]

    def report(where, conn, data, tag_item=None):
        ctx.violation(
            f"credential-in-{where}",
            {**witness, "conn": repr(conn.address), "where": where, "carrier": tag_item["kind"] if tag_item else None, "bytes": data[:600]},
            classify(spec, where, tag_item),
        )

    def item_of(data):
        m = TAG.search(data)
        return by_tag.get(m.group(0)) if m else None

    def scan_tunnel(conn, payload, tpeer):
        nonlocal reached
        ctx.count("search.tunnel")
        if payload:
            reached += 1
        if auth_on and hit(payload):
            seen_where.add("tunnel")
            report("tunnel", conn, payload, item_of(payload[max(0, min(payload.find(n) for n in hit(payload)) - 400):]))
        t_tls, _t_app, plain = tls_view(tpeer) if tpeer is not None else (False, None, b"")
        if t_tls:
            ctx.count("search.tls_plain")
            if plain:
                ctx.count("tls_plain.nonempty")
                if TAG.search(plain):
                    tunnel_tls_tags.extend(TAG.findall(plain))
            if auth_on and hit(plain):
                seen_where.add("tunnel-tls")
                report("tunnel-tls", conn, plain, item_of(plain[max(0, min(plain.find(n) for n in hit(plain)) - 400):]))

    for st in answerer.answered:
        ctx.count("connect.answered_by_addon_2xx" if 200 <= st < 300 else "connect.refused_by_addon")
    ctx.count("hook.server_disconnected", sum(1 for h in d.hooks if h[1] == "server_disconnected"))
    n_tunnels = 0
    tunnel_tls_tags = []
    for conn in d.servers:
        raw = bytes(d.out[conn])
        peer = d.peers.get(conn)
        addr = tuple(conn.address[:2])
        ctx.count("search.conn")
        app = raw
        is_tls, inner_peer, plain_ = tls_view(peer)
        if is_tls:
            # ciphertext must not contain it either (would mean it was sent in the clear before/around the handshake)
            if auth_on and hit(raw):
                report("tls-ciphertext", conn, raw)
            app = plain_
            ctx.count("search.tls_plain")
            if app:
                ctx.count("tls_plain.nonempty")
        msgs, payload, rest = messages_outside_tunnel(app)
        legit_conn = (proxy_addr is not None and addr == proxy_addr) or (target_addr is not None and addr == target_addr)
        for m, mraw in msgs:
            if TAG.search(mraw):
                reached += 1
            if not auth_on:
                continue
            if hit(mraw):
                if legit_conn:
                    if m["method"] == "CONNECT":
                        ctx.count("cred.in_connect_head")
                        seen_where.add("connect-head")
                    elif proxy_addr is not None:
                        ctx.count("cred.in_plain_to_proxy")
                        seen_where.add("plain-to-proxy")
                    else:
                        ctx.count("cred.to_reverse_target")
                        seen_where.add("reverse-target")
                else:
                    seen_where.add("other-conn")
                    report("request-to-non-proxy-connection", conn, mraw, item_of(mraw))
            elif TAG.search(mraw):
                ctx.count("forwarded.no_cred_expected" if not legit_conn else "forwarded.to_legit_conn_without_cred")
        if rest and auth_on and hit(rest):
            report("unparsed-upstream-bytes", conn, rest, item_of(rest))
        if payload is not None:
            n_tunnels += 1
            scan_tunnel(conn, payload, getattr(inner_peer, "tunnel", None))

    if fam == "upstream" and n_tunnels >= 2 and any(it["kind"].startswith("inner-http") for it in spec["items"]):
        ctx.count("tunnel.reconnected")  # the client's single tunnel was served by >= 2 upstream CONNECTs
    d3 = [it["dest3"] for it in spec["items"] if it.get("dest3")]
    mixed = any(a[:2] == b[:2] and a[2] != b[2] for a in d3 for b in d3)
    if fam == "upstream" and mixed:
        ctx.count("history.mixed_scheme_same_destination")
        if any(it.get("dest3") and it["dest3"][2] == "https" and it["tag"] in tunnel_tls_tags for it in spec["items"]):
            ctx.count("history.https_request_seen_inside_tunnel_tls")
    kinds = tuple(it["kind"] for it in spec["items"])
    sig = (mode.split("//")[0], ("shared", mixed) if spec["shared"] else None, tuple("set" if c else "unset" for c in timeline), tuple(j for j, _ in changes), kinds, connect_answer if "connect" in kinds else None, (answer_plan, answerer_first) if "connect" in kinds else None, strategy, tuple(sorted(seen_where)))
    sample = {"mode": mode, "upstream_auth_timeline": timeline, "option_changes_before_item": changes, "items": [it["kind"] for it in spec["items"]], "credential_seen_in": sorted(seen_where), "upstream_conns": [repr(c.address) for c in d.servers]}
    return sig, auth_on and reached > 0, sample


REC_MODES = ["upstream:http://proxy.test:8080", "upstream:http://oldproxy.test:3128", "upstream:https://proxy.test:8443", "regular",
             "reverse:http://target.test:80", "reverse:http://oldtarget.test:80", "transparent", "socks5"]
CUR_MODES = ["upstream:http://proxy.test:8080", "upstream:https://proxy.test:8443", "regular", "regular", "reverse:http://target.test:80",
             "reverse:https://target.test:443", "transparent", "socks5",
             # mode specs are not case-sensitive (ProxyMode.parse lower-cases the mode name)
             "Upstream:http://proxy.test:8080", "UPSTREAM:https://proxy.test:8443", "Regular", "Reverse:http://target.test:80"]


def classify_replay(rec, cur, conn_addr, cur_target, rec_via=None):
    """Mechanism from the history: mode the flow was recorded in, mode mitmproxy runs in now, where the credential went."""
    if cur != cur.lower() and cur.lower().startswith("upstream"):
        return "client-replay-while-the-upstream-mode-spec-is-not-spelled-in-lower-case"
    if rec_via is not None and not cur.lower().startswith("upstream") and conn_addr == tuple(rec_via[1]):
        return "client-replay-goes-via-the-upstream-proxy-recorded-in-the-flow-while-not-running-in-upstream-mode"
    if rec.startswith("upstream") and not cur.lower().startswith("upstream"):
        return "client-replay-of-flow-recorded-in-upstream-mode-while-not-running-in-upstream-mode"
    if rec.startswith("reverse") and (cur_target is None or conn_addr != cur_target):
        return "client-replay-of-flow-recorded-in-reverse-mode-to-a-host-that-is-not-the-current-reverse-target"
    return None


def run_replay_case(ctx, tctx, ua, chain):
    """Client replay: flows recorded under one mode are replayed through the real clientplayback.ReplayHandler (its HttpLayer is
    driven sans-io, hooks go to the real UpstreamAuth) while options.mode[0] is another mode. Same oracle as for live traffic."""
    from mitmproxy.addons.clientplayback import ReplayHandler
    from mitmproxy.proxy import mode_specs
    from mitmproxy.test import tflow

    r = ctx.rng
    rec, cur = r.choice(REC_MODES), r.choice(CUR_MODES)
    user = "u" + "".join(r.choice(ALNUM) for _ in range(9))
    pw = "p" + "".join(r.choice(ALNUM) for _ in range(11))
    cred = f"{user}:{pw}"
    needles = [base64.b64encode(cred.encode()), user.encode(), pw.encode()]
    # option history before the replay: the credentials are configured while another mode is (still) set and the mode is
    # switched afterwards, or the other way round, or both in one update
    prev = r.choice(CUR_MODES)
    order = r.choice(["auth-then-mode", "auth-then-mode", "mode-then-auth", "joint", "auth-mode-auth2"])
    ctx.count("replay.option_history." + order)
    tctx.options.update(connection_strategy=r.choice(["eager", "lazy"]), ssl_insecure=True)
    if order == "auth-then-mode":
        tctx.options.update(mode=[prev], upstream_auth=None)
        tctx.options.update(upstream_auth=cred)
        tctx.options.update(mode=[cur])
    elif order == "mode-then-auth":
        tctx.options.update(upstream_auth=None)
        tctx.options.update(mode=[cur])
        tctx.options.update(upstream_auth=cred)
    elif order == "joint":
        tctx.options.update(upstream_auth=cred, mode=[cur])
    else:
        old = "uOLD" + user + ":pOLD" + pw
        needles += [base64.b64encode(old.encode()), ("uOLD" + user).encode(), ("pOLD" + pw).encode()]
        tctx.options.update(mode=[prev], upstream_auth=old)
        tctx.options.update(mode=[cur])
        tctx.options.update(upstream_auth=cred)
    cur_proxy = (PROXY_HTTPS if "https" in cur else PROXY_HTTP) if cur.lower().startswith("upstream") else None
    cur_target = (TARGET_HTTPS if "https" in cur else TARGET_HTTP) if cur.lower().startswith("reverse") else None
    if cur != cur.lower():
        ctx.count("replay.mode_spec_not_lower_case")
    ctx.count("replay.cases")

    def responder(k, msg, peer):
        m = TAG.search(msg["target"])
        tag = m.group(0) if m else b"none"
        return b"HTTP/1.1 200 OK\r\nx-tag: " + tag + b"\r\nContent-Length: 2\r\n\r\nok", False

    def tunnel_factory(msg):
        o = P.OriginPeer(responder)
        return P.TlsServerPeer(o) if msg["target"].rsplit(b":", 1)[-1] in (b"443", b"8443") else o

    def server_factory(drv, conn):
        addr = tuple(conn.address[:2])
        p = P.ProxyPeer(responder, None, tunnel_factory) if addr in (PROXY_HTTP, PROXY_HTTPS) or addr[0] == "oldproxy.test" else P.OriginPeer(responder)
        drv.connected(conn)
        return P.TlsServerPeer(p) if addr[1] in TLS_PORTS else p

    seen = set()
    forwarded = 0
    flows_desc = []
    for k in range(r.choice([1, 1, 2, 3])):
        tag = "t%d-%06x" % (k, r.getrandbits(24))
        scheme = "https" if r.random() < 0.3 else "http"
        if rec.startswith("reverse") and r.random() < 0.7:
            host, port = ("oldtarget.test" if "oldtarget" in rec else "target.test"), 80
            scheme = "http"
        else:
            host = r.choice(HOSTS)
            port = r.choice([443, 8443] if scheme == "https" else [80, 80, 8080])
        f = tflow.tflow()
        f.request.host, f.request.port, f.request.scheme = host, port, scheme
        f.request.path = "/" + tag
        f.request.headers.clear()
        f.request.headers["Host"] = authority(host, port, scheme)
        f.request.content = r.choice([b"", b"b:" + tag.encode()])
        f.client_conn.proxy_mode = mode_specs.ProxyMode.parse(rec)
        rec_via = None
        if rec.startswith("upstream") and r.random() < 0.8:
            # a flow recorded in upstream mode carries the upstream proxy it was sent through
            rm = mode_specs.ProxyMode.parse(rec)
            rec_via = (rm.scheme, rm.address)
            f.server_conn.via = rec_via
            ctx.count("replay.flow_carries_recorded_via")
        tunnelled = rec.startswith("upstream") and r.random() < 0.3
        if tunnelled:
            ua.http_connected(f)  # the flow was recorded inside a CONNECT tunnel of that client connection
        f.is_replay = "request"  # what ClientPlayback.start_replay does
        flows_desc.append((tag, scheme, host, port, "tunnelled" if tunnelled else "direct", rec_via))
        h = ReplayHandler(f, tctx.options)
        d = LifecycleDriver(lambda c, h=h: h.layer, client=h.layer.context.client, options=tctx.options, rng=r, addons=chain,
                            server_factory=server_factory, schedule=r.choice(["random", "fifo"]), max_steps=2000)
        d.context = h.layer.context
        d.start()
        d.run()
        d.teardown()
        if d.budget_exceeded:
            ctx.count("inconclusive_cases")
            return None
        for e in d.exceptions:
            ctx.seen("layer_exceptions", f"{e[0]}@{e[1]}")
        ctx.seen("replay_hook_sequences", ",".join(d.hook_names())[:200])
        witness = {"replay": True, "recorded_mode": rec, "current_mode": cur, "option_history": (order, prev), "upstream_auth": cred, "flows": flows_desc, "hooks": d.hook_names()}
        for conn in d.servers:
            raw = bytes(d.out[conn])
            peer = d.peers.get(conn)
            addr = tuple(conn.address[:2])
            ctx.count("search.conn")
            app, inner_peer = raw, peer
            if isinstance(peer, P.TlsServerPeer):
                if any(n in raw for n in needles):
                    ctx.violation("credential-in-tls-ciphertext", {**witness, "conn": repr(addr)}, classify_replay(rec, cur, addr, cur_target, rec_via))
                app, inner_peer = peer.plaintext(), peer.inner
                ctx.count("search.tls_plain")
            msgs, payload, rest = messages_outside_tunnel(app)
            legit = (cur_proxy is not None and addr == cur_proxy) or (cur_target is not None and addr == cur_target)
            for m, mraw in msgs:
                if TAG.search(mraw):
                    forwarded += 1
                if any(n in mraw for n in needles):
                    if legit:
                        seen.add("proxy" if cur_proxy else "reverse-target")
                        ctx.count("replay.cred_to_proxy" if cur_proxy else "replay.cred_to_reverse_target")
                    else:
                        seen.add("other-conn")
                        ctx.violation("credential-in-replayed-request-to-non-proxy-connection", {**witness, "conn": repr(addr), "bytes": mraw[:400]}, classify_replay(rec, cur, addr, cur_target, rec_via))
            hidden = [rest]
            if payload is not None:
                ctx.count("search.tunnel")
                hidden.append(payload)
                t = getattr(inner_peer, "tunnel", None)
                if isinstance(t, P.TlsServerPeer):
                    hidden.append(t.plaintext())
                    ctx.count("search.tls_plain")
                if TAG.search(payload) or (isinstance(t, P.TlsServerPeer) and TAG.search(t.plaintext())):
                    forwarded += 1
            for data in hidden:
                if data and any(n in data for n in needles):
                    seen.add("tunnel")
                    ctx.violation("credential-in-replayed-request-inside-tunnel", {**witness, "conn": repr(addr), "bytes": data[:400]}, classify_replay(rec, cur, addr, cur_target, rec_via))
    if forwarded:
        ctx.count("replay.forwarded", forwarded)
    sig = ("replay", rec.split("//")[0] + ("-old" if "old" in rec else ""), cur.split("//")[0], tuple(sorted({(x[1], x[4]) for x in flows_desc})), tuple(sorted(seen)))
    return sig, forwarded > 0, {"replay": True, "recorded_mode": rec, "current_mode": cur, "flows": flows_desc, "credential_seen_in": sorted(seen)}


def run(ctx):
    tctx, addons = sansio.addon_context(UpstreamAuth, TlsConfig)
    ua, ta = addons[2], addons[3]
    chain = [addons[1], ua, TlsStartOnly(ta)]
    keep = {k: getattr(tctx.options, k) for k in ("upstream_auth", "connection_strategy", "ssl_insecure", "mode")}
    try:
        for i in ctx.cases():
            replay = ctx.rng.random() < 0.12
            res = ctx.guard(run_replay_case if replay else run_case, ctx, tctx, ua, chain, what="c24 replay case" if replay else "c24 case")
            if res is None:
                ctx.case(("aborted",), False)
                continue
            ctx.case(*res)
    finally:
        tctx.options.update(**keep)
