"""C25 -- DNS wire encoding round-trips and decoding is total.

Three monitors at the ``DNSMessage.packed`` / ``DNSMessage.unpack`` boundary:

(a) well-formed message m (IDNA-canonical names <= 255 octets, any type/class/TTL/header bits, arbitrary RDATA):
    ``m.packed`` must not raise, ``unpack(m.packed) == m`` field by field, and the independent reference decoder
    (vf/ref/dns.py, strict RFC 1035) must read the same fields from ``m.packed``.
(b) arbitrary bytes: ``unpack`` returns a message or raises ``struct.error`` -- any other exception is a violation;
    termination is watched by a sys.monitoring step counter on the decoder's own code objects (budget overrun =
    inconclusive case, not a violation).
(c) for every decodable b: ``unpack(unpack(b).packed)`` must not raise and must equal ``unpack(b)``.

Byte workload: reference-encoded messages (compressed and not) with hostile labels, their mutations, and crafted
constructions (pointer chains of 1..5000 hops, self/mutual loops, forward pointers, pointers into header/RDATA,
ACE labels with invalid punycode, labels containing '.', high bytes, 63/64-octet labels, truncation, oversized
counts, trailing bytes, pointer-looking octets in RDATA).
"""
import struct
import sys

from mitmproxy.dns import DNSMessage
from mitmproxy.dns import Question
from mitmproxy.dns import ResourceRecord
from mitmproxy.net.dns import domain_names
from vf.gen import c25_dnsgen as G
from vf.ref import dns as R

PROPERTY = "C25"
LEVEL = "exploration"
ENGINE = "direct"
TECHNIQUE = "round-trip + differential against a reference RFC 1035 codec + totality fuzzing with crafted compression"
BUDGET = {"quick": (9_000, 12), "thorough": (1_500_000, 170)}
WORKERS = {"quick": 2, "thorough": 16}
REQUIRED = ["a.rdata_name_overrun_followed_by_records", "a.packed_ok", "a.roundtrip_equal", "a.ref_decode_agrees", "b.total", "b.decoded", "b.parse_error", "c.repack_ok", "c.reunpack_equal"]
RULE = (
    "case kinds: 35% clause (a) generated well-formed messages (8% of them: a record of a name-bearing type, half SIG/NXT, whose RDATA name is not terminated inside the record, followed by further records with plain owner names; otherwise: names from ASCII/odd-ASCII/IDN label pools, 63-octet labels, "
    "root, names up to 255 octets; types incl. all name-bearing ones and random; TTLs at 0/2^31/2^32-1; RDATA empty, typed, random, "
    "pointer-looking, up to 65535 octets; all header bits); 65% clause (b)+(c) byte strings: reference-encoded messages "
    "(compressed or not, hostile labels), 1-6 random mutations of them, and crafted constructions (pointer chains 1..5000 hops, "
    "loops, forward/header/RDATA pointers, bad ACE labels, dots in labels, label lengths 62..191, truncation, wrong counts, "
    "trailing bytes, RDLENGTH lies); distinct = (clause, sorted feature set, outcome class incl. exception site); non-trivial = "
    "clause (a) message with at least one record or question, or byte string of at least 12 octets"
)
ASSUMPTIONS = [
    "'IDNA-canonical name' = every label is a fixed point of the stdlib IDNA (2003) codec, wire length <= 255, no empty label",
    "'parse error' = struct.error (the only exception type mitmproxy.proxy.layers.dns catches around unpack)",
    "a step-budget overrun (2M decoder steps for inputs < 70 kB) is reported as an inconclusive case, not a violation",
]
LEVEL_TEXT = (
    "Inputs are sampled from structured generators that reach every construction named in the property (compression loops, "
    "deep chains, truncation, trailing bytes, full field ranges); the result is exploration of a large input space, with an "
    "independent RFC 1035 decoder confirming the encoder on every well-formed message."
)
LEVEL_NOTE = "Trusted: vf/ref/dns.py (strict decoder/encoder, ~250 lines), the stdlib idna codec for the domain filter of clause (a)."

STEP_BUDGET = 2_000_000


# ---- termination watchdog ------------------------------------------------------------------------------------------------

class StepBudgetExceeded(BaseException):
    pass


class Watchdog:
    """Counts PY_START and backward JUMP events inside the decoder's code objects only (sys.monitoring, 3.12+)."""

    TOOL = 4

    def __init__(self):
        self.mon = sys.monitoring
        self.steps = 0
        self.limit = STEP_BUDGET
        self.mon.use_tool_id(self.TOOL, "vf-c25-steps")
        ev = self.mon.events
        self.mon.register_callback(self.TOOL, ev.PY_START, self._tick)
        self.mon.register_callback(self.TOOL, ev.JUMP, self._tick)
        codes = []

        def walk(code):
            codes.append(code)
            for c in code.co_consts:
                if hasattr(c, "co_code"):
                    walk(c)

        for fn in (DNSMessage.unpack_from.__func__, DNSMessage.unpack.__func__, domain_names.unpack_from_with_compression,
                   domain_names._unpack_label_into, domain_names.decompress_from_record_data, domain_names.pack):
            walk(fn.__code__)
        for c in codes:
            self.mon.set_local_events(self.TOOL, c, ev.PY_START | ev.JUMP)
        self.ncodes = len(codes)

    def _tick(self, *a):
        self.steps += 1
        if self.steps > self.limit:
            self.steps = 0
            raise StepBudgetExceeded()

    def close(self):
        self.mon.free_tool_id(self.TOOL)


# ---- helpers ---------------------------------------------------------------------------------------------------------------

def build(fields) -> DNSMessage:
    secs = [[ResourceRecord(x["name"], x["type"], x["class"], x["ttl"], x["data"]) for x in s] for s in fields["sections"]]
    return DNSMessage(
        **fields["hdr"],
        questions=[Question(q["name"], q["type"], q["class"]) for q in fields["questions"]],
        answers=secs[0], authorities=secs[1], additionals=secs[2],
    )


HDR_FIELDS = ["id", "query", "op_code", "authoritative_answer", "truncation", "recursion_desired", "recursion_available", "reserved", "response_code"]


def diff(m1: DNSMessage, m2: DNSMessage):
    """First differing field path or None."""
    for f in HDR_FIELDS:
        if getattr(m1, f) != getattr(m2, f):
            return f, getattr(m1, f), getattr(m2, f)
    if len(m1.questions) != len(m2.questions):
        return "len(questions)", len(m1.questions), len(m2.questions)
    for i, (a, b) in enumerate(zip(m1.questions, m2.questions)):
        for f in ("name", "type", "class_"):
            if getattr(a, f) != getattr(b, f):
                return f"questions[{i}].{f}", getattr(a, f), getattr(b, f)
    for sec in ("answers", "authorities", "additionals"):
        s1, s2 = getattr(m1, sec), getattr(m2, sec)
        if len(s1) != len(s2):
            return f"len({sec})", len(s1), len(s2)
        for i, (a, b) in enumerate(zip(s1, s2)):
            for f in ("name", "type", "class_", "ttl", "data"):
                if getattr(a, f) != getattr(b, f):
                    return f"{sec}[{i}].{f}", getattr(a, f), getattr(b, f)
    return None


def all_rrs(m):
    return [*m.answers, *m.authorities, *m.additionals]


def all_names(m):
    return [q.name for q in m.questions] + [r.name for r in all_rrs(m)]


def scanned_pointerish(m) -> bool:
    """Some record of a type whose RDATA mitmproxy scans for compression pointers holds an octet >= 0xC0."""
    return any(r.type in G.MITM_COMPRESSIBLE and any(b >= 0xC0 for b in r.data) for r in all_rrs(m))


def record_pointerish(m, path: str) -> bool:
    """The record named by a diff path like 'answers[2].data' is of a scanned type and holds an octet >= 0xC0."""
    sec, _, rest = path.partition("[")
    rec = getattr(m, sec)[int(rest.split("]")[0])]
    return rec.type in G.MITM_COMPRESSIBLE and any(b >= 0xC0 for b in rec.data)


def label_is_canonical(part: str) -> bool:
    try:
        w = part.encode("idna")
        return w.decode("idna") == part
    except UnicodeError:
        return False


def max_pointer_depth(buf: bytes) -> int:
    """Largest number of distinct compression-pointer hops a decoder makes starting at any pointer of buf before the
    name terminates or an already visited pointer is reached again (so a loop of length L counts L, not infinity)."""
    n = len(buf)

    def next_ptr(o):
        """offset of the pointer that terminates the label run starting at o, or None"""
        hops = 0
        while o < n and hops < 300:
            b = buf[o]
            if b & 0xC0 == 0xC0:
                return o if o + 1 < n else None
            if b == 0 or b & 0xC0:
                return None
            o += 1 + b
            hops += 1
        return None

    succ: dict[int, int | None] = {}
    for o in range(n - 1):
        if buf[o] & 0xC0 == 0xC0:
            succ[o] = next_ptr(((buf[o] & 0x3F) << 8) | buf[o + 1])
    depth: dict[int, int] = {}
    for start in succ:
        if start in depth:
            continue
        path, index = [], {}
        o = start
        while o is not None and o not in depth and o not in index:
            index[o] = len(path)
            path.append(o)
            o = succ.get(o)
        if o is not None and o in index:  # closed a cycle inside this path
            cyc = len(path) - index[o]
            for p in path[index[o]:]:
                depth[p] = cyc
            tail, base = path[: index[o]], cyc
        else:
            tail, base = path, (depth[o] if o is not None else 0)
        for p in reversed(tail):
            base += 1
            depth[p] = base
    return max(depth.values(), default=0)


def wire_labels_lenient(buf: bytes):
    """All labels of all names of buf per the lenient reference decoder, or None if it cannot parse buf."""
    try:
        d = R.decode(buf, lenient=True)
    except R.DecodeError:
        return None
    labs = []
    for q in d["questions"]:
        labs += q["name"]
    for sec in ("answers", "authorities", "additionals"):
        for rr in d[sec]:
            labs += rr["name"]
            for nm in rr["names"]:
                labs += nm
    return labs


def label_decode_problem(lab: bytes):
    """How the stdlib idna codec treats a wire label: 'ok' | 'decode-error' (UnicodeDecodeError) | 'unicode-error'."""
    try:
        lab.decode("idna")
        return "ok"
    except UnicodeDecodeError:
        return "decode-error"
    except UnicodeError:
        return "unicode-error"


def any_label_anywhere(buf: bytes, pred) -> bool:
    """Does any offset of buf start a length-prefixed label (1..63 octets, inside buf) satisfying pred?"""
    n = len(buf)
    for o in range(n):
        ln = buf[o]
        if 1 <= ln <= 63 and o + 1 + ln <= n and pred(bytes(buf[o + 1 : o + 1 + ln])):
            return True
    return False


def walk_name(buf: bytes, off: int):
    """Lenient, loop-safe read of the name at off -> (labels, ends_at_root_through_pointer_after_labels) or None."""
    labels, seen, via_ptr = [], set(), False
    n = len(buf)
    while True:
        if off >= n:
            return None
        b = buf[off]
        if b & 0xC0 == 0xC0:
            if off + 1 >= n or off in seen:
                return None
            seen.add(off)
            off = ((b & 0x3F) << 8) | buf[off + 1]
            via_ptr = True
            continue
        if b & 0xC0:
            return None
        if b == 0:
            return labels, (via_ptr and bool(labels))
        if off + 1 + b > n:
            return None
        labels.append(bytes(buf[off + 1 : off + 1 + b]))
        via_ptr = False
        off += 1 + b


def dot_edged(lab: bytes) -> bool:
    return lab.startswith(b".") or lab.endswith(b".") or b".." in lab


def name_defects(buf: bytes, offsets) -> set:
    """Which input features make a decoded name unpackable: {'dot-edged-label', 'pointer-to-root-after-labels'}."""
    out = set()
    for o in offsets:
        w = walk_name(buf, o)
        if w is None:
            continue
        labels, root_via_ptr = w
        if any(dot_edged(x) for x in labels):
            out.add("dot-edged-label")
        if root_via_ptr:
            out.add("pointer-to-root-after-labels")
    return out


def name_offsets(buf: bytes):
    """Offsets of all owner/question names (lenient reference walk of the sections), best effort."""
    offs = []
    try:
        qd, an, ns, ar = struct.unpack_from("!HHHH", buf, 4)
        pos = 12
        for i in range(qd + an + ns + ar):
            offs.append(pos)
            _, pos = R.read_name(buf, pos, lenient=True)
            if i < qd:
                pos += 4
            else:
                (rdlen,) = struct.unpack_from("!H", buf, pos + 8)
                pos += 10 + rdlen
    except (R.DecodeError, struct.error):
        pass
    return offs


def classify_b(buf: bytes, exc: BaseException):
    """Mechanism for an unexpected exception type escaping unpack: predicates on the input bytes."""
    if isinstance(exc, RecursionError):
        return "pointer-chain-deeper-than-recursion-limit" if max_pointer_depth(buf) >= 400 else None
    if isinstance(exc, UnicodeError):
        # a label that the IDNA codec rejects with a UnicodeError that is not a UnicodeDecodeError
        if any_label_anywhere(buf, lambda lab: label_decode_problem(lab) == "unicode-error"):
            return "idna-invalid-label"
        return None
    if isinstance(exc, ValueError):
        # a name reached through a pointer-looking octet in scanned RDATA decodes to text that cannot be packed again
        defects = name_defects(buf, [o for o in range(len(buf) - 1) if buf[o] & 0xC0 == 0xC0])
        if "dot-edged-label" in defects:
            return "rdata-pointer-to-name-with-dot-edged-label"
        if "pointer-to-root-after-labels" in defects:
            return "pointer-to-root-after-labels"
        return None
    return None


def classify_c(buf: bytes, m: DNSMessage, what: str):
    """Mechanism for clause (c) failures: predicates on the input bytes and the decoded message (the observed history)."""
    names = all_names(m)
    if what == "repack-raises":
        if any(n and any(p == "" for p in n.split(".")) for n in names):
            defects = name_defects(buf, name_offsets(buf))
            if "dot-edged-label" in defects:
                return "decoded-label-contains-dot-making-empty-label"
            if "pointer-to-root-after-labels" in defects:
                return "pointer-to-root-after-labels"
        return None
    # re-decoded message differs
    if any(not label_is_canonical(p) for n in names if n for p in n.split(".") if p):
        return "decoded-label-not-idna-canonical"
    if scanned_pointerish(m):
        return "pointer-like-octets-in-scanned-rdata"
    return None


# ---- clause (a) --------------------------------------------------------------------------------------------------------------

def clause_a(ctx, r):
    if r.random() < 0.08:
        fields, feats = G.gen_overrun_message(r)
        ctx.count("a.rdata_name_overrun_followed_by_records")
    else:
        fields, feats = G.gen_wellformed(r)
    m = build(fields)
    outcome = "ok"
    nrec = len(fields["questions"]) + sum(len(s) for s in fields["sections"])
    wit = lambda **kw: {"message": repr(m)[:1500], **kw}  # noqa: E731
    ctx.count("a.packed_ok")
    try:
        packed = m.packed
    except Exception as e:
        ctx.violation("a:packed-raises", wit(exc=repr(e)))
        return ("a", tuple(sorted(feats)), "packed-raises"), nrec > 0, None
    ctx.count("a.roundtrip_equal")
    try:
        back = DNSMessage.unpack(packed)
    except Exception as e:
        outcome = "unpack-raises"
        mech = "pointer-like-octets-in-scanned-rdata" if scanned_pointerish(m) and isinstance(e, (struct.error, ValueError)) else None
        ctx.violation(f"a:unpack-of-packed-raises:{type(e).__name__}", wit(packed=packed[:600], exc=repr(e)), mechanism=mech)
        back = None
    if back is not None:
        d = diff(m, back)
        if d is not None:
            outcome = "roundtrip-differs"
            mech = "pointer-like-octets-in-scanned-rdata" if d[0].endswith(".data") and record_pointerish(m, d[0]) else None
            ctx.violation("a:roundtrip-differs", wit(packed=packed[:600], field=d[0], before=d[1], after=d[2]), mechanism=mech)
    # independent reading of the produced bytes
    ctx.count("a.ref_decode_agrees")
    try:
        ref = R.decode(packed, allow_trailing=False)
    except R.DecodeError as e:
        ctx.violation("a:reference-rejects-packed", wit(packed=packed[:600], exc=repr(e)))
        return ("a", tuple(sorted(feats)), "ref-rejects"), nrec > 0, None
    h = fields["hdr"]
    exp_hdr = (h["id"], not h["query"], h["op_code"], h["authoritative_answer"], h["truncation"], h["recursion_desired"],
               h["recursion_available"], h["reserved"], h["response_code"])
    got_hdr = (ref["id"], ref["qr"], ref["opcode"], ref["aa"], ref["tc"], ref["rd"], ref["ra"], ref["z"], ref["rcode"])
    bad = None
    if exp_hdr != got_hdr:
        bad = ("header", exp_hdr, got_hdr)
    elif ref["counts"] != (len(fields["questions"]), *(len(s) for s in fields["sections"])):
        bad = ("counts", None, ref["counts"])
    else:
        for q, rq in zip(fields["questions"], ref["questions"]):
            if (q["type"], q["class"]) != (rq["type"], rq["class"]) or (q["wire"] is not None and q["wire"] != rq["name"]):
                bad = ("question", q, rq)
        for s, rs in zip(fields["sections"], (ref["answers"], ref["authorities"], ref["additionals"])):
            for x, rx in zip(s, rs):
                if (x["type"], x["class"], x["ttl"], x["data"]) != (rx["type"], rx["class"], rx["ttl"], rx["rdata"]) or (
                    x["wire"] is not None and x["wire"] != rx["name"]
                ):
                    bad = ("record", {k: x[k] for k in ("name", "type", "class", "ttl")}, {k: rx[k] for k in ("name", "type", "class", "ttl")})
    if bad:
        outcome = "ref-disagrees"
        ctx.violation("a:reference-reads-different-fields", wit(packed=packed[:600], what=bad[0], expected=bad[1], got=bad[2]))
    sample = {"clause": "a", "message": repr(m)[:600], "packed": packed[:200]}
    return ("a", tuple(sorted(feats)), outcome), nrec > 0, sample


# ---- clauses (b) and (c) -----------------------------------------------------------------------------------------------------

def clause_bc(ctx, r, wd: Watchdog):
    k = r.random()
    if k < 0.3:
        msg = G.gen_message(r, hostile_labels=r.random() < 0.5)
        try:
            buf = R.encode(msg, compress=r.random() < 0.6, compress_all_rdata_names=r.random() < 0.3)
        except ValueError:
            buf = R.encode(G.gen_message(r, hostile_labels=False), compress=True)
        feats = {"ref-encoded"}
    elif k < 0.55:
        msg = G.gen_message(r, hostile_labels=r.random() < 0.3)
        try:
            base = R.encode(msg, compress=r.random() < 0.6)
        except ValueError:
            base = R.encode(G.gen_message(r, hostile_labels=False), compress=True)
        buf, feats = G.mutate(r, base)
        feats.add("mutated")
    else:
        buf, feats = G.crafted(r)
        if r.random() < 0.15:
            buf, f2 = G.mutate(r, buf)
            feats |= f2
    ctx.count("b.total")
    wd.steps = 0
    try:
        m = DNSMessage.unpack(buf)
        outcome = "decoded"
    except struct.error:
        ctx.count("b.parse_error")
        return ("b", tuple(sorted(feats)), "parse-error"), len(buf) >= 12, {"clause": "b", "bytes": buf[:300], "outcome": "struct.error"}
    except StepBudgetExceeded:
        ctx.count("inconclusive_cases")
        ctx.count("b.step_budget_exceeded")
        ctx.seen("step_budget_inputs", buf[:64].hex())
        return ("b", tuple(sorted(feats)), "budget"), False, None
    except Exception as e:
        from vf.core import exc_site
        site = exc_site(e)
        ctx.seen("exception_sites", f"{type(e).__name__}@{site}")
        ctx.violation(f"b:unpack-raises:{type(e).__name__}@{site}", {"bytes": buf[:3000], "len": len(buf), "exc": repr(e)[:300]},
                      mechanism=classify_b(buf, e))
        return ("b", tuple(sorted(feats)), f"{type(e).__name__}@{site}"), len(buf) >= 12, None
    finally:
        ctx.extra["max_decoder_steps"] = max(ctx.extra.get("max_decoder_steps", 0), wd.steps)
    ctx.count("b.decoded")
    # (c)
    ctx.count("c.repack_ok")
    try:
        packed = m.packed
    except Exception as e:
        ctx.violation(f"c:repack-raises:{type(e).__name__}", {"bytes": buf[:3000], "decoded": repr(m)[:1200], "exc": repr(e)[:300]},
                      mechanism=classify_c(buf, m, "repack-raises"))
        return ("c", tuple(sorted(feats)), "repack-raises"), True, None
    ctx.count("c.reunpack_equal")
    wd.steps = 0
    try:
        m2 = DNSMessage.unpack(packed)
    except StepBudgetExceeded:
        ctx.count("inconclusive_cases")
        return ("c", tuple(sorted(feats)), "budget"), False, None
    except Exception as e:
        ctx.violation(f"c:reunpack-raises:{type(e).__name__}", {"bytes": buf[:3000], "repacked": packed[:3000], "exc": repr(e)[:300]},
                      mechanism=classify_c(buf, m, "reunpack"))
        return ("c", tuple(sorted(feats)), "reunpack-raises"), True, None
    d = diff(m, m2)
    if d is not None:
        ctx.violation("c:reunpack-differs", {"bytes": buf[:3000], "field": d[0], "first": d[1], "second": d[2]}, mechanism=classify_c(buf, m, "reunpack"))
        return ("c", tuple(sorted(feats)), "reunpack-differs"), True, None
    return ("bc", tuple(sorted(feats)), outcome), len(buf) >= 12, {"clause": "b+c", "bytes": buf[:300], "decoded": repr(m)[:400]}


def run(ctx):
    wd = Watchdog()
    ctx.extra["watched_code_objects"] = wd.ncodes
    try:
        for i in ctx.cases():
            r = ctx.rng
            if r.random() < 0.35:
                sig, nontrivial, sample = clause_a(ctx, r)
            else:
                sig, nontrivial, sample = clause_bc(ctx, r, wd)
            ctx.case(sig, nontrivial=nontrivial, sample=sample if i % 7 == 0 else None)
    finally:
        wd.close()
