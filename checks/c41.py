"""C41 -- HAR export followed by HAR import preserves the exchange.

Differential / round-trip monitor at the boundary the property names:
``SaveHar().make_har(flows)`` -> ``json.dumps`` (as export_har does) -> ``mitmproxy.io.FlowReader`` on the bytes; half of the
cases go through the real file writer instead (``SaveHar.export_har(flows, path)``, the code behind save.har / hardump) and the
file's bytes are imported.

Each case exports 1-4 generated HTTP flows in one HAR file.  The oracle is the generator's own record of
what it put into each flow (method, URL parts, version, header field list, plain body bytes before any
content coding -- codings are applied with gzip/zlib/brotli directly, not through mitmproxy), compared with
what the imported flows expose through the public attributes:

  count/order, method, URL, request and response HTTP version, request header fields except Content-Length,
  decoded request body (POST/PUT/PATCH only), status code, response header fields, decoded response body.

Header comparison follows DESIGN section 3 (lower-cased name, OWS-trimmed value, order kept).
``classify`` maps a difference to a mechanism from the generated input's features plus the field that
differs; anything not explained by a listed mechanism is reported with mechanism None.
"""
import gzip
import io as _io
import json
import os
import shutil
import zlib

import brotli
from mitmproxy import http
from mitmproxy.addons.savehar import SaveHar
from mitmproxy.io import FlowReader
from mitmproxy.test import tflow

PROPERTY = "C41"
LEVEL = "exploration"
BUDGET = {"quick": (1500, 14), "thorough": (40_000, 200)}
WORKERS = {"quick": 2, "thorough": 16}
REQUIRED = ["form_matrix.canonical", "form_matrix.pct20-space", "form_matrix.bare-key", "export_via_file", "export_via_memory", "order_and_count", "method", "url", "http_version", "request_headers", "request_body", "status", "response_headers", "response_body"]
ENGINE = "direct"
TECHNIQUE = "round-trip differential against the generator's own record of each exchange"
RULE = (
    "first, in every tier, a fixed matrix: 19 urlencoded request-body classes (canonical, %20 vs +, unescaped URL value, bare key, lowercase hex, "
    "&&, trailing/leading &, ; separators, escaped +, empty key/value, duplicate keys, non-UTF-8 escapes, escaped unreserved, raw UTF-8, = in value, "
    "literal space, very long) x POST/PUT/PATCH x 4 form content-type spellings x 2 export routes; then random cases: "
    "case = 1-4 HTTP flows exported together (half through make_har+json.dumps, half through the real export_har file writer), their request start times ascending, descending, shuffled, all equal or with ties "
    "relative to the exported order; each flow = method (8 incl. an extension method) x scheme/host/port/path pools "
    "(queries, percent-encoding, non-default ports, rare punycode host and IPv6 literal) x Host/:authority form (consistent, absent, host, host:target port, host:other port, other host, other host:port; for h1 and h2/h3) x version (1.0, 1.1, 2.0, 3) x header "
    "multisets (duplicates, mixed case, empty and non-ASCII UTF-8 values, non-UTF-8 bytes in ~8%) x rare raw non-ASCII path bytes x request body (none/text/text not decodable in its charset/form/binary) x "
    "response status x body kind (empty, text in utf-8/latin-1/shift_jis/utf-16/undeclared, json, html, binary) x content coding "
    "(identity, gzip, deflate, br) on either side; distinct = (one / several flows, start-time order mode, coarse feature tuple of the first flow [method "
    "class, version, request body kind and coding, response body kind, charset, coding, has Content-Length, rare-feature flags]); "
    "non-trivial = some flow has a response and at least one of: body, duplicate header, non-ASCII header, content coding, non-1.1 "
    "version, query"
)
ASSUMPTIONS = [
    "about 70% of the generated requests have a Host header / :authority that agrees with the connection target; the rest use the forms {absent, host, host:target port, host:other port, other host, other host:port} (reverse proxy, DNAT, foreign authority). 'The URL' of an exchange is the URL the request names: scheme + Host/:authority (port = the authority's port, else the scheme's default) + path, and scheme + target host:port + path when there is no authority; the connection target itself is not part of a HAR file",
    "CONNECT and asterisk-form requests are outside the domain (they have no URL to preserve)",
    "flows without a response are generated rarely and only checked for request preservation, order and totality",
    "'decoded body' means the bytes after removing the content coding (Message.content)",
    "text bodies are valid in their declared charset except the explicit 'text_invalid' kind (Latin-1 / cp1252 bytes declared as utf-8); binary bodies are declared with a non-text media type and no charset",
]
LEVEL_TEXT = (
    "Generated flows covering the listed dimensions are pushed through the real exporter and the real importer and compared field by "
    "field with what the generator built. The input space is sampled by feature combination (thousands of distinct feature tuples), "
    "not enumerated, hence exploration."
)
LEVEL_NOTE = "Trusted: json, gzip, zlib and brotli libraries used to build inputs; the comparison reads the imported flows through public attributes."

METHODS = ["GET", "POST", "PUT", "PATCH", "DELETE", "HEAD", "OPTIONS", "PROPFIND"]
BODY_METHODS = ("POST", "PUT", "PATCH")
VERSIONS = ["HTTP/1.1", "HTTP/1.1", "HTTP/2.0", "HTTP/2.0", "HTTP/3", "HTTP/1.0"]
HOSTS = ["example.com", "sub.example.org", "127.0.0.1", "example.net"]
PUNYCODE_HOST = "xn--bcher-kva.example"
PATHS = ["/", "/a/b", "/p?q=1&r=2", "/p?x=%20%C3%A9", "/sp%20ace", "/a;b=c", "/p?a=b=c&&d", "/p?empty=", "/%E2%9C%93/x?y=%2F"]
REQ_HDRS = [
    (b"accept", b"*/*"),
    (b"User-Agent", b"vf/1.0"),
    (b"x-dup", b"1"),
    (b"x-dup", b"2"),
    (b"X-Dup", b"3"),
    (b"cookie", b"a=b; c=d"),
    (b"x-empty", b""),
    (b"x-utf8", "café ✓".encode()),
    (b"accept-language", b"de, en;q=0.8"),
]
RESP_HDRS = [
    (b"server", b"vf"),
    (b"set-cookie", b"a=b; Path=/"),
    (b"set-cookie", b"c=d; HttpOnly"),
    (b"Cache-Control", b"no-cache"),
    (b"x-empty", b""),
    (b"x-utf8", "naïve".encode()),
    (b"vary", b"accept"),
    (b"Vary", b"cookie"),
]
LATIN1_HDRS = [(b"x-latin1", b"caf\xe9"), (b"content-disposition", b'attachment; filename="r\xe9sum\xe9.txt"'), (b"x-raw", b"\xff\xfe ok \x80")]
RAW_PATHS = [b"/caf\xe9?x=\xff", b"/caf\xc3\xa9/x", b"/dl/r\xe9sum\xe9.txt"]
INVALID_UTF8_TEXTS = [b"caf\xe9 r\xe9sum\xe9 - a plain text body that is Latin-1 but declared as UTF-8", b"price: 10 \x80 (cp1252 euro sign), declared utf-8, long enough to count as text"]
TEXTS = ["hello world", "café naïve ü", "line1\r\nline2\n", "{\"k\": \"vé\"}", "a" * 300, "テスト text", "tab\there \"quoted\" \\ backslash"]
PNG = b"\x89PNG\r\n\x1a\n\x00\x00\x00\rIHDR\x00\x00\x00\x01\x00\x00\x00\x01\x08\x06\x00\x00\x00\x1f\x15\xc4\x89"


# urlencoded request bodies by class: the body is opaque bytes to the round trip, canonical or not
FORM_BODIES = {
    "canonical": b"a=1&b=%C3%A9&c=x+y",
    "pct20-space": b"q=hello%20world&lang=en",
    "raw-url-value": b"redirect=https://example.com/cb?x=1&state=abc",
    "bare-key": b"flag&a=1",
    "lowercase-hex": b"name=caf%c3%a9&sep=%2f",
    "double-ampersand": b"a=1&&b=2",
    "trailing-ampersand": b"a=1&b=2&",
    "leading-ampersand": b"&a=1",
    "semicolon-separators": b"a=1;b=2;c=3",
    "literal-plus-escaped": b"sum=1%2B1&expr=a+%2B+b",
    "empty-key": b"=value&a=1",
    "empty-value": b"a=&b=",
    "duplicate-keys": b"id=1&id=2&id=1",
    "non-utf8-escape": b"name=caf%E9&raw=%FF%FE",
    "unreserved-escaped": b"a=%41%42%7E&b=%2D%5F",
    "raw-utf8-bytes": "city=Z\u00fcrich&x=1".encode("utf-8"),
    "equals-in-value": b"token=abc==&next=a=b",
    "space-literal": b"q=hello world",
    "very-long": b"k=" + b"v" * 20000 + b"&x=%20&flag",
}
FORM_CLASSES = list(FORM_BODIES)
FORM_CTS = [
    "application/x-www-form-urlencoded",
    "application/x-www-form-urlencoded; charset=UTF-8",
    "application/x-www-form-urlencoded;charset=utf-8",
    "Application/X-WWW-Form-URLEncoded",
]


def code(body: bytes, coding: str) -> bytes:
    if coding == "gzip":
        return gzip.compress(body, mtime=0)
    if coding == "deflate":
        return zlib.compress(body)
    if coding == "br":
        return brotli.compress(body)
    return body


def gen_body(r, side):
    """Return (plain_bytes, content_type or None, features dict)."""
    kind = r.choice(["empty", "text", "text", "text", "json", "html", "binary", "form" if side == "req" else "text", "text_invalid"])
    if kind == "text_invalid":
        # a text body that does not decode in its declared charset (exported via the surrogateescape fallback of get_text)
        return r.choice(INVALID_UTF8_TEXTS), "text/plain; charset=utf-8", {"body": "text_invalid", "charset": "utf-8"}
    if kind == "empty":
        return b"", r.choice([None, "text/plain"]), {"body": "empty", "charset": None}
    if kind == "binary":
        b = r.choice([PNG, bytes(r.getrandbits(8) for _ in range(r.choice([1, 16, 200]))), b"\x00\x01\x02\x03"])
        return b, r.choice(["image/png", "application/octet-stream"]), {"body": "binary", "charset": None}
    if kind == "form":
        cls = r.choice(FORM_CLASSES)
        ct = r.choice(FORM_CTS)
        return FORM_BODIES[cls], ct, {"body": "form", "charset": "utf-8" if "charset" in ct else None, "form_class": cls}
    if kind == "json":
        t = json.dumps({"k": r.choice(TEXTS), "n": r.randrange(100)})
        return t.encode("utf-8"), "application/json", {"body": "json", "charset": None}
    if kind == "html":
        t = "<html><body>" + r.choice(TEXTS) + "</body></html>"
        cs = r.choice([None, "utf-8"])
        return t.encode("utf-8"), "text/html" + (f"; charset={cs}" if cs else ""), {"body": "html", "charset": cs}
    t = r.choice(TEXTS)
    cs = r.choice(["utf-8", "utf-8", "latin-1", "shift_jis", "utf-16", None])
    if cs is None:
        # undeclared charset: keep to ASCII so that every guess decodes it identically
        t = t.encode("ascii", "ignore").decode()
        return t.encode("ascii"), r.choice(["text/plain", None]), {"body": "text", "charset": None}
    try:
        b = t.encode(cs)
    except UnicodeEncodeError:
        t = t.encode("ascii", "ignore").decode()
        b = t.encode(cs)
    return b, f"text/plain; charset={cs}", {"body": "text", "charset": cs}


def gen_flow(r, idx, t0=None, method=None, req_body=None):
    """method / req_body = (plain bytes, content type, feature dict) pin those two dimensions (fixed matrices)."""
    t0 = 946681200.0 + idx if t0 is None else t0
    method = method or r.choice(METHODS)
    scheme = r.choice(["http", "https"])
    ipv6 = r.random() < 0.03
    host = "::1" if ipv6 else (PUNYCODE_HOST if r.random() < 0.05 else r.choice(HOSTS))
    default_port = 80 if scheme == "http" else 443
    port = r.choice([default_port, default_port, default_port, 8080, 8443])
    path = r.choice(PATHS)
    raw_path = r.random() < 0.03
    path_b = r.choice(RAW_PATHS) if raw_path else path.encode()
    path = path_b.decode("utf-8", "surrogateescape")  # how mitmproxy represents such a path as text
    version = r.choice(VERSIONS)
    h2 = version in ("HTTP/2.0", "HTTP/3")
    hostlit = f"[{host}]" if ipv6 else host
    # ---- form of the Host header / :authority relative to the connection target (request.host, request.port)
    # "consistent": names the target, port shown iff non-default.  The other forms occur behind reverse proxies / DNAT or
    # with clients that name another authority: the authority is then what the request *names*, the target is where it went.
    if ipv6 or host.startswith("xn--") or r.random() < 0.7:
        host_form = "consistent" if r.random() >= 0.05 or port != default_port else "host:reqport"
    else:
        host_form = r.choice(["absent", "host", "host:reqport", "host:otherport", "otherhost", "otherhost:port"])
    other_port = r.choice([p_ for p_ in (80, 443, 8080, 8443, 9000) if p_ != port])
    if host_form == "consistent":
        auth_host, auth_port = hostlit, (None if port == default_port else port)
    elif host_form == "absent":
        auth_host, auth_port = None, None
    elif host_form == "host":
        auth_host, auth_port = hostlit, None
    elif host_form == "host:reqport":
        auth_host, auth_port = hostlit, port
    elif host_form == "host:otherport":
        auth_host, auth_port = hostlit, other_port
    elif host_form == "otherhost":
        auth_host, auth_port = "other.example", None
    else:
        auth_host, auth_port = "other.example", r.choice([port, other_port])
    hostport = None if auth_host is None else (auth_host if auth_port is None else f"{auth_host}:{auth_port}")
    explicit_default = auth_port is not None and auth_port == default_port
    # the URL the request names: authority if there is one (its port, else the scheme's default), else the target
    named_host = auth_host if auth_host is not None else hostlit
    named_port = port if auth_host is None else (auth_port if auth_port is not None else default_port)
    named_url = f"{scheme}://{named_host}{'' if named_port == default_port else ':' + str(named_port)}{path}"
    port_mismatch = auth_host is not None and named_port != port

    feats = {"host_form": host_form, "authority_port_differs_from_target": port_mismatch, "method": method if method in BODY_METHODS or method in ("GET", "HEAD") else "other", "version": version, "ipv6": ipv6, "port": port != default_port, "explicit_default_port": explicit_default, "query": "?" in path, "punycode": host.startswith("xn--"), "raw_path": raw_path}

    # ---- request
    rh = []
    if hostport is not None and (not h2 or r.random() < 0.3):
        rh.append((b"Host" if r.random() < 0.5 else b"host", hostport.encode()))
    rh += r.sample(REQ_HDRS, r.randint(0, 5))
    latin1_req = r.random() < 0.08
    if latin1_req:
        rh.append(r.choice(LATIN1_HDRS))
    rh.append((b"x-idx", str(idx).encode()))
    has_req_body = method in BODY_METHODS or r.random() < 0.05
    req_plain, req_ct, rbf = req_body or (gen_body(r, "req") if has_req_body else (b"", None, {"body": "none", "charset": None}))
    req_coding = r.choice(["identity"] * 6 + ["gzip", "br"]) if (req_plain and req_body is None) else "identity"
    if req_ct:
        rh.append((b"content-type", req_ct.encode()))
    if req_coding != "identity":
        rh.append((b"content-encoding", req_coding.encode()))
    req_raw = code(req_plain, req_coding)
    if has_req_body or r.random() < 0.3:
        rh.append((b"content-length", str(len(req_raw)).encode()))
    r.shuffle(rh)
    req = http.Request(
        host,
        port,
        method.encode(),
        scheme.encode(),
        hostport.encode() if (h2 and hostport is not None) else b"",
        path_b,
        version.encode(),
        http.Headers(rh),
        req_raw,
        None,
        t0,
        t0 + 1.0,
    )
    feats.update(req_form_class=rbf.get("form_class"), req_body=rbf["body"], req_charset=rbf["charset"], req_coding=req_coding, req_dup=len({k.lower() for k, _ in rh}) < len(rh), req_latin1=latin1_req, req_nonascii=any(max(v, default=0) > 127 for _, v in rh))

    f = tflow.tflow(req=req)
    f.request = req
    exp = {
        "method": method,
        "url": named_url,
        "version": version,
        "req_headers": rh,
        "req_plain": req_plain,
        "has_response": True,
    }

    # ---- response
    if r.random() < 0.04:
        f.response = None
        exp["has_response"] = False
        feats.update(resp="none")
        return f, exp, feats
    status = r.choice([200, 200, 200, 201, 204, 301, 304, 404, 500, 599])
    sh = r.sample(RESP_HDRS, r.randint(0, 5))
    latin1_resp = r.random() < 0.08
    if latin1_resp:
        sh.append(r.choice(LATIN1_HDRS))
    if status in (204, 304) or method == "HEAD":
        plain, ct, sbf = b"", None, {"body": "empty", "charset": None}
    else:
        plain, ct, sbf = gen_body(r, "resp")
    coding = r.choice(["identity"] * 4 + ["gzip", "gzip", "deflate", "br"]) if plain else "identity"
    if ct:
        sh.append((b"Content-Type" if r.random() < 0.5 else b"content-type", ct.encode()))
    if status == 301:
        sh.append((b"location", b"/elsewhere?x=1"))
    if coding != "identity":
        sh.append((b"content-encoding", coding.encode()))
    raw = code(plain, coding)
    has_cl = r.random() < 0.7 and not (h2 and r.random() < 0.5)
    if has_cl:
        sh.append((b"content-length", str(len(raw)).encode()))
    r.shuffle(sh)
    f.response = http.Response(
        version.encode(),
        status,
        r.choice([b"OK", b"", b"Whatever"]),
        http.Headers(sh),
        raw,
        None,
        t0 + 2.0,
        t0 + 3.0,
    )
    exp.update(status=status, resp_headers=sh, resp_plain=plain)
    feats.update(
        resp="yes",
        status=status,
        resp_body=sbf["body"],
        resp_charset=sbf["charset"],
        resp_coding=coding,
        resp_has_cl=has_cl,
        resp_dup=len({k.lower() for k, _ in sh}) < len(sh),
        resp_latin1=latin1_resp,
        resp_nonascii=any(max(v, default=0) > 127 for _, v in sh),
    )
    return f, exp, feats


# --------------------------------------------------------------------------------------------
# comparison helpers (DESIGN section 3: lower-cased name, OWS-trimmed value, order preserved)
# --------------------------------------------------------------------------------------------

def norm_headers(fields, drop=()):
    return [(k.lower(), v.strip(b" \t")) for k, v in fields if k.lower() not in drop]


def header_diff(a, b):
    """Names (lower-case) whose multiset of values / relative order differs between the two field lists."""
    names = {k for k, _ in a} | {k for k, _ in b}
    changed = sorted(n.decode("latin-1") for n in names if [v for k, v in a if k == n] != [v for k, v in b if k == n])
    if not changed and a != b:
        changed = ["<order>"]
    return changed


def explain_headers(side, changed, feats):
    """Split the set of differing header names into (mechanism, names) groups explained by a feature of the
    generated input; what is left over is unexplained (mechanism None)."""
    left = set(changed)
    out = []
    if side == "request":
        if feats["req_coding"] != "identity" and "content-encoding" in left:
            out.append(("content-encoding-header-dropped-on-import", {"content-encoding"}))
            left -= {"content-encoding"}
        if "host" in left and feats.get("punycode"):
            out.append(("punycode-host-decoded-to-unicode", {"host"}))
            left -= {"host"}
        if "host" in left and feats.get("explicit_default_port"):
            out.append(("host-header-with-explicit-default-port-normalised", {"host"}))
            left -= {"host"}
        if "host" in left and feats.get("ipv6"):
            out.append(("ipv6-literal-host", {"host"}))
            left -= {"host"}
    else:
        if feats.get("resp_coding") != "identity" and left & {"content-encoding", "content-length"}:
            out.append(("content-encoding-header-dropped-on-import", left & {"content-encoding", "content-length"}))
            left -= {"content-encoding", "content-length"}
        if "content-length" in left and not feats.get("resp_has_cl"):
            out.append(("response-content-length-added-on-import", {"content-length"}))
            left -= {"content-length"}
    if left:
        out.append((None, left))
    return out


def classify(kind, feats, info):
    """Mechanism = condition on the generated input (+ which compared field differs)."""
    if kind == "import-raises":
        # ordered by certainty: an IPv6 literal or (on h2/h3) a punycode host always makes the import fail
        if feats.get("ipv6"):
            return "ipv6-literal-host"
        if feats.get("punycode") and feats["version"] in ("HTTP/2.0", "HTTP/3"):
            return "punycode-host-decoded-to-unicode"
        if feats.get("raw_path"):
            return "raw-non-ascii-path-bytes-import-raises"
        if feats.get("req_latin1") or feats.get("resp_latin1"):
            return "header-value-not-utf8-import-raises"
        return None
    if kind == "http-version-differs":
        if feats["version"] == "HTTP/2.0":
            return "http-version-2.0-not-recognised-by-import"
        if feats["version"] == "HTTP/1.0":
            return "http-version-1.0-imported-as-1.1"
        return None
    if kind == "url-differs":
        if feats.get("punycode"):
            return "punycode-host-decoded-to-unicode"
        if feats.get("ipv6"):
            return "ipv6-literal-host"
        return None
    if kind == "request-body-differs":
        if feats.get("req_charset") == "utf-16":
            return "utf-16-request-body-bom-doubled"
        return None
    return None


def process(ctx, sh, tmpdir, gen, route, order_mode, ts):
    """Export the generated flows through `route`, import the result and compare every listed field."""
    n = len(gen)
    ctx.seen("start_time_orders", order_mode if order_mode not in ("shuffled", "ties") else f"{order_mode}:{'sorted' if ts == sorted(ts) else 'unsorted'}")
    flows = [g[0] for g in gen]
    feats_all = [g[2] for g in gen]

    def W(k, extra):
        f, exp, feats = gen[k]
        return {
            "flow_index": k,
            "features": feats,
            "request": {"method": exp["method"], "url": exp["url"], "version": exp["version"], "headers": exp["req_headers"], "body": exp["req_plain"][:200]},
            "response": {"status": exp.get("status"), "headers": exp.get("resp_headers"), "body": (exp.get("resp_plain") or b"")[:200]},
            **extra,
        }

    # ---- export (any exception here is a defect of the exporter on a well-formed flow)
    try:
        data = export(sh, flows, route, tmpdir)
    except Exception as e:
        ctx.count("export_total")
        ctx.violation("export-raises", {"exc": repr(e), "route": route, "features": feats_all}, None)
        ctx.case(("export-raises",), nontrivial=False)
        return
    ctx.count("export_total")
    ctx.count("export_via_" + route)
    # ---- import
    try:
        back = list(FlowReader(_io.BytesIO(data)).stream())
    except Exception as e:
        # find the culprit flow(s) by importing one at a time
        culprits = 0
        for k in range(n):
            try:
                list(FlowReader(_io.BytesIO(export(sh, [flows[k]], route, tmpdir))).stream())
            except Exception as e2:
                culprits += 1
                ctx.violation("import-raises", W(k, {"route": route, "exc": repr(e2), "cause": repr(e2.__context__)}), classify("import-raises", feats_all[k], {}))
        if not culprits:
            ctx.violation("import-raises", {"route": route, "exc": repr(e), "note": "every flow imports alone, the combined file does not", "features": feats_all}, None)
        ctx.count("import_total")
        ctx.case(case_sig(feats_all, order_mode, route), nontrivial=any(nontrivial(fe) for fe in feats_all))
        return
    ctx.count("import_total")

    ctx.count("order_and_count")
    if len(back) != n:
        ctx.violation("count-differs", {"exported": n, "imported": len(back), "features": feats_all}, None)
    else:
        idxs = [g.request.headers.get("x-idx") for g in back]
        if idxs != [str(k) for k in range(n)]:
            ctx.violation("order-differs", {"imported_x_idx": idxs, "start_times_in_exported_order": ts, "start_time_order": order_mode, "features": feats_all}, None)

    # field comparison pairs each exported flow with the imported flow carrying its x-idx marker when the imported
    # markers are a permutation of the exported ones (a pure reordering is reported once, as order-differs)
    marks = [g.request.headers.get("x-idx") for g in back]
    if sorted(m or "" for m in marks) == sorted(str(k) for k in range(n)):
        paired = [back[marks.index(str(k))] for k in range(n)]
    else:
        paired = back[:n]
    for k, g in enumerate(paired):
        f, exp, feats = gen[k]
        q = g.request
        ctx.count("method")
        if q.method != exp["method"]:
            ctx.violation("method-differs", W(k, {"got": q.method}), classify("method-differs", feats, {}))
        ctx.count("url")
        if q.url != exp["url"]:
            ctx.violation("url-differs", W(k, {"got": q.url}), classify("url-differs", feats, {}))
        ctx.count("http_version")
        got_v = (q.http_version, g.response.http_version if (g.response and exp["has_response"]) else None)
        want_v = (exp["version"], exp["version"] if exp["has_response"] else None)
        if got_v != want_v:
            ctx.violation("http-version-differs", W(k, {"got": got_v}), classify("http-version-differs", feats, {}))
        ctx.count("request_headers")
        a = norm_headers(exp["req_headers"], drop=(b"content-length",))
        b = norm_headers(q.headers.fields, drop=(b"content-length",))
        if a != b:
            for mech, names in explain_headers("request", header_diff(a, b), feats):
                ctx.violation("request-headers-differ", W(k, {"got": list(q.headers.fields), "changed": sorted(names)}), mech)
        if exp["method"] in BODY_METHODS:
            ctx.count("request_body")
            got = q.get_content(strict=False)
            if (got or b"") != exp["req_plain"]:
                ctx.violation("request-body-differs", W(k, {"got": got}), classify("request-body-differs", feats, {}))
        if not exp["has_response"]:
            continue
        s = g.response
        ctx.count("status")
        if s is None or s.status_code != exp["status"]:
            ctx.violation("status-differs", W(k, {"got": s and s.status_code}), classify("status-differs", feats, {}))
            if s is None:
                continue
        ctx.count("response_headers")
        a = norm_headers(exp["resp_headers"])
        b = norm_headers(s.headers.fields)
        if a != b:
            for mech, names in explain_headers("response", header_diff(a, b), feats):
                ctx.violation("response-headers-differ", W(k, {"got": list(s.headers.fields), "changed": sorted(names)}), mech)
        ctx.count("response_body")
        got = s.get_content(strict=False)
        if (got or b"") != exp["resp_plain"]:
            ctx.violation("response-body-differs", W(k, {"got": got}), classify("response-body-differs", feats, {}))

    ctx.count("flows_compared", n)
    ctx.case(
        case_sig(feats_all, order_mode, route),
        nontrivial=any(nontrivial(fe) for fe in feats_all),
        sample={"n_flows": n, "start_time_order": order_mode, "features": feats_all[0], "url": gen[0][1]["url"], "request_headers": gen[0][1]["req_headers"], "response_headers": gen[0][1].get("resp_headers")},
    )


def export(sh, flows, route, tmpdir):
    """HAR bytes of the flows: 'memory' = make_har + json.dumps as export_har does; 'file' = the real save.har / hardump writer
    (SaveHar.export_har to a path) read back from disk."""
    if route == "file":
        p = os.path.join(tmpdir, "export.har")
        sh.export_har(flows, p)
        with open(p, "rb") as fh:
            return fh.read()
    return json.dumps(sh.make_har(flows), indent=4).encode()


def run(ctx):
    tmpdir = f"/tmp/vf-c41-{os.getpid()}-w{ctx.worker}"
    os.makedirs(tmpdir, exist_ok=True)
    try:
        _run(ctx, tmpdir)
    finally:
        shutil.rmtree(tmpdir, ignore_errors=True)


def form_matrix(ctx, sh, tmpdir):
    """Fixed matrix, before the random cases in every tier: urlencoded body class x POST/PUT/PATCH x form content-type spelling x
    export route, one flow per file; split over the workers."""
    k = 0
    for cls in FORM_CLASSES:
        for method in BODY_METHODS:
            for ct in FORM_CTS:
                for route in ("memory", "file"):
                    if k % ctx.nworkers == ctx.worker:
                        r = ctx.case_rng(-5000 - k, "c41-form")
                        body = (FORM_BODIES[cls], ct, {"body": "form", "charset": "utf-8" if "charset" in ct else None, "form_class": cls})
                        gen = [gen_flow(r, 0, 946681200.0, method=method, req_body=body)]
                        ctx.count("form_matrix." + cls)
                        process(ctx, sh, tmpdir, gen, route, "single", [946681200.0])
                    k += 1


def _run(ctx, tmpdir):
    sh = SaveHar()
    form_matrix(ctx, sh, tmpdir)
    for i in ctx.cases():
        r = ctx.rng
        route = "file" if r.random() < 0.5 else "memory"
        n = r.choice([1, 1, 2, 3, 4])
        # request start times relative to the exported order: flows are exported in the order given (completion /
        # selection order), which need not be the order of their start times
        order_mode = r.choice(["ascending", "descending", "shuffled", "shuffled", "equal", "ties"]) if n > 1 else "single"
        if order_mode == "ascending":
            ts = [946681200.0 + 10 * k for k in range(n)]
        elif order_mode == "descending":
            ts = [946681200.0 - 10 * k for k in range(n)]
        elif order_mode == "equal":
            ts = [946681200.0] * n
        elif order_mode == "ties":
            ts = [946681200.0 + 10 * r.randrange(2) for _ in range(n)]
        else:
            ts = [946681200.0 + r.choice([0.001, 0.5, 1, 7, 3600]) * r.randrange(-5, 6) for _ in range(n)]
        gen = [gen_flow(r, k, ts[k]) for k in range(n)]
        process(ctx, sh, tmpdir, gen, route, order_mode, ts)


def sig_of(fe):
    """Coarse per-flow feature tuple."""
    flags = "".join(
        c
        for c, k in (("6", "ipv6"), ("x", "punycode"), ("r", "raw_path"), ("P", "port"), ("m", "authority_port_differs_from_target"), ("d", "explicit_default_port"), ("L", "req_latin1"), ("M", "resp_latin1"))
        if fe.get(k)
    )
    if fe.get("req_dup") or fe.get("resp_dup"):
        flags += "D"
    if fe.get("req_nonascii") or fe.get("resp_nonascii"):
        flags += "N"
    return (
        fe["method"],
        fe["version"],
        fe["host_form"],
        fe["req_body"] if fe["req_body"] != "form" else "form:" + str(fe.get("req_form_class")),
        fe["req_coding"],
        fe.get("resp"),
        fe.get("resp_body"),
        fe.get("resp_charset"),
        fe.get("resp_coding"),
        bool(fe.get("resp_has_cl")),
        flags,
    )


def case_sig(feats_all, order_mode="single", route="memory"):
    """Number of flows (1 / several), order of their start times, export route, and the coarse feature tuple of the first flow."""
    return (min(len(feats_all), 2), order_mode, route, sig_of(feats_all[0]))


def nontrivial(fe):
    if fe.get("resp") != "yes":
        return False
    return bool(
        fe.get("resp_body") not in ("empty", None)
        or fe.get("req_body") not in ("none", "empty")
        or fe.get("req_dup")
        or fe.get("resp_dup")
        or fe.get("req_nonascii")
        or fe.get("resp_nonascii")
        or fe.get("resp_coding") != "identity"
        or fe.get("version") != "HTTP/1.1"
        or fe.get("query")
    )
