"""C19 -- ignored hosts are passed through untouched and allow/ignore rules are honoured.

Engine A with the REAL NextLayer addon in the hook chain: the real top layers HttpProxy (after a CONNECT),
TransparentProxy, ReverseProxy and Socks5Proxy are fed generated first flights -- TLS ClientHello (vf/ref/tlshello.py)
with/without SNI, optionally followed in the same flight by a ChangeCipherSpec record and 0-2 application-data records
(TLS 1.3 0-RTT style; for these mostly SNI-decisive rules, the address matching no pattern), HTTP/1 requests with Host header spellings (no OWS, tabs, trailing OWS, any case, explicit port,
decoy fields, bare-LF lines), opaque bytes -- followed by random payload, while a scripted server peer sends random
payload the other way; ignore_hosts / allow_hosts are set through the option manager (NextLayer.configure sees them).
First flights are delivered whole, in 1-byte steps after the first 3 bytes, at single split points and randomly cut
(first segment >= 3 bytes: the documented minimum to recognise a TLS record); hook completions interleave randomly.
In regular mode the tunnelled flight is delivered after the 200, coalesced with the CONNECT head, or un-gated (arriving while the
http_connect hook / OpenConnection are pending); opaque and record payloads may start or end with CR / LF octets.

Oracle (vf/ref/c19_hostrules.py, independent): excluded := (allow_hosts and no candidate matches) or (ignore_hosts and
some candidate matches) over {server address, HTTP Host header as RFC 9112 reads it, SNI} each as "name:port".
Monitors:
  decision       excluded <=> the layer the next_layer hook produced for the first flight is TCPLayer(ignore) -- for
                 every segmentation of the same flight (so a segmentation-dependent decision is a disagreement)
  no_intercept   excluded connections fire no tls_* / tcp_* / HTTP hooks (other than the CONNECT's own)
  transparent    excluded connections: server receives exactly first flight + client payload, client receives exactly
                 the server payload (after the mode's own handshake reply), in order, including pre-decision bytes
  intercepted    not excluded: a TLS/HTTP/TCP flow hook fired
  tls_hook_passthrough   ClientHelloData.ignore_connection set by an addon at tls_clienthello (ClientTLSLayer pass-
                 through): byte-transparent in both directions, no tls_start_client
"""
import re

from mitmproxy.proxy.layers import modes
from mitmproxy.proxy.layers.tcp import TCPLayer

from vf import peers, sansio
from vf.ref import c19_hostrules as ref
from vf.ref import tlshello

PROPERTY = "C19"
LEVEL = "exploration"
ENGINE = "sansio"
BUDGET = {"quick": (260, 12), "thorough": (12000, 240)}
WORKERS = {"quick": 4, "thorough": 16}
REQUIRED = ["decision", "decision.excluded", "decision.not_excluded", "no_intercept", "transparent", "intercepted", "tls_hook_passthrough", "mode.regular", "mode.transparent", "mode.reverse", "mode.socks5"]
TECHNIQUE = "runtime monitoring: real NextLayer addon + mode layers on the sans-io driver, independent host-rule oracle, end-to-end byte comparison"
RULE = (
    "case = (mode, server address, first flight [TLS hello +-SNI (+ CCS and early-data records) | HTTP request with Host spelling | opaque], ignore/allow regex set derived from "
    "the names in play (exact, anchored, sub-domain, wrong port, near miss, catch-all), payloads, EOFs) executed under whole / 3+1-byte / split / "
    "random segmentations and random hook completion; signature = (mode, flight kind, Host spelling features, option kind, which candidates "
    "match, which are decisive, reference decision); non-trivial iff a regex is configured (every regex is derived from a name in play, so it "
    "matches or nearly matches a candidate) and >= 3 segmentations ran"
)
ASSUMPTIONS = [
    "first segment of the first flight has >= 3 bytes (documented minimum for TLS recognition)",
    "the server speaks only after the complete first flight for TLS/HTTP flights (a server-first protocol is neither); for opaque flights it may speak first",
    "a Host header with an explicit port is matched as given; cases whose verdict would differ with the connection's port instead are counted as ambiguous and not judged",
    "early data directly behind a CONNECT head: one leading empty line (CRLF) may be skipped by the proxy; anything else must arrive byte-exact",
    "one Host field, origin-form target; regexes are searched case-insensitively in 'name:port' as documented",
    "the server's FIN is delivered after everything the client sent was processed (FINs crossing while a hook is pending are not part of this workload); "
    "inside a CONNECT tunnel the client's FIN comes after the server's payload (HttpStream.passthrough documents that half-closes become full closes there)",
]
LEVEL_TEXT = (
    "Exploration: generated destinations, rule sets, first flights and segmentations are run through the real NextLayer addon and the real mode/TCP/TLS "
    "layers; an independent rule oracle decides whether the connection must be excluded and a wire-level comparison decides byte transparency."
)
LEVEL_NOTE = "Trusted: vf/ref/c19_hostrules.py (own HTTP head reader + stdlib re), vf/ref/tlshello.py, vf/sansio.py's model of ConnectionHandler."

NAMES = ["example.com", "www.example.com", "example.org", "internal.corp", "xn--bcher-kva.example", "a-b.example.net", "10.1.2.3", "192.168.0.7", "EXAMPLE.COM", "sub.www.example.com"]
PORTS = [443, 443, 80, 8443, 8080]
INTERCEPT_HOOKS = ("tls_clienthello", "tls_start_client", "tls_start_server", "tcp_start", "tcp_message", "requestheaders", "request", "responseheaders", "response", "error", "tcp_end", "tcp_error")


def esc(s):
    return re.escape(s)


def gen_patterns(r, names, port):
    """Patterns a user would write, derived from names in play (or a sibling) so they match or nearly match."""
    out = []
    for _ in range(r.choice([1, 1, 2, 3])):
        t = r.choice(names) if r.random() < 0.8 else r.choice(NAMES)
        k = r.randrange(12)
        if k == 0:
            p = f"{esc(t)}:{port}"
        elif k == 1:
            p = f"^{esc(t)}:{port}$"
        elif k == 2:
            p = esc(t)
        elif k == 3:
            p = f"^(.+\\.)?{esc(t)}:"
        elif k == 4:
            p = esc(t.swapcase())
        elif k == 5:
            p = f":{port}$"
        elif k == 6:
            p = f"^{esc(t)}:{port + 1}$"
        elif k == 7:
            p = f"^{esc(t[1:])}:"
        elif k == 8:
            p = r".*" if r.random() < 0.3 else r"^\d+\.\d+\.\d+\.\d+:\d+$"
        elif k == 9:
            p = f"^{esc(t.split('.', 1)[-1])}:\\d+$"
        elif k == 10:
            p = f"{esc(t)}$"
        else:
            p = f"^{esc(t)}:"
        out.append(p)
    return out


def gen_http(r, host, port):
    """-> (bytes, features, host header value or None)"""
    feats = []
    method = r.choice(["GET", "GET", "POST", "OPTIONS", "get", "DELETE", "PROPFIND"])
    target = r.choice(["/", "/", "/index.html?q=1", "/Host:%20decoy.invalid", "*" if method == "OPTIONS" else "/x"])
    version = r.choice(["HTTP/1.1", "HTTP/1.1", "HTTP/1.0"])
    eol = b"\r\n"
    if r.random() < 0.1:
        eol = b"\n"
        feats.append("bare-lf")
    value = None
    fields = []
    others = [b"User-Agent: curl/8.0", b"Accept: */*", b"X-Forwarded-Host: decoy.invalid", b"Referer: http://decoy.invalid/Host: decoy.invalid", b"X-Pad: " + b"a" * r.choice([1, 50, 300]), b"Connection: keep-alive"]
    r.shuffle(others)
    others = others[: r.choice([0, 1, 2, 4])]
    if host is not None:
        value = host
        if r.random() < 0.35:
            value = f"{host}:{r.choice([port, port, port + 1])}"
            feats.append("host-port")
        name = r.choice(["Host", "Host", "host", "HOST", "hOsT"])
        if name != "Host":
            feats.append("name-case")
        ows = r.choice([" ", " ", " ", "", "", "\t", "  ", " \t "])
        feats.append({" ": "ows-sp", "": "ows-none", "\t": "ows-tab"}.get(ows, "ows-multi"))
        trail = r.choice(["", "", "", " ", "\t ", "  "])
        if trail:
            feats.append("ows-trailing")
        line = f"{name}:{ows}{value}{trail}".encode()
        pos = r.randrange(len(others) + 1)
        feats.append("host-first" if pos == 0 else "host-later")
        fields = others[:pos] + [line] + others[pos:]
    else:
        fields = others
        feats.append("no-host")
    body = b""
    if method == "POST":
        body = b"x=" + b"y" * r.choice([0, 5, 100])
        fields.append(b"Content-Length: " + str(len(body)).encode())
    head = f"{method} {target} {version}".encode() + eol + b"".join(f + eol for f in fields) + eol
    return head + body, feats, value


def gen_case(r):
    mode = r.choice(["regular", "transparent", "reverse", "socks5"])
    addr_host = r.choice(NAMES)
    if mode == "reverse":
        addr_host = addr_host.lower()
    port = r.choice(PORTS)
    scheme = r.choice(["https", "http", "tcp", "tls"]) if mode == "reverse" else None
    kind = r.choice(["tls", "tls", "http", "http", "http", "other"])
    sni = host = None
    feats = []
    hello_end, rec_bounds, sni_only = None, [], False
    idn_connect = mode == "regular" and "xn--" in addr_host.lower()
    if idn_connect:
        # the CONNECT target is an IDNA A-label: kept apart from the Host/SNI workload (address is the only candidate)
        kind = r.choice(["tls", "other"])
        feats.append("connect-a-label")
    if kind == "tls":
        k = 0.0 if idn_connect else r.random()
        sni = None if k < 0.2 else (addr_host.lower() if k < 0.45 and not addr_host[0].isdigit() else r.choice([n for n in NAMES if not n[0].isdigit()]))
        hs = tlshello.build_client_hello(sni=sni, alpn=r.choice([None, [b"h2", b"http/1.1"]]), random=bytes(r.randrange(256) for _ in range(32)),
                                         extensions=[(0x002B, b"\x02\x03\x04")] + ([(21, b"\x00" * r.choice([10, 400]))] if r.random() < 0.3 else []), shuffle=r)
        cuts = [r.randrange(1, len(hs))] if r.random() < 0.25 else []
        flight = tlshello.wrap_records(hs, cuts, version=r.choice([0x0301, 0x0303]))
        feats.append("sni" if sni else "no-sni")
        if cuts:
            feats.append("two-records")
        hello_end = len(flight)
        rec_bounds = [5 + cuts[0]] if cuts else []
        if not idn_connect and r.random() < 0.4:
            # TLS 1.3-style flight: ClientHello, then (same stream, no waiting for the server) a ChangeCipherSpec record and
            # 0-2 application-data records (0-RTT early data) -- non-handshake records after a complete hello
            flight += b"\x14\x03\x03\x00\x01\x01"
            rec_bounds.append(len(flight))
            for _ in range(r.choice([0, 1, 1, 2])):
                body = bytes(r.randrange(256) for _ in range(r.choice([1, 17, 60, 150]))) + r.choice([b"", b"", b"\r\n", b"\n"])
                flight += b"\x17\x03\x03" + len(body).to_bytes(2, "big") + body
                rec_bounds.append(len(flight))
            feats.append("tls13-trailing-records")
            if sni and r.random() < 0.75:
                # SNI-decisive rules: an address no pattern is derived from, so only the SNI candidate can match
                addr_host = r.choice(["10.1.2.3", "192.168.0.7"])
                sni_only = True
    elif kind == "http":
        k = r.random()
        host = None if k < 0.12 else (addr_host if k < 0.4 else r.choice(NAMES))
        flight, hf, host = gen_http(r, host, port)
        feats += hf
    else:
        rnd = lambda n: bytes(r.randrange(256) for _ in range(n))
        flight = r.choice([b"SSH-2.0-OpenSSH_9.0\r\n", b"\x00\x01\x02\x03binary", rnd(r.choice([3, 20, 200])), b"EHLO example.com\r\n",
                           b"\x00" + rnd(r.choice([2, 30])) + r.choice([b"\r\n", b"\n", b"\r", b"\r\n\r\n", b"\n\r"]), b"220 ready\r\nMAIL FROM:<a@b>\r\n"])
        if flight[:1] == b"\x16" or re.match(rb"[A-Za-z]{3,}", flight) and b"HTTP/" in flight:
            flight = b"\x00" + flight
        if r.random() < 0.12:
            # payload that legitimately starts with CR / LF octets (opaque protocol)
            flight = r.choice([b"\r\n", b"\n", b"\r\n\r\n", b"\r", b"\n\n\r"]) + flight
            feats.append("leading-crlf")
        if flight[-1:] in (b"\r", b"\n"):
            feats.append("trailing-crlf")
    names = [addr_host] + ([sni] if sni else []) + ([ref.split_host_port(host)[0]] if host else [])
    if sni_only:
        names = [sni]
    optkind = r.choice(["ignore", "ignore", "ignore", "allow", "allow", "both", "none"])
    ignore = gen_patterns(r, names, port) if optkind in ("ignore", "both") else []
    allow = gen_patterns(r, names, port) if optkind in ("allow", "both") else []
    if sni_only:
        # keep only patterns that cannot match the numeric address (catch-alls / port-only patterns would let it decide)
        addr_s = f"{addr_host}:{port}"
        ignore = [p for p in ignore if not re.search(p, addr_s, re.IGNORECASE)]
        allow = [p for p in allow if not re.search(p, addr_s, re.IGNORECASE)]
        if optkind in ("ignore", "both") and not ignore:
            ignore = [f"^{esc(sni)}:"]
        if optkind in ("allow", "both") and not allow:
            allow = [f"^{esc(sni)}:{port}$"]
    tls_hook = kind == "tls" and r.random() < 0.15 and mode != "reverse"
    return {
        "mode": mode, "scheme": scheme, "hello_end": hello_end, "rec_bounds": rec_bounds, "addr": (addr_host, port), "kind": kind, "sni": sni, "host": host, "flight": flight, "feats": feats,
        "ignore": ignore, "allow": allow, "optkind": optkind, "tls_hook": tls_hook,
        "strategy": r.choice(["eager", "lazy"]),
        "client_payload": bytes(r.randrange(256) for _ in range(r.choice([0, 1, 40, 200]))),
        "server_payload": bytes(r.randrange(256) for _ in range(r.choice([0, 1, 40, 200]))),
        "client_eof": r.random() < 0.4, "server_eof": r.random() < 0.4, "server_first": kind == "other" and r.random() < 0.5,
        "socks_pipelined": r.random() < 0.5,
    }


def cut_flight(flight, r, seg):
    """Segments of the first flight; the first one has >= 3 bytes."""
    n = len(flight)
    if seg == "whole" or n <= 3:
        return [flight]
    if seg == "bytes":
        return [flight[:3]] + [flight[i : i + 1] for i in range(3, n)]
    if isinstance(seg, int):
        k = max(3, min(n - 1, seg))
        return [flight[:k], flight[k:]]
    k = r.choice([1, 1, 2, 3, 5])
    pts = sorted({r.randrange(3, n) for _ in range(k)})
    out, last = [], 0
    for p in pts + [n]:
        out.append(flight[last:p])
        last = p
    return [s for s in out if s]


def execute(spec, opts, nl, rng, seg, schedule, ref_excluded, early="gated"):
    mode = spec["mode"]
    host, port = spec["addr"]
    if mode == "regular":
        client = sansio.make_client("regular")
        top = lambda c: modes.HttpProxy(c)
    elif mode == "transparent":
        client = sansio.make_client("transparent")
        top = lambda c: modes.TransparentProxy(c)
    elif mode == "reverse":
        client = sansio.make_client(f"reverse:{spec['scheme']}://{host}:{port}")
        top = lambda c: modes.ReverseProxy(c)
    else:
        client = sansio.make_client("socks5")
        top = lambda c: modes.Socks5Proxy(c)
    flight = spec["flight"]
    fsegs = cut_flight(flight, rng, seg)
    psegs = peers.cut(spec["client_payload"], rng, "random")
    tail = [sansio.EOF] if spec["client_eof"] else []
    info = {"first_seg": fsegs[0]}

    def policy(drv, hook):
        if hook.name == "tls_clienthello" and spec["tls_hook"]:
            hook.data.ignore_connection = bool(ref_excluded)
        return None

    def snap(hook):
        if hook.name == "next_layer":
            l = hook.data.layer
            return {"client": bytes(hook.data.data_client()), "server_len": len(hook.data.data_server()), "layer": type(l).__name__ if l is not None else None,
                    "ignore": isinstance(l, TCPLayer) and l.flow is None}
        f = getattr(hook, "flow", None)
        if f is not None and hasattr(f, "request"):
            return {"method": f.request.method}
        return None

    def quiet(drv):
        return not drv.inbox[drv.client] and not any(p.kind in ("hook", "open") for p in drv.pending)

    # leading CR/LF of early data behind a CONNECT head may be skipped by the proxy (see check_transparent): the server peer
    # must not wait for those octets before it answers
    lead = (len(flight) - len(flight.lstrip(b"\r\n"))) if mode == "regular" else 0

    def server_factory(drv, conn):
        ssegs = peers.cut(spec["server_payload"], rng, "random")
        # TCP causality: a TLS/HTTP server answers only after it has received the complete first flight
        gate = None if spec["server_first"] else (lambda drv: len(drv.out[conn]) >= len(flight) - lead)
        out = [(s, gate) for s in ssegs]
        if spec["server_eof"]:
            out.append((sansio.EOF, quiet))
        return sansio.ScriptPeer(out)

    d = sansio.Driver(top, client=client, options=opts, rng=rng, addons=[nl], policy=policy, server_factory=server_factory, schedule=schedule, snapshot=snap, max_steps=6000)
    if mode == "transparent":
        d.context.server.address = (host, port)
    segs = []
    if mode == "regular":
        head = f"CONNECT {host}:{port} HTTP/1.1\r\nHost: {host}:{port}\r\n\r\n".encode()
        established = lambda drv: b"\r\n\r\n" in drv.out[drv.client]
        if early == "coalesced":
            # the tunnelled first flight starts in the same segment as the CONNECT head (before the 200 exists)
            segs += [head + fsegs[0]] + fsegs[1:]
        elif early == "ungated":
            # the client does not wait for the 200: its bytes arrive while http_connect / OpenConnection are still pending
            segs += [head] + fsegs
        else:
            segs += [head] + [(s, established) for s in fsegs]
    elif mode == "socks5":
        hb = host.encode()
        req = b"\x05\x01\x00\x03" + bytes([len(hb)]) + hb + port.to_bytes(2, "big")
        if spec["socks_pipelined"]:
            segs += [b"\x05\x01\x00", req + fsegs[0]] + fsegs[1:]
        else:
            replied = lambda drv: len(drv.out[drv.client]) >= 12
            segs += [b"\x05\x01\x00", req] + [(s, replied) for s in fsegs]
    else:
        segs += fsegs
    if tail and mode == "regular":
        srv_done = lambda drv: b"\r\n\r\n" in drv.out[drv.client] and bool(drv.servers) and all(all(x[0] is sansio.EOF for x in drv.inbox.get(s, ())) for s in drv.servers)
        tail = [(sansio.EOF, srv_done)]
    segs += psegs + tail
    cp = sansio.ScriptPeer(segs)
    d.attach_client_peer(cp)
    d.start()
    d.run()
    d.teardown()
    return d, info


def preamble_len(mode, client_rx: bytes):
    if mode == "regular":
        i = client_rx.find(b"\r\n\r\n")
        return None if i < 0 or not client_rx.startswith(b"HTTP/1.1 200") else i + 4
    if mode == "socks5":
        return 12 if client_rx[:2] == b"\x05\x00" and client_rx[2:4] == b"\x05\x00" and len(client_rx) >= 12 else None
    return 0


def classify(spec, dec, first_ask, observed):
    """Mechanism = the smallest impairment of the candidate set -- each one tied to a condition on the input/history -- under
    which the reference rule yields what the real addon did.  observed: True ignored / False intercepted / None never decided."""
    host_missed = None
    if spec["kind"] == "http":
        line0 = first_ask.split(b"\n", 1)[0] if first_ask is not None else b""
        if first_ask is not None and not re.match(rb"[A-Za-z]{3,}.+HTTP/", line0):
            host_missed = "decision-taken-before-request-line-complete"
        elif "bare-lf" in spec["feats"]:
            host_missed = "http-head-with-bare-lf-line-endings"
        elif "ows-none" in spec["feats"]:
            host_missed = "host-header-without-whitespace-after-colon"
    if observed is None:
        # the addon keeps waiting for a CRLF CRLF that never comes
        return host_missed if host_missed == "http-head-with-bare-lf-line-endings" else None
    c = dict(dec["cands"])
    if host_missed and "host" in c:
        c2 = {k: v for k, v in c.items() if k != "host"}
        if ref.excluded(c2.values(), spec["ignore"], spec["allow"]) == observed:
            return host_missed
    if "connect-a-label" in spec["feats"]:
        c2 = dict(c)
        c2["addr"] = f"{spec['addr'][0].encode('ascii').decode('idna')}:{spec['addr'][1]}"
        if ref.excluded(c2.values(), spec["ignore"], spec["allow"]) == observed:
            return "regular-mode-connect-target-a-label-decoded-to-unicode"
    return None


def run(ctx):
    tctx, addons = sansio.addon_context()
    nl = addons[1]
    opts = tctx.options
    defaults = {k: getattr(opts, k) for k in ("ignore_hosts", "allow_hosts", "connection_strategy")}
    try:
        for i in ctx.cases():
            r = ctx.rng
            spec = gen_case(r)
            flight = spec["flight"]
            # reference reading of the flight (independent of the generator's bookkeeping)
            st, sni_b = ref.tls_sni(flight)
            head = ref.http_head(flight)
            ref_sni = sni_b.decode("ascii") if (st == "hello" and sni_b) else None
            ref_host = head["host"].decode("latin-1") if head and head["host"] and head["host"] != "<multiple>" else None
            if ref_sni != spec["sni"] or ref_host != (spec["host"] if spec["kind"] == "http" else None):
                ctx.violation("harness:reference-reader-disagrees-with-generator", {"flight": flight, "ref_sni": ref_sni, "ref_host": ref_host, "gen": (spec["sni"], spec["host"])})
                ctx.case(("harness",), False)
                continue
            dec = ref.decide(spec["addr"], ref_host, ref_sni, spec["ignore"], spec["allow"])
            opts.update(connection_strategy=spec["strategy"], ignore_hosts=[] if spec["tls_hook"] else spec["ignore"], allow_hosts=[] if spec["tls_hook"] else spec["allow"])
            if [p.pattern for p in nl.ignore_hosts] != list(opts.ignore_hosts):
                ctx.violation("harness:NextLayer.configure-did-not-see-option-change", {"opt": list(opts.ignore_hosts)})
            n = len(flight)
            variants = [("whole", "fifo"), ("bytes", "fifo"), ("bytes", "random"), ("random", "random"), ("random", "random")]
            pts = list(range(3, n))
            if pts:
                k = 4 if ctx.tier == "quick" else (len(pts) if n <= 150 else 30)
                variants += [(p, r.choice(["fifo", "random"])) for p in (pts if k >= len(pts) else r.sample(pts, k))]
            if spec["hello_end"] and spec["hello_end"] < n:
                # TLS 1.3-style flight: hello alone / last hello fragment together with the next record / cuts inside the trailing records
                he = spec["hello_end"]
                extra = {he, he + 1, he + 5, r.randrange(he, n)} | set(spec["rec_bounds"]) | {b - 1 for b in spec["rec_bounds"]}
                variants += [(p, r.choice(["fifo", "random"])) for p in sorted(extra) if 3 <= p < n]
            if spec["mode"] == "regular":
                earlies = ["gated", "coalesced", "coalesced", "ungated", "coalesced", "ungated"]
                variants = [(sg, sc, earlies[j] if j < len(earlies) else r.choice(["gated", "coalesced", "ungated"])) for j, (sg, sc) in enumerate(variants)]
                variants.insert(1, ("whole", "random", "ungated"))
            else:
                variants = [(sg, sc, None) for sg, sc in variants]
            nvar = 0
            for seg, sched, early in variants:
                try:
                    d, info = execute(spec, opts, nl, r, seg, sched, dec["excluded"], early or "gated")
                except Exception as e:
                    ctx.violation("harness-or-layer-crash", {"spec": {k: v for k, v in spec.items()}, "seg": str(seg), "exc": repr(e)})
                    break
                if d.budget_exceeded:
                    ctx.count("inconclusive_cases")
                    continue
                nvar += 1
                ctx.count("mode." + spec["mode"])
                asks = [h[3] for h in d.hooks if h[1] == "next_layer"]
                if spec["mode"] == "regular":
                    asks = asks[1:] if asks and asks[0]["layer"] == "HttpLayer" and asks[0]["client"].startswith(b"CONNECT") else asks
                decided = [a for a in asks if a["layer"] is not None]
                first_decided = decided[0] if decided else None
                names = d.hook_names()
                fired = []
                for step, name, hook, s in d.hooks:
                    if name in INTERCEPT_HOOKS:
                        if s and s.get("method", "").upper() == "CONNECT" and spec["mode"] == "regular":
                            continue
                        fired.append(name)
                for e in d.exceptions:
                    ctx.seen("layer_exceptions", f"{e[0]}@{e[1]}")
                ctx.seen("chosen_layer", f"{spec['mode']}/{spec['kind']}/{first_decided['layer'] if first_decided else None}/{'ignore' if first_decided and first_decided['ignore'] else ''}")
                client_rx = bytes(d.out[d.client])
                server_rx = b"".join(bytes(d.out[s]) for s in d.servers)
                witness = {
                    "mode": spec["mode"], "scheme": spec["scheme"], "addr": spec["addr"], "kind": spec["kind"], "sni": spec["sni"], "host_header": spec["host"], "feats": spec["feats"],
                    "flight": flight[:400], "ignore_hosts": spec["ignore"], "allow_hosts": spec["allow"], "strategy": spec["strategy"], "seg": seg if isinstance(seg, str) else f"split@{seg}", "connect_early": early,
                    "schedule": sched, "first_segment": info["first_seg"][:120], "reference": {"excluded": dec["excluded"], "decisive": sorted(dec["decisive"]), "candidates": dec["cands"]},
                    "asks": [{**a, "client": a["client"][:80]} for a in asks][:6], "hooks": names[:20], "client_eof": spec["client_eof"], "server_eof": spec["server_eof"], "server_first": spec["server_first"],
                }
                pl = preamble_len(spec["mode"], client_rx)
                if pl is None:
                    ctx.violation("mode-handshake-reply-missing", witness)
                    break
                transparent_ok = None

                def check_transparent(label):
                    exp_server = flight + spec["client_payload"]
                    exp_client = spec["server_payload"]
                    bad = []
                    mech = None
                    if server_rx != exp_server:
                        k = len(exp_server) - len(exp_server.lstrip(b"\r\n"))
                        eaten = len(exp_server) - len(server_rx)
                        if early in ("coalesced", "ungated") and 0 < eaten <= k and server_rx == exp_server[eaten:]:
                            # only leading CR/LF octets of early data sent behind the CONNECT head are missing
                            if eaten == 2 and exp_server[:2] == b"\r\n":
                                ctx.count("tolerated_single_empty_line_after_connect_head")
                            else:
                                mech = "connect-early-data-leading-crlf-eaten"
                                bad.append(("to-server", len(exp_server), len(server_rx), exp_server[:60], server_rx[:60]))
                        else:
                            bad.append(("to-server", len(exp_server), len(server_rx), exp_server[:60], server_rx[:60]))
                    if client_rx[pl:] != exp_client:
                        bad.append(("to-client", len(exp_client), len(client_rx) - pl, exp_client[:60], client_rx[pl : pl + 60]))
                    if bad:
                        ctx.violation(label, {**witness, "diff": bad}, mech)
                    return not bad or mech is not None

                if spec["tls_hook"]:
                    ctx.count("tls_hook_passthrough")
                    if dec["excluded"]:
                        ctx.count("tls_hook_passthrough.ignored")
                        if "tls_start_client" in names or "tls_start_server" in names:
                            ctx.violation("tls-started-although-addon-set-ignore_connection", witness)
                        check_transparent("tls-hook-passthrough-not-byte-transparent")
                    elif "tls_start_client" not in names:
                        ctx.violation("tls-not-started-although-not-ignored", witness)
                    continue
                if dec["ambiguous"]:
                    ctx.count("ambiguous_host_port")
                    continue
                ctx.count("decision")
                observed = None if first_decided is None else bool(first_decided["ignore"])
                first_ask = asks[0]["client"] if asks else None
                if dec["excluded"]:
                    ctx.count("decision.excluded")
                    if observed is not True:
                        mech = classify(spec, dec, first_ask, observed)
                        ctx.violation("excluded-destination-was-intercepted" if observed is False else "excluded-destination-never-decided",
                                      {**witness, "chosen": first_decided and first_decided["layer"]}, mech)
                        if mech:
                            continue  # classified: keep exploring the other segmentations of this case
                        break
                    ctx.count("no_intercept")
                    if fired:
                        ctx.violation("hooks-fired-on-excluded-connection", {**witness, "fired": fired})
                        break
                    ctx.count("transparent")
                    if not check_transparent("excluded-connection-not-byte-transparent"):
                        break
                else:
                    ctx.count("decision.not_excluded")
                    if observed is not False:
                        mech = classify(spec, dec, first_ask, observed)
                        ctx.violation("not-excluded-destination-was-ignored" if observed else "not-excluded-destination-never-decided",
                                      {**witness, "chosen": first_decided and first_decided["layer"]}, mech)
                        if mech:
                            continue
                        break
                    ctx.count("intercepted")
                    if not fired and spec["kind"] != "other":
                        ctx.violation("not-excluded-but-no-flow-hook-fired", witness)
                        break
            which = tuple(sorted(k for k, v in dec["cands"].items() if ref.excluded([v], spec["ignore"] + spec["allow"], [])))
            sig = (spec["mode"], spec["scheme"], spec["kind"], tuple(sorted(f for f in spec["feats"] if not f.startswith("host-"))), spec["optkind"], which, tuple(sorted(dec["decisive"])), dec["excluded"], spec["tls_hook"])
            ctx.case(sig, spec["optkind"] != "none" and nvar >= 3, {"mode": spec["mode"], "addr": spec["addr"], "kind": spec["kind"], "sni": spec["sni"], "host": spec["host"], "feats": spec["feats"],
                                                                   "ignore": spec["ignore"], "allow": spec["allow"], "excluded": dec["excluded"], "decisive": sorted(dec["decisive"]), "variants": nvar})
    finally:
        opts.update(**defaults)
