"""C01 -- HTTP/1 forwarding is framing-consistent (no request/response desync).

Engine A: the real HttpProxy/ReverseProxy/TransparentProxy -> NextLayer (real addon) -> HttpLayer stack is fed
hostile pipelined HTTP/1 byte streams (random segmentation and schedule); a reactive origin answers each
forwarded request with a hostile scripted response.  Monitors (M2, wire boundary, independent RFC 9112 parser
vf/ref/http1.py):
  up.parse      bytes written to every upstream connection parse ("ok", no remainder)
  up.match      every parsed upstream request carries the unique tag of exactly one flow and equals that flow's
                request as snapshotted at the `request` hook (after addon edits): method, target, fields, body
  up.ambiguous  a client message the reference classifies as ambiguous framing (conflicting/malformed CL/TE,
                invalid field name, ...) never reaches any upstream connection
  down.parse    bytes written to the client parse as a response sequence in the context of the request methods
  down.match    every tagged response equals the flow's response snapshotted at the `response` hook and answers
                the request with that tag; untagged ones are mitmproxy's own (error page / 100 Continue)
  up.streamed / down.streamed   (streaming leg) a message relayed while it arrives carries the header fields recorded at the
                hook and exactly the body the independent parser reads from the sender's bytes (and the stored body, when
                store_streamed_bodies is on); the framing the peer sees must still delimit it (keep-alive vs. close)
"""
import re

from mitmproxy.proxy import layers

from vf import peers, sansio
from vf.gen import h1 as gen
from vf.ref import http1 as ref

PROPERTY = "C01"
LEVEL = "exploration"
ENGINE = "sansio"
BUDGET = {"quick": (1200, 22), "thorough": (60000, 240)}
WORKERS = {"quick": 4, "thorough": 16}
REQUIRED = ["up.parse", "up.match", "up.ambiguous", "down.parse", "down.match", "up.streamed", "down.streamed", "sequential_unsolicited_cases"]
TECHNIQUE = "runtime monitoring: sans-io schedule exploration + differential wire oracle (independent RFC 9112 parser)"
RULE = (
    "case = (mode, 1-4 pipelined generated requests with hostile framing features, hostile scripted responses, addon edit "
    "policy, random segmentation + schedule); signature = (mode, sorted request features, sorted response features, policy kinds, "
    "#forwarded); non-trivial iff >=1 message forwarded upstream and the case has a hostile feature or an addon edit"
)
ASSUMPTIONS = [
    "header comparison modulo name case / OWS / obs-fold; bare CR and NUL inside values tolerated (DESIGN 3.1), counted as lenient_octets_forwarded",
    "addon edits use the public API framing-consistently (DESIGN 3.3); no kill here (C03/C11)",
    "streaming leg (30% of cases: stream_large_bodies / message.stream=True, store_streamed_bodies on or off): a streamed message is compared with the body the independent parser reads from the sender's bytes and with the header fields recorded at the hook; a streamed message whose flow ends in an error (or whose client half-closed) may legitimately be incomplete at the peer",
    "identical duplicate Content-Length values may be either rejected or forwarded (RFC 9112 6.3 allows both)",
]
LEVEL_TEXT = (
    "Exploration: thousands of generated hostile HTTP/1 conversations are run through the real layer stack under random "
    "segmentations and schedules; every byte mitmproxy writes is re-read by an independent RFC 9112 parser and compared with the "
    "flows recorded at the hooks. Decides the executions observed; reach comes from the feature-biased generator."
)
LEVEL_NOTE = "Trusted: vf/ref/http1.py (own RFC 9112 reader), the sans-io driver's model of ConnectionHandler (vf/sansio.py)."

TAG = re.compile(rb"t\d+-[0-9a-f]{6}")
MUST_REJECT = (
    "invalid Content-Length", "conflicting Content-Length", "both Transfer-Encoding and Content-Length",
    "Transfer-Encoding in HTTP/1.0", "request Transfer-Encoding does not end in chunked", "chunked applied twice",
    "invalid field name", "field line without colon", "leading whitespace before first field",
)
MODES = ["regular", "regular", "transparent", "reverse:http://example.com:80"]


def make_policy(rng, kinds_out, st=None):
    def policy(drv, hook):
        f = getattr(hook, "flow", None)
        if f is None or not hasattr(f, "request"):
            return None
        if st and hook.name in ("requestheaders", "responseheaders"):
            msg = f.request if hook.name == "requestheaders" else f.response
            if msg is not None and rng.random() < st["req_p" if hook.name == "requestheaders" else "resp_p"]:
                msg.stream = True
                kinds_out.add(("req" if hook.name == "requestheaders" else "resp") + ":stream")
            return "delay" if rng.random() < 0.15 else None
        if st and hook.name in ("request", "response") and getattr(f.request if hook.name == "request" else f.response, "stream", False):
            # already relayed: an edit now is too late to reach the wire (and is not what C01 quantifies over)
            kinds_out.add(("req" if hook.name == "request" else "resp") + ":streamed")
            return "delay" if rng.random() < 0.2 else None
        if hook.name == "request":
            a = rng.choice(["pass", "pass", "addh", "delh", "body", "body0", "delay"])
            if a == "addh":
                f.request.headers.add("x-edit", "e%d" % rng.randint(0, 99))
            elif a == "delh":
                for n in list(f.request.headers.keys()):
                    if n.lower().startswith("x-") and n.lower() not in ("x-tag",):
                        del f.request.headers[n]
                        break
            elif a == "body":
                f.request.content = b"edited:" + bytes(rng.choice(b"qrs") for _ in range(rng.randint(0, 30)))
            elif a == "body0":
                f.request.content = b""
            kinds_out.add("req:" + a)
            if a == "delay":
                return "delay"
        elif hook.name == "response" and f.response is not None:
            nobody = f.request.method.upper() == "HEAD" or f.response.status_code in (204, 304) or 100 <= f.response.status_code < 200
            a = rng.choice(["pass", "pass", "addh", "body", "delay"])
            if a == "addh":
                f.response.headers.add("x-edit", "r%d" % rng.randint(0, 99))
            elif a == "body" and not nobody:
                f.response.content = b"EDITED:" + bytes(rng.choice(b"tuv") for _ in range(rng.randint(0, 30)))
            else:
                a = "pass" if a == "body" else a
            kinds_out.add("resp:" + a)
            if a == "delay":
                return "delay"
        return None

    return policy


class ForceHttp:
    """next_layer addon that always selects the HTTP layer (C01 is about HTTP/1 handling, not protocol detection)."""

    def next_layer(self, nl):
        from mitmproxy.proxy.layers.http import HTTPMode

        regular = type(nl.context.client.proxy_mode).__name__ == "RegularMode"
        nl.layer = layers.HttpLayer(nl.context, HTTPMode.regular if regular else HTTPMode.transparent)


def classify(kind, info):
    """Mechanism from properties of the history (never from seeds / messages)."""
    if kind in ("response-answers-wrong-request", "client-response-differs-from-flow", "tagged-response-without-response-hook", "untagged-response-not-mitmproxys-own", "client-bytes-not-a-response-sequence"):
        if info.get("flow_recorded_1xx"):
            return "origin-1xx-interim-response-treated-as-final"
    if kind == "client-bytes-not-a-response-sequence" and info.get("error_page_for_head"):
        return "error-page-with-body-in-answer-to-HEAD"
    return None


def run_case(ctx, opts, addons):
    r = ctx.rng
    st = None
    if r.random() < 0.3:
        # streaming leg: bodies relayed while they arrive (option- and addon-driven), optionally recorded (store_streamed_bodies)
        st = {"slb": r.choice([None, None, "1", "12"]), "store": r.random() < 0.5, "req_p": r.choice([0.0, 0.5, 1.0]), "resp_p": r.choice([0.0, 0.5, 1.0])}
        opts.update(stream_large_bodies=st["slb"], store_streamed_bodies=st["store"])
        ctx.count("streaming_cases")
    try:
        return _run_case(ctx, opts, addons, r, st)
    finally:
        if st:
            opts.update(stream_large_bodies=None, store_streamed_bodies=False)


def _ref_body(raw, methods=None):
    """Body the independent parser reads from one generated message (None if it does not read exactly one message)."""
    if methods is None:
        status, msgs, rest = ref.parse_requests(raw)
    else:
        status, msgs, rest = ref.parse_responses(raw, methods, eof=True)
        msgs = [m for m in msgs if not 100 <= m["status"] < 200]
    if status != "ok" or rest or len(msgs) != 1:
        return None
    return msgs[0]["body"]


def _run_case(ctx, opts, addons, r, st):
    mode = r.choice(MODES)
    gmode = "regular" if mode == "regular" else "origin"
    n = r.choice([1, 1, 2, 3, 4])
    reqs = [gen.gen_request(r, k, mode=gmode, allow_expect=True) for k in range(n)]
    by_tag = {q["tag"]: q for q in reqs}
    # sequential client + origin writing unsolicited bytes behind complete responses (with a pipelining client their arrival
    # races with the forwarding of the next request, see C02): the connection they arrived on must not be reused
    unsolicited = n >= 2 and st is None and r.random() < 0.2
    if unsolicited:
        ctx.count("sequential_unsolicited_cases")
    resp_feats = set()
    resp_by_tag = {}

    def responder(k, msg, peer):
        m = TAG.search(msg["target"])
        tag = m.group(0) if m else b"unknown"
        q = by_tag.get(tag)
        rs = gen.gen_response(r, tag, msg["method"], extra_after_p=0.5 if unsolicited else 0.0)
        resp_by_tag.setdefault(tag, rs)
        resp_feats.update(rs["feats"])
        return rs["raw"], rs["close_after"]

    kinds = set()
    client = sansio.make_client(mode)
    d = sansio.Driver(
        (lambda c: layers.modes.HttpProxy(c)) if mode == "regular" else (lambda c: layers.modes.ReverseProxy(c)) if mode.startswith("reverse") else (lambda c: layers.modes.TransparentProxy(c)),
        client=client,
        options=opts,
        rng=r,
        addons=[ForceHttp()],
        policy=make_policy(r, kinds, st),
        server_factory=lambda drv, conn: peers.H1ServerPeer(responder, r, r.choice(["whole", "random", "random", "bytes"])),
        schedule=r.choice(["random", "random", "fifo"]),
        snapshot=sansio.http_snapshot,
    )
    if mode == "transparent":
        d.context.server.address = ("example.com", 80)
    stream = b"".join(q["raw"] for q in reqs)
    seg_mode = r.choice(["whole", "random", "random", "bytes"] if len(stream) < 3000 else ["whole", "random"])
    segs = peers.sequential_segments(reqs, r, seg_mode) if unsolicited else peers.cut(stream, r, seg_mode)
    eof_early = r.random() < 0.3 and not unsolicited
    d.attach_client_peer(sansio.ScriptPeer(segs + ([sansio.EOF] if eof_early else [])))
    d.start()
    d.run()
    d.teardown()
    if d.budget_exceeded:
        ctx.count("inconclusive_cases")
        return None

    witness_base = {"mode": mode, "client_stream": stream, "segments": len(segs), "hooks": d.hook_names(), "exceptions": [e[:3] for e in d.exceptions]}
    for e in d.exceptions:
        ctx.seen("layer_exceptions", f"{e[0]}@{e[1]}")
    ctx.seen("hook_sequences", ",".join(d.hook_names()))

    # snapshots by tag
    req_snap, resp_snap, reqh_snap, resph_snap, errored = {}, {}, {}, {}, set()
    for step, name, hook, snap in d.hooks:
        if snap is None or not snap["request"]:
            continue
        m = TAG.search(snap["request"]["path"].encode("latin-1", "replace"))
        if not m:
            continue
        if name == "request":
            req_snap[m.group(0)] = snap
        elif name == "response":
            resp_snap[m.group(0)] = snap
        elif name == "requestheaders":
            reqh_snap[m.group(0)] = snap
        elif name == "responseheaders":
            resph_snap[m.group(0)] = snap
        elif name == "error":
            errored.add(m.group(0))
    # a streamed message whose flow ends in an error has been relayed up to the point of the error: the peer then holds an
    # incomplete message (and the connection is closed), which is the only way left to signal the error
    stream_err = st is not None and bool(errored)

    client_incomplete = st is not None and any(ref.parse_requests(stream, lenient=l)[0] == "incomplete" for l in (False, True))
    # ---------------- upstream side
    forwarded = []
    seen_up = set()
    for conn in d.servers:
        data = bytes(d.out[conn])
        if not data:
            continue
        status, msgs, rest = ref.parse_requests(data)
        ctx.count("up.parse")
        if status == "incomplete" and stream_err:
            ctx.count("up.incomplete_after_streamed_error")
            continue
        if status == "incomplete" and st is not None and client_incomplete:
            # the client's own stream ends inside a message body (declared length never reached): the streamed copy does too
            ctx.count("up.incomplete_like_client_stream")
            continue
        if status != "ok" or rest:
            ctx.violation("upstream-bytes-not-a-request-sequence", {**witness_base, "upstream": data, "status": status, "rest_or_reason": rest}, classify("up.parse", None))
            continue
        for msg in msgs:
            m = TAG.search(msg["target"])
            tag = m.group(0) if m else None
            ctx.count("up.match")
            if tag is None or tag not in by_tag or tag in seen_up:
                ctx.violation("upstream-message-without-own-flow", {**witness_base, "upstream": data, "target": msg["target"], "dup": tag in seen_up})
                continue
            seen_up.add(tag)
            forwarded.append(tag)
            snap = req_snap.get(tag)
            if snap is None and st is not None and tag in reqh_snap and tag in errored:
                ctx.count("up.streamed_then_errored")
                continue
            if snap is None:
                ctx.violation("forwarded-without-request-hook", {**witness_base, "upstream": data, "tag": tag})
                continue
            rq = snap["request"]
            diffs = []
            if msg["method"] != rq["method"]:
                diffs.append(("method", msg["method"], rq["method"]))
            if msg["target"] != rq["path"].encode("latin-1", "replace"):
                diffs.append(("target", msg["target"], rq["path"]))
            if ref.norm_headers(msg["headers"]) != ref.norm_headers(rq["headers"]):
                diffs.append(("headers", ref.norm_headers(msg["headers"]), ref.norm_headers(rq["headers"])))
            if st is not None and rq["stream"]:
                ctx.count("up.streamed")
                want = _ref_body(by_tag[tag]["raw"])
                if want is not None and msg["body"] != want:
                    diffs.append(("streamed-body", msg["body"], want))
                if st["store"] and msg["body"] != (rq["content"] or b""):
                    diffs.append(("stored-streamed-body", msg["body"], rq["content"]))
            elif msg["body"] != (rq["content"] or b""):
                diffs.append(("body", msg["body"], rq["content"]))
            if any((b"\r" in v.replace(b"\r\n", b"") or b"\x00" in v) for _, v in rq["headers"]):
                ctx.count("lenient_octets_forwarded")
            if diffs:
                ctx.violation("upstream-request-differs-from-flow", {**witness_base, "upstream": data, "tag": tag, "diffs": diffs})
    # ambiguous inputs must not be forwarded
    all_up = b"".join(bytes(d.out[c]) for c in d.servers)
    if st is not None:
        # with streaming, an (over)long declared body legitimately carries later bytes of the client stream as BODY octets of the
        # streamed request: look for the tag in request lines only
        heads = []
        for c in d.servers:
            status, msgs, rest = ref.parse_requests(bytes(d.out[c]))
            heads += [m["target"] for m in msgs]
            if status == "incomplete":
                heads.append(bytes(rest).lstrip(b"\r\n").split(b"\r\n", 1)[0])
            elif status != "ok":
                heads.append(bytes(d.out[c]))
        all_up = b"\n".join(heads)
    for q in reqs:
        verdict, reason = ref.classify_request_input(q["raw"].lstrip(b"\r\n"))
        must = verdict == "ambiguous" and any(reason.startswith(p) for p in MUST_REJECT)
        if must:
            ctx.count("up.ambiguous")
            if q["tag"] in all_up:
                ctx.violation("ambiguous-message-forwarded", {**witness_base, "request": q["raw"], "reason": reason, "upstream": all_up})
        elif q["ambiguous"] and verdict != "ambiguous":
            ctx.count("gen_ambiguous_but_ref_accepts")

    # ---------------- client side
    down = bytes(d.out[client])
    if down:
        # a request whose head the reference itself rejects has no defined method: an error answer to it may carry a body
        methods = []
        for q in reqs:
            v, _ = ref.classify_request_input(q["raw"].lstrip(b"\r\n"))
            methods.append("GET" if v == "ambiguous" else q["method"])
        info = {
            "flow_recorded_1xx": any(s_["response"] and 100 <= s_["response"]["status_code"] < 200 and s_["response"]["status_code"] != 101 for s_ in resp_snap.values()),
        }
        status, msgs, rest = ref.parse_responses(down, [q["method"] for q in reqs], eof=True)
        if status != "ok" or rest:
            status, msgs, rest = ref.parse_responses(down, methods, eof=True)
        ctx.count("down.parse")
        if status == "incomplete" and stream_err:
            ctx.count("down.incomplete_after_streamed_error")
        elif status == "incomplete" and st is not None and eof_early:
            # the client closed its side while a streamed response was in flight: mitmproxy closes too, the rest is not delivered
            ctx.count("down.incomplete_after_client_fin")
        elif status != "ok" or rest:
            # was it mitmproxy's own error page sent in answer to a HEAD request?
            st2, msgs2, rest2 = ref.parse_responses(down, ["GET" if m_ == "HEAD" else m_ for m_ in methods], eof=True)
            info["error_page_for_head"] = (
                st2 == "ok" and not rest2 and any(dict(m_["headers"]).get("server", b"").startswith(b"mitmproxy") and m_["body"] and reqs[min(m_["for_request"], len(reqs) - 1)]["method"] == "HEAD" for m_ in msgs2)
            )
            ctx.violation("client-bytes-not-a-response-sequence", {**witness_base, "down": down, "status": status, "rest_or_reason": rest}, classify("client-bytes-not-a-response-sequence", info))
        else:
            for msg in msgs:
                hd = dict(msg["headers"])
                tag = hd.get("x-tag")
                if tag is None:
                    ok_own = hd.get("server", b"").startswith(b"mitmproxy") or (msg["status"] == 100 and not msg["headers"])
                    if not ok_own:
                        ctx.violation("untagged-response-not-mitmproxys-own", {**witness_base, "down": down, "msg_head": msg["raw_head"]}, classify("untagged-response-not-mitmproxys-own", info))
                    continue
                ctx.count("down.match")
                if msg["for_request"] >= len(reqs) or reqs[msg["for_request"]]["tag"] != tag:
                    ctx.violation("response-answers-wrong-request", {**witness_base, "down": down, "tag": tag, "for_request": msg["for_request"]}, classify("response-answers-wrong-request", info))
                    continue
                snap = resp_snap.get(tag)
                if (snap is None or snap["response"] is None) and st is not None and tag in resph_snap and tag in errored:
                    ctx.count("down.streamed_then_errored")
                    continue
                if snap is None or snap["response"] is None:
                    ctx.violation("tagged-response-without-response-hook", {**witness_base, "down": down, "tag": tag}, classify("tagged-response-without-response-hook", info))
                    continue
                rs = snap["response"]
                diffs = []
                if msg["status"] != rs["status_code"]:
                    diffs.append(("status", msg["status"], rs["status_code"]))
                if ref.norm_headers(msg["headers"]) != ref.norm_headers(rs["headers"]):
                    diffs.append(("headers", ref.norm_headers(msg["headers"]), ref.norm_headers(rs["headers"])))
                if st is not None and rs["stream"]:
                    ctx.count("down.streamed")
                    want = _ref_body(resp_by_tag[tag]["raw"], [reqs[msg["for_request"]]["method"]]) if tag in resp_by_tag else None
                    if want is not None and msg["body"] != want:
                        diffs.append(("streamed-body", msg["body"], want))
                    if st["store"] and msg["body"] != (rs["content"] or b""):
                        diffs.append(("stored-streamed-body", msg["body"], rs["content"]))
                elif msg["body"] != (rs["content"] or b""):
                    diffs.append(("body", msg["body"], rs["content"]))
                if diffs:
                    ctx.violation("client-response-differs-from-flow", {**witness_base, "down": down, "tag": tag, "diffs": diffs}, classify("client-response-differs-from-flow", info))

    rf = sorted(set().union(*[q["feats"] for q in reqs]))
    sig = (mode.split(":")[0], tuple(rf), tuple(sorted(resp_feats)), tuple(sorted(kinds)), len(forwarded), (st["slb"], st["store"]) if st else None)
    hostile = bool(set(rf) - {"cl", "chunked", "body-empty"}) or bool(resp_feats) or any(not k.endswith("pass") for k in kinds)
    return sig, bool(forwarded) and hostile, {"mode": mode, "client_stream": stream[:400], "forwarded": [t.decode() for t in forwarded], "hooks": d.hook_names()}


def run(ctx):
    tctx, addons = sansio.addon_context()
    opts = tctx.options
    for i in ctx.cases():
        res = ctx.guard(run_case, ctx, opts, addons, what="c01 case")
        if res is None:
            ctx.case(("aborted",), False)
            continue
        sig, nontrivial, sample = res
        ctx.case(sig, nontrivial, sample)
