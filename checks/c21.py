"""C21 -- SOCKS5 handshakes are parsed exactly and subsequent data is relayed.

Engine A: the real `Socks5Proxy` top layer (mitmproxy/proxy/layers/modes.py) is fed generated greeting / RFC 1929
auth / request byte strings (valid, mutated, truncated, with trailing payload) under many segmentations (whole, 1-byte,
single split points, random cuts) and schedules (FIFO / random completion of the socks5_auth hook, of OpenConnection
and of peer segments), with connection_strategy eager/lazy, upstream connect failures (open_plan) and a socks5_auth
policy that accepts exactly one credential pair.  The child chosen at the next_layer hook is a recorder that logs every
event it is handed and relays through a real TCPLayer(ignore=True) to a scripted server peer.

Oracle: vf/ref/c21_socks5.py (own RFC 1928/1929 reader) decides accept / reject(stage, acceptable reply codes) /
incomplete for the complete input.  Monitors:
  totality       no exception escapes the layer, the run terminates
  accept         replies = method selection (+ auth status) + a well-formed REP=0 reply, then relayed data only;
                 context.server.address and every OpenConnection target denote exactly the requested IPv4/IPv6/domain
                 and port; the child receives the bytes after the request exactly once, in order; the server peer
                 receives the same bytes; the client receives the server's payload after the reply
  connect_fail   eager + refused connect: well-formed failure reply (REP != 0), client closed, nothing reaches a child
  reject         the client receives the mandatory earlier replies, then one of the reply prefixes the RFC makes
                 applicable (05 FF / 01 xx / 05 07 / 05 08, bare close for a foreign version) and is closed; no upstream
                 connection, no child data
  incomplete     nothing but the mandatory replies (or an allowed early rejection); no upstream connection
  eof            client EOF while the handshake is incomplete -- at EVERY offset of valid streams (fixed matrix: all auth variants x
                 address types; message boundaries 0 / after greeting / after auth always included) and in random cases: exactly one
                 close of the client before teardown, no OpenConnection, no next layer
  segmentation   (client bytes, child bytes, server bytes, connect targets, client closed) identical for every
                 segmentation/schedule of the same input
"""
from mitmproxy.connection import ConnectionState
from mitmproxy.proxy import events, layer
from mitmproxy.proxy.layers import modes
from mitmproxy.proxy.layers.tcp import TCPLayer

from vf import peers, sansio
from vf.ref import c21_socks5 as ref

PROPERTY = "C21"
LEVEL = "exploration"
ENGINE = "sansio"
BUDGET = {"quick": (1500, 12), "thorough": (40000, 240)}
WORKERS = {"quick": 4, "thorough": 16}
REQUIRED = ["totality", "accept", "accept.trailing", "connect_fail", "reject.greet", "reject.auth", "reject.request", "incomplete", "segmentation", "auth_hook", "eof_during_handshake", "eof_on_message_boundary"]
TECHNIQUE = "runtime monitoring: sans-io segmentation/schedule sweep of the real Socks5Proxy layer + independent RFC 1928/1929 reference reader"
RULE = (
    "case = generated SOCKS5 client byte string (greeting, optional RFC 1929 auth, request with atyp 1/3/4 or invalid fields, trailing payload; "
    "byte mutations and truncation at an offset; plus a fixed matrix: valid streams of every auth variant x address type cut at message boundaries "
    "+-1 (quick) / every offset (thorough) followed by client EOF) x proxyauth on/off x connection_strategy x connect failure x client EOF, executed whole, "
    "1-byte-wise, at sampled (quick) / all (thorough, short inputs) single split points and under random cuts and schedules; signature = "
    "(reference verdict, stage, reason, atyp, auth, strategy, connect failure, trailing payload?, truncated?, lenient flags); non-trivial iff the "
    "handshake completed with trailing payload or was rejected / left incomplete at a stage, and >= 3 segmentations ran"
)
ASSUMPTIONS = [
    "inputs outside RFC 1928/1929 that servers commonly tolerate (auth sub-negotiation version != 1, empty user/password, empty or non-ASCII "
    "domain name) are only checked for totality and segmentation independence (DESIGN 3.7)",
    "a malformed request header (VER != 5, RSV != 0) may be answered with any failure reply or a bare close; a foreign version in the greeting with a bare close",
    "a message shorter than its syntactic minimum (greeting 2, auth 3, request 7 octets) need not have been judged yet (early rejection allowed)",
    "client EOF is sent only after all client bytes (an earlier FIN is a different input); IPv6 textual form compared semantically",
]
LEVEL_TEXT = (
    "Exploration: generated and mutated SOCKS5 handshakes are replayed through the real layer under 1-byte delivery, single split points "
    "(all of them for short inputs in the thorough tier), random cuts and random completion orders; an independent RFC reader decides the "
    "required outcome and all executions of one input must agree byte for byte."
)
LEVEL_NOTE = "Trusted: vf/ref/c21_socks5.py, vf/sansio.py's model of ConnectionHandler; the recorder child relays through the real TCPLayer."


class Rec(layer.Layer):
    """Recorder child: logs every event the SOCKS layer hands to 'the next layer', relays via a real TCPLayer."""

    def __init__(self, context, log):
        super().__init__(context)
        self.log = log
        self.inner = TCPLayer(context, ignore=True)

    def _handle_event(self, event):
        if isinstance(event, events.Start):
            self.log.append(("start", self.context.server.address))
        elif isinstance(event, events.DataReceived):
            self.log.append(("data", event.connection is self.context.client, bytes(event.data)))
        elif isinstance(event, events.ConnectionClosed):
            self.log.append(("closed", event.connection is self.context.client))
        yield from self.inner.handle_event(event)


# ------------------------------------------------------------------------------------------------ generator
HOSTS = [b"example.com", b"a", b"xn--bcher-kva.example", b"EXAMPLE.org", b"127.0.0.1", b"host_with_underscore.test", b"a." * 100 + b"com", b"x" * 255, b"::1", b"[::1]"]


def gen_case(r):
    auth = r.random() < 0.4
    U = r.choice(["user", "u", "bob", "élève", "漢", "a" * 255, "name with space"])
    P = r.choice(["pass", "p", "s3cret:with:colons", "üñî", "b" * 255, "p w"])
    feats = []
    # greeting
    ver = 5 if r.random() < 0.94 else r.choice([4, 0, 1, 0x47, 0xFF])
    pool = [0, 2] if r.random() < 0.93 else []
    if r.random() < 0.3:
        pool = [0] if r.random() < 0.5 else [2]
    extra = [r.randrange(256) for _ in range(r.choice([0, 0, 1, 3, 253]))]
    if r.random() < 0.05:
        extra = [m for m in extra if m not in (0, 2)]
        pool = []
    methods = (pool + extra)[:255]
    r.shuffle(methods)
    greet = bytes([ver, len(methods)]) + bytes(methods)
    # auth
    authmsg = b""
    if auth:
        k = r.random()
        if k < 0.6:
            u, p = U.encode(), P.encode()
        elif k < 0.7:
            u, p = U.encode(), P.encode() + b"x"
        elif k < 0.8:
            u, p = b"", b""
            feats.append("auth-empty")
        elif k < 0.9:
            u, p = bytes(r.randrange(256) for _ in range(r.choice([1, 3, 255]))), bytes(r.randrange(256) for _ in range(r.choice([0, 1, 255])))
        else:
            u, p = P.encode(), U.encode()
        u, p = u[:255], p[:255]
        aver = 1 if r.random() < 0.85 else r.choice([0, 5, 2])
        authmsg = bytes([aver, len(u)]) + u + bytes([len(p)]) + p
    # request
    rver = 5 if r.random() < 0.93 else r.choice([4, 0, 1])
    cmd = 1 if r.random() < 0.85 else r.choice([2, 3, 0, 4, 0xFF])
    rsv = 0 if r.random() < 0.95 else r.choice([1, 0xFF])
    atyp = r.choice([1, 3, 3, 4]) if r.random() < 0.88 else r.choice([0, 2, 5, 6, 0xFF])
    if atyp == 1:
        addr = bytes(r.randrange(256) for _ in range(4)) if r.random() < 0.7 else r.choice([b"\x7f\x00\x00\x01", b"\x00\x00\x00\x00", b"\xff\xff\xff\xff"])
    elif atyp == 4:
        addr = r.choice([bytes(r.randrange(256) for _ in range(16)), b"\x00" * 15 + b"\x01", b"\x00" * 10 + b"\xff\xff\x01\x02\x03\x04", b"\x20\x01\x0d\xb8" + b"\x00" * 12, b"\x00" * 16,
                         b"\xfe\x80" + b"\x00" * 6 + bytes(r.randrange(256) for _ in range(8))])
    elif atyp == 3:
        k = r.random()
        if k < 0.75:
            h = r.choice(HOSTS)
        elif k < 0.85:
            h = b""
        elif k < 0.93:
            h = bytes(r.randrange(256) for _ in range(r.choice([1, 5, 255])))
        else:
            h = "bücher.example".encode("utf8")
        addr = bytes([len(h)]) + h
    else:
        addr = bytes(r.randrange(256) for _ in range(r.choice([0, 1, 4, 16, 30])))
    port = r.choice([80, 443, 0, 65535, 256, 1, 0x1F90, r.randrange(65536)])
    req = bytes([rver, cmd, rsv, atyp]) + addr + port.to_bytes(2, "big")
    # trailing payload
    k = r.random()
    if k < 0.3:
        rest = b""
    elif k < 0.5:
        rest = r.choice([b"GET / HTTP/1.1\r\nHost: example.com\r\n\r\n", b"\x16\x03\x01\x00\x05hello", b"\x05\x01\x00", b"\x05\x01\x00\x01\x01\x02\x03\x04\x00\x50", b"\x00"])
    else:
        rest = bytes(r.randrange(256) for _ in range(r.choice([1, 2, 7, 40, 200])))
    data = greet + authmsg + req + rest
    # mutations
    k = r.random()
    if k < 0.12 and len(data) > 1:
        cutat = r.randrange(0, len(data))
        data = data[:cutat]
        feats.append("truncated")
    elif k < 0.2:
        i = r.randrange(len(data))
        data = data[:i] + bytes([r.randrange(256)]) + data[i + 1 :]
        feats.append("byte-changed")
    elif k < 0.24:
        i = r.randrange(len(data))
        data = data[:i] + data[i + 1 :]
        feats.append("byte-deleted")
    elif k < 0.28:
        i = r.randrange(len(data) + 1)
        data = data[:i] + bytes([r.randrange(256)]) + data[i:]
        feats.append("byte-inserted")
    elif k < 0.30:
        data = r.choice([b"GET / HTTP/1.1\r\nHost: example.com\r\n\r\n", b"CONNECT example.com:443 HTTP/1.1\r\n\r\n", b"\x04\x01\x00\x50\x01\x02\x03\x04user\x00", b"\x16\x03\x01\x00\x2e\x01\x00\x00\x2a", b""])
        feats.append("foreign-protocol")
    return {
        "data": data,
        "auth": auth,
        "U": U,
        "P": P,
        "strategy": r.choice(["eager", "lazy"]),
        "connect_fail": r.random() < 0.2,
        "client_eof": r.random() < 0.35,
        "server_payload": bytes(r.randrange(256) for _ in range(r.choice([0, 1, 30, 120]))),
        "server_eof": r.random() < 0.3,
        "decide_after": r.choice([1, 1, 2, 5]),
        "feats": feats,
    }


# ------------------------------------------------------------------------------------------------ execution
def execute(spec, opts, rng, seg, schedule, delay_auth):
    log = []
    opened = []
    auth_seen = []

    def policy(drv, hook):
        if hook.name == "socks5_auth":
            d = hook.data
            auth_seen.append((d.username, d.password))
            d.valid = d.username == spec["U"] and d.password == spec["P"]
            return "delay" if delay_auth else None
        if hook.name == "next_layer":
            nl = hook.data
            if nl.layer is None and (len(nl.data_client()) >= spec["decide_after"] or nl.data_server()):
                nl.layer = Rec(nl.context, log)
        return None

    def open_plan(drv, conn, n):
        opened.append(conn.address)
        return "Connection refused (injected)" if spec["connect_fail"] else None

    def server_factory(drv, conn):
        segs = peers.cut(spec["server_payload"], rng, "random")
        # orderly close only: the server's FIN is delivered after everything the client sent was processed
        # (simultaneous half-closes while a next_layer hook is pending are TCPLayer's business, see C19)
        quiet = lambda drv: not drv.inbox[drv.client] and not any(p.kind == "hook" for p in drv.pending)
        return sansio.ScriptPeer(segs + ([(sansio.EOF, quiet)] if spec["server_eof"] else []))

    d = sansio.Driver(
        lambda c: modes.Socks5Proxy(c),
        client=sansio.make_client("socks5"),
        options=opts,
        rng=rng,
        addons=[],
        policy=policy,
        server_factory=server_factory,
        open_plan=open_plan,
        schedule=schedule,
        max_steps=8000,
    )
    segs = peers.cut(spec["data"], rng, seg)
    if spec["client_eof"]:
        segs = segs + [sansio.EOF]
    cp = sansio.ScriptPeer(segs)
    d.attach_client_peer(cp)
    d.start()
    d.run()
    pre = {
        "client_closes": sum(1 for x in d.log if x[0] == "cmd" and x[2] in ("CloseConnection(Client)", "CloseTcpConnection(Client)")),
        "client_rx": bytes(d.out[d.client]),
        "client_closed": cp.got_eof and cp.closed_by_proxy,
        "client_state_closed": d.client.state is ConnectionState.CLOSED,
    }
    d.teardown()
    child_rx = b"".join(x[2] for x in log if x[0] == "data" and x[1])
    server_rx = b"".join(bytes(d.out[s]) for s in d.servers)
    out = {
        "client_rx": bytes(d.out[d.client]),
        "child_rx": child_rx,
        "child_started": [x[1] for x in log if x[0] == "start"],
        "server_rx": server_rx,
        "opened": list(opened),
        "address": d.context.server.address,
        "client_closed": pre["client_closed"],
        "client_closes": pre["client_closes"],
        "client_state_closed": pre["client_state_closed"],
        "auth_seen": auth_seen,
    }
    return d, out


def outcome_key(o, spec):
    # lazy + refused connect: the proxy closes the client as soon as the child's connect fails; client bytes still in flight
    # are legitimately never read, so the child's byte count depends on timing (it must be a prefix, checked separately)
    child = o["child_rx"] if not (spec["strategy"] == "lazy" and spec["connect_fail"]) else None


def match_rejection(rest_bytes: bytes, codes, stage):
    """Do the bytes after the mandatory replies form one acceptable rejection?"""
    for c in codes:
        if c == b"":
            if rest_bytes == b"":
                return True
            continue
        if not rest_bytes.startswith(c):
            continue
        if stage == "request":
            rep = ref.parse_reply(rest_bytes)
            if rep is not None and rep[4] == len(rest_bytes):
                return True
        else:
            # method-selection / auth-status message: the first two octets decide (DESIGN 3.7: an over-long message is tolerated)
            return True
    return False


def check_outcome(ctx, spec, an, o, d, witness):
    """Reference verdict vs. one execution. Returns list of (kind, detail)."""
    bad = []
    ctx.count("totality")
    if d.exceptions:
        bad.append(("exception-escaped-layer", [e[:2] for e in d.exceptions]))
    if d.anomalies:
        bad.append(("driver-anomaly", d.anomalies[:3]))
    if an["verdict"] == "incomplete" and spec["client_eof"]:
        # the client went away in the middle of (or exactly between) handshake messages: the proxy must let go of the connection
        # at once -- exactly one close of the client, before any teardown by a timeout -- whatever the offset of the cut
        ctx.count("eof_during_handshake")
        if spec.get("boundary"):
            ctx.count("eof_on_message_boundary")
        if o["client_closes"] != 1 or not o["client_state_closed"]:
            bad.append(("client-eof-during-handshake-not-closed" if o["client_closes"] == 0 else "client-closed-more-than-once",
                        {"closes": o["client_closes"], "stage": an["stage"], "cut_at": len(spec["data"]), "boundary": spec.get("boundary")}))
    if an["lenient"]:
        ctx.count("lenient_inputs")
        return bad
    must = b"".join(an["replies"])
    rx = o["client_rx"]
    if not rx.startswith(must):
        bad.append(("mandatory-replies-missing-or-wrong", {"expected_prefix": must, "got": rx[:40]}))
        return bad
    tail = rx[len(must) :]
    v = an["verdict"]
    if v == "accept":
        dest = an["dest"]
        rep = ref.parse_reply(tail)
        eager = spec["strategy"] == "eager"
        if eager and spec["connect_fail"]:
            ctx.count("connect_fail")
            if rep is None or rep[0] == 0 or rep[4] != len(tail):
                bad.append(("connect-failure-reply-malformed", {"tail": tail[:40]}))
            if not o["client_closed"]:
                bad.append(("connect-failure-client-not-closed", None))
            if o["child_rx"] or o["server_rx"]:
                bad.append(("data-relayed-after-connect-failure", None))
            if len(o["opened"]) != 1 or not ref.dest_matches(dest, o["opened"][0]):
                bad.append(("connect-target-differs", {"opened": o["opened"], "requested": repr(dest)}))
            return bad
        ctx.count("accept")
        if an["rest"]:
            ctx.count("accept.trailing")
        if rep is None or rep[0] != 0:
            bad.append(("success-reply-malformed-or-missing", {"tail": tail[:40]}))
            return bad
        after = tail[rep[4] :]
        if not ref.dest_matches(dest, o["address"]):
            bad.append(("server-address-differs", {"address": o["address"], "requested": repr(dest)}))
        for a in o["opened"] + o["child_started"]:
            if not ref.dest_matches(dest, a):
                bad.append(("connect-target-differs", {"opened": a, "requested": repr(dest)}))
        lazy_fail = not eager and spec["connect_fail"]
        if lazy_fail and an["rest"].startswith(o["child_rx"]) and o["child_rx"]:
            pass
        elif o["child_rx"] != an["rest"]:
            bad.append(("child-data-differs", {"expected": an["rest"][:80], "got": o["child_rx"][:80], "len": (len(an["rest"]), len(o["child_rx"]))}))
        server_up = (eager or bool(an["rest"])) and not spec["connect_fail"]
        n_open = 1 if (eager or an["rest"]) else 0
        if len(o["opened"]) != n_open:
            bad.append(("unexpected-number-of-connects", {"opened": o["opened"], "expected": n_open}))
        if server_up:
            if o["server_rx"] != an["rest"]:
                bad.append(("server-data-differs", {"expected": an["rest"][:80], "got": o["server_rx"][:80]}))
            if after != spec["server_payload"]:
                bad.append(("client-data-after-reply-differs", {"expected": spec["server_payload"][:80], "got": after[:80]}))
        else:
            if o["server_rx"] or after:
                bad.append(("data-without-server", {"server_rx": o["server_rx"][:40], "after": after[:40]}))
            if spec["connect_fail"] and an["rest"] and not o["client_closed"]:
                bad.append(("lazy-connect-failure-client-not-closed", None))
        return bad
    no_side_effects = not o["opened"] and not o["child_rx"] and not o["server_rx"] and not o["child_started"] and not o["address"]
    if v == "reject":
        ctx.count("reject." + an["stage"])
        if not match_rejection(tail, an["codes"], an["stage"]):
            bad.append(("rejection-reply-not-applicable", {"why": an["why"], "tail": tail[:40], "acceptable_prefixes": sorted(an["codes"])[:10]}))
        if not o["client_closed"]:
            bad.append(("rejected-but-not-closed", {"why": an["why"]}))
        if not no_side_effects:
            bad.append(("rejected-but-connected-or-relayed", {"opened": o["opened"], "address": o["address"], "child": o["child_rx"][:40]}))
        return bad
    # incomplete
    ctx.count("incomplete")
    if tail:
        if not (an["early"] and match_rejection(tail, an["early"], an["stage"]) and o["client_closed"]):
            bad.append(("reply-to-incomplete-message", {"why": an["why"], "tail": tail[:40]}))
    if not no_side_effects:
        bad.append(("incomplete-but-connected-or-relayed", {"opened": o["opened"], "address": o["address"]}))
    return bad


def classify(spec, an, kind):
    return None


def matrix_streams():
    """Fixed valid streams: (name, auth, U, P, greeting, auth message, request) for every auth variant x address type."""
    reqs = {
        "v4": b"\x05\x01\x00\x01\x7f\x00\x00\x01\x00\x50",
        "domain": b"\x05\x01\x00\x03\x0bexample.com\x01\xbb",
        "v6": b"\x05\x01\x00\x04" + b"\x20\x01\x0d\xb8" + b"\x00" * 11 + b"\x01" + b"\x1f\x90",
    }
    out = []
    for aname, req in reqs.items():
        out.append((f"noauth/{aname}", False, "u", "p", b"\x05\x01\x00", b"", req))
        out.append((f"noauth-2methods/{aname}", False, "u", "p", b"\x05\x02\x02\x00", b"", req))
        for cname, U, P in (("short", "u", "p"), ("typical", "user", "s3cret:with:colons"), ("long", "a" * 255, "b" * 255), ("utf8", "élève", "üñî")):
            u, pw = U.encode(), P.encode()
            out.append((f"auth-{cname}/{aname}", True, U, P, b"\x05\x02\x00\x02", bytes([1, len(u)]) + u + bytes([len(pw)]) + pw, req))
        out.append((f"auth-wrong-creds/{aname}", True, "user", "pass", b"\x05\x01\x02", b"\x01\x04user\x05wrong", req))
    return out


def eof_matrix(ctx, opts):
    """Client EOF at every offset of valid streams (quick: every message boundary, its neighbours and the first bytes; thorough: every
    offset), whole / 1-byte / random segmentations, eager and lazy.  Item k runs on worker k % nworkers."""
    k = -1
    for name, auth, U, P, greet, authmsg, req in matrix_streams():
        full = greet + authmsg + req
        bounds = [0, len(greet)] + ([len(greet) + len(authmsg)] if authmsg else [])
        if ctx.tier == "quick":
            offs = sorted({o for b in bounds for o in (b - 1, b, b + 1) if 0 <= o < len(full)} | {1, 2, len(full) - 1, len(full) - 2})
        else:
            offs = list(range(len(full)))
        for off in offs:
            k += 1
            if k % ctx.nworkers != ctx.worker:
                continue
            r = ctx.case_rng(k, "eofmatrix")
            spec = {"data": full[:off], "auth": auth, "U": U, "P": P, "strategy": ("eager", "lazy")[k % 2], "connect_fail": False, "client_eof": True,
                    "server_payload": b"", "server_eof": False, "decide_after": 1, "feats": ["eof-matrix"], "boundary": off in bounds}
            opts.update(connection_strategy=spec["strategy"], proxyauth="any" if auth else None)
            an = ref.analyse(spec["data"], auth, lambda u, p: u == U.encode() and p == P.encode())
            nvar = 0
            for seg, sched, delay_auth in (("whole", "fifo", False), ("bytes", "fifo", False), ("random", "random", True), ("random", "random", False)):
                d, o = execute(spec, opts, r, seg, sched, delay_auth)
                if d.budget_exceeded:
                    ctx.count("inconclusive_cases")
                    continue
                nvar += 1
                witness = {"matrix": name, "data": spec["data"], "cut_at": off, "of": len(full), "message_boundary": spec["boundary"], "auth_required": auth, "strategy": spec["strategy"],
                           "seg": seg, "schedule": sched, "reference": {"verdict": an["verdict"], "stage": an["stage"], "why": an["why"]}, "client_rx": o["client_rx"][:40], "closes": o["client_closes"]}
                stop = False
                for kind, detail in check_outcome(ctx, spec, an, o, d, witness):
                    ctx.violation(kind, {**witness, "detail": detail}, classify(spec, an, kind))
                    stop = True
                if stop:
                    break
            ctx.case(("eof-matrix", name.split("/")[0], name.split("/")[1], an["verdict"], an["stage"], spec["boundary"], spec["strategy"]), nvar >= 3,
                     {"matrix": name, "cut_at": off, "of": len(full), "boundary": spec["boundary"], "verdict": an["verdict"], "stage": an["stage"]})


def run(ctx):
    from mitmproxy.addons.proxyauth import ProxyAuth

    tctx, _ = sansio.addon_context(ProxyAuth)
    opts = tctx.options
    defaults = {"connection_strategy": opts.connection_strategy, "proxyauth": opts.proxyauth}
    try:
        if ctx.only_case is None or ctx.only_case < 0:
            eof_matrix(ctx, opts)  # matrix violations carry case index -1: a replay of such a witness re-runs the (deterministic) matrix
            if ctx.only_case is not None:
                return
        for i in ctx.cases():
            r = ctx.rng
            spec = gen_case(r)
            data = spec["data"]
            opts.update(connection_strategy=spec["strategy"], proxyauth="any" if spec["auth"] else None)
            an = ref.analyse(data, spec["auth"], lambda u, p: u == spec["U"].encode() and p == spec["P"].encode())
            spec["decide_after"] = max(1, min(spec["decide_after"], len(an["rest"])))
            if an["verdict"] == "accept" and not an["rest"] and spec["client_eof"]:
                # nothing follows the request and the client half-closes: the still undecided NextLayer child aborts the
                # connection (documented behaviour); how much server payload got through before that is pure timing
                spec["server_payload"] = b""
            variants = [("whole", "fifo", False), ("bytes", "fifo", False), ("bytes", "random", True), ("whole", "random", True)]
            variants += [("random", "random", r.random() < 0.5) for _ in range(3 if ctx.tier == "quick" else 6)]
            if len(data) > 1:
                pts = list(range(1, len(data)))
                if ctx.tier == "quick":
                    pts = r.sample(pts, min(6, len(pts)))
                elif len(data) > 120:
                    pts = r.sample(pts, 40)
                variants += [(p, r.choice(["fifo", "random"]), r.random() < 0.3) for p in pts]
            base = None
            nvar = 0
            stop = False
            for seg, sched, delay_auth in variants:
                try:
                    d, o = execute(spec, opts, r, seg, sched, delay_auth)
                except Exception as e:
                    ctx.violation("harness-or-layer-crash", {"data": data, "seg": str(seg), "exc": repr(e)})
                    break
                if d.budget_exceeded:
                    ctx.count("inconclusive_cases")
                    continue
                nvar += 1
                if o["auth_seen"]:
                    ctx.count("auth_hook")
                witness = {"data": data, "auth_required": spec["auth"], "strategy": spec["strategy"], "connect_fail": spec["connect_fail"], "client_eof": spec["client_eof"],
                           "seg": seg if isinstance(seg, str) else f"split@{seg}", "schedule": sched, "reference": {"verdict": an["verdict"], "stage": an["stage"], "why": an["why"], "dest": repr(an["dest"]), "rest_len": len(an["rest"]), "lenient": sorted(an["lenient"])},
                           "client_rx": o["client_rx"][:80], "address": o["address"], "opened": o["opened"]}
                for kind, detail in check_outcome(ctx, spec, an, o, d, witness):
                    ctx.violation(kind, {**witness, "detail": detail}, classify(spec, an, kind))
                    stop = True
                ctx.seen("layer_states", repr(d.top))
                if base is None:
                    base = (seg, outcome_key(o, spec), o)
                else:
                    ctx.count("segmentation")
                    if outcome_key(o, spec) != base[1]:
                        diff = [k for k in ("client_rx", "child_rx", "server_rx", "opened", "address", "child_started", "auth_seen") if o[k] != base[2][k]]
                        ctx.violation("outcome-depends-on-segmentation:" + "+".join(diff), {**witness, "base_seg": str(base[0]), "diff": {k: (repr(base[2][k])[:200], repr(o[k])[:200]) for k in diff}}, classify(spec, an, "segmentation"))
                        stop = True
                if stop:
                    break
            trailing = an["verdict"] == "accept" and bool(an["rest"])
            nontrivial = nvar >= 3 and (trailing or an["verdict"] in ("reject", "incomplete") or (an["verdict"] == "accept" and spec["connect_fail"]))
            sig = (an["verdict"], an["stage"], an["why"], an["atyp"], spec["auth"], spec["strategy"], spec["connect_fail"], bool(an["rest"]), tuple(spec["feats"]), tuple(sorted(an["lenient"])), spec["client_eof"])
            ctx.case(sig, nontrivial, {"data": data[:120], "auth": spec["auth"], "strategy": spec["strategy"], "verdict": an["verdict"], "stage": an["stage"], "why": an["why"], "dest": repr(an["dest"]), "variants": nvar})
    finally:
        opts.update(**defaults)
