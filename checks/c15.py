"""C15 -- upstream certificates are verified unless ssl_insecure is set.

A real ServerTLSLayer is driven sans-io (own driver loop); its tls_start_server hook is answered by the real
TlsConfig addon (inside taddons.context, options set per cell); the peer is an in-memory ssl.SSLObject server
(MemoryBIO) presenting a chain minted with `cryptography` for the cell. Ground truth is by construction: every
leaf class carries (trust anchor, chain complete, time valid, names identity) flags, the expected verdict is
ssl_insecure or (anchor trusted by the cell's trust configuration and chain complete and time valid and identity named).

Monitors: accept_when_expected / reject_when_expected (handshake outcome seen by the child layer),
failure_signalled (err string, tls_failed_server hook, server.error, CloseConnection, no tls_established_server),
no_appdata_on_reject (plaintext decrypted by the peer), appdata_delivered (tagged bytes arrive exactly once on accept).
"""
from __future__ import annotations

import atexit
import logging
import ssl

from mitmproxy import connection
from mitmproxy.addons import tlsconfig
from mitmproxy.proxy import commands
from mitmproxy.proxy import context
from mitmproxy.proxy import events
from mitmproxy.proxy import layer
from mitmproxy.proxy.layers import tls
from mitmproxy.test import taddons

from vf.gen.c15_pki import DAY
from vf.gen.c15_pki import Pki
from vf.gen.c15_pki import now

PROPERTY = "C15"
LEVEL = "exploration"
ENGINE = "sansio"
TECHNIQUE = "constructed certificate matrix with ground truth by construction; real OpenSSL peers in memory"
BUDGET = {"quick": (520, 15), "thorough": (40_000, 200)}
WORKERS = {"quick": 4, "thorough": 16}
REQUIRED = ["accept_when_expected", "reject_when_expected", "failure_signalled", "no_appdata_on_reject", "appdata_delivered", "insecure_waives", "foreign_anchor_vs_trust_config", "hook_fault_cells", "quic_cells", "quic_sni_none_on_entry", "first_connection_of_fresh_context", "later_connection_same_context"]
RULE = (
    "cell = (leaf class x identity form x identity source x trust configuration x ssl_insecure); leaf classes: SAN exact / "
    "among many / other name / left-most wildcard / wildcard spanning two labels / partial wildcards / inner wildcard / CN only / "
    "CN with non-DNS SAN / IP SAN for a DNS identity / expired / not yet valid / self-signed / other root / certifi stand-in root / "
    "directory-only root / missing, supplied, "
    "supplied+root, expired intermediate, and for IP identities IP SAN exact / among / other / IP as dNSName / CN only / wildcard; "
    "identity forms: DNS name, upper-case, A-label, U-label, IPv4, IPv6; identity sources: server.sni, client.sni (address names "
    "something else), server address; trust: CA file, hashed CA directory only, default store (certifi stand-in root), CA file of "
    "another root, CA file + hashed directory of a second CA; issuers: configured CA, directory-only CA, certifi stand-in CA, "
    "unknown CA, self-signed; every class x identity form is also run under a CA file path "
    "never used before, i.e. as the FIRST connection built from a freshly created (lru-cached) SSL.Context and again as the second "
    "connection from that context, with identical strict verdicts required; plus hook-fault cells: an SNI set by an addon that is empty / has a 64-byte or empty label / a NUL / "
    "non-IDNA characters, so that the real tls_start_server hook (dispatched through AddonManager.trigger, exceptions swallowed "
    "as in production) fails after creating the SSL object, crossed with certificates that match / do not match the server "
    "address; plus a QUIC leg: real ServerQuicLayer + TlsConfig.quic_start_server (same dispatch) against an in-process "
    "aioquic server, SNI preset vs. None on entry (derived by the hook from the address or the client's SNI) x matching / other "
    "name / wildcard / CN-only / expired / other CA / certifi stand-in / intermediate classes x ssl_insecure. The matrix (complete cross of class x identity form x source x ssl_insecure under the CA-file "
    "configuration, class x identity form under every other trust configuration) "
    "is enumerated once with canonical names (both tiers), further cases repeat random cells with random labels, "
    "validity windows, TLS 1.2/1.3 peers, lazy/eager connection flow and random segmentation of the server flight. "
    "distinct = cell (+flow, TLS version for the random part); every cell is non-trivial (a full handshake attempt is made)"
)
ASSUMPTIONS = [
    "expected verdicts follow RFC 5280 path validation and RFC 6125 name matching with the statement's restrictions (no partial wildcards, no CN fallback); ambiguous cells (e.g. '*.tld', trailing dots) are not generated",
    "validity windows are days away from the wall clock, so the real time used by OpenSSL cannot flip a verdict",
    "the default trust store is a stand-in: certifi.where() is pointed at a bundle holding one throw-away root (C) whose key the harness owns; the real certifi bundle is not consulted",
]
LEVEL_TEXT = (
    "Exploration over a constructed matrix: every class x name form x trust x insecure cell is executed with canonical "
    "names in both tiers and the expected verdict is known by construction, so each cell is decided exactly; names, "
    "windows, versions and segmentation beyond the canonical ones are sampled."
)
LEVEL_NOTE = "trusted: cryptography (minting), Python ssl/OpenSSL as the server peer, the own layer driver; expected verdicts are a table, no general matcher"

TAG = b"C15-APPDATA-0123456789"

# leaf classes: name -> (issuer, chain, time, names_ok)   chain: which extra certs are sent
DNS_CLASSES = {
    "san-exact": ("root_a", [], "ok", True),
    "san-among-many": ("root_a", [], "ok", True),
    "san-other": ("root_a", [], "ok", False),
    "wildcard-leftmost": ("root_a", [], "ok", True),
    "wildcard-two-labels": ("root_a", [], "ok", False),
    "wildcard-partial-prefix": ("root_a", [], "ok", False),
    "wildcard-partial-suffix": ("root_a", [], "ok", False),
    "wildcard-inner": ("root_a", [], "ok", False),
    "cn-only": ("root_a", [], "ok", False),
    "cn-with-nondns-san": ("root_a", [], "ok", False),
    "ipsan-for-dns-identity": ("root_a", [], "ok", False),
    "expired": ("root_a", [], "expired", True),
    "not-yet-valid": ("root_a", [], "future", True),
    "self-signed": ("self", [], "ok", True),
    "other-root": ("root_b", [], "ok", True),
    "certifi-root": ("root_c", [], "ok", True),
    "dir-only-root": ("root_d", [], "ok", True),
    "missing-intermediate": ("int_a", [], "ok", True),
    "with-intermediate": ("int_a", ["int_a"], "ok", True),
    "with-intermediate-and-root": ("int_a", ["int_a", "root_a"], "ok", True),
    "expired-intermediate": ("int_a_expired", ["int_a_expired"], "ok", True),
}
IP_CLASSES = {
    "ipsan-exact": ("root_a", [], "ok", True),
    "ipsan-among-many": ("root_a", [], "ok", True),
    "ipsan-other": ("root_a", [], "ok", False),
    "ip-as-dnsname": ("root_a", [], "ok", False),
    "cn-only-ip": ("root_a", [], "ok", False),
    "wildcard-vs-ip": ("root_a", [], "ok", False),
    "ipsan-expired": ("root_a", [], "expired", True),
    "ipsan-other-root": ("root_b", [], "ok", True),
    "ipsan-certifi-root": ("root_c", [], "ok", True),
    "ipsan-with-intermediate": ("int_a", ["int_a"], "ok", True),
}
ID_FORMS = ["dns", "upper", "idn-a", "idn-u", "ipv4", "ipv6"]
SOURCES = ["server.sni", "client.sni", "address"]
# identity forms under which the real tls_start_server hook fails part-way (after it has created the SSL object): an SNI set
# by an addon that is empty or cannot be turned into a TLS host name; the server address is a normal name / IP.
# "raises": the hook raises on the unchanged tree (the exception is swallowed by the addon manager like in production).
FAULT_FORMS = {
    "fault-sni-empty": ("", "dns"),
    "fault-sni-empty-ipaddr": ("", "ip"),
    "fault-sni-label64": ("a" * 64 + ".svc.example.test", "dns"),
    "fault-sni-emptylabel": ("www..svc.example.test", "dns"),
    "fault-sni-nul": ("www\x00.svc.example.test", "dns"),
    "fault-sni-xn-garbage": ("xn--zz--zz\u00fc.svc.example.test", "dns"),
    "fault-sni-none-set-late": (None, "dns"),
}
FAULT_DNS_CLASSES = ["san-exact", "san-other", "wildcard-leftmost", "wildcard-two-labels", "cn-only", "other-root", "expired"]
FAULT_IP_CLASSES = ["ipsan-exact", "ipsan-other", "ip-as-dnsname", "ipsan-other-root"]
TRUSTS = ["cafile", "cadir", "default", "cafile-b", "file+dir", "cafile-fresh"]
# trust anchors of each configuration: A = the configured CA, B = another private root, C = stand-in for the certifi
# bundle (only in force when neither a CA file nor a CA directory is configured), D = a CA that only lives in a hashed directory
TRUST_ANCHORS = {"cafile": {"A"}, "cadir": {"A"}, "default": {"C"}, "cafile-b": {"B"}, "file+dir": {"A", "D"},
                 # the configured CA under a path never used before: the cell's connection is the FIRST one built from a freshly
                 # created (lru-cached) SSL.Context; it is followed by a second, identical connection from the same context
                 "cafile-fresh": {"A"}}


def full_product():
    """Every (class, identity form, identity source, trust configuration, ssl_insecure) combination (random part)."""
    return [
        (cls, idf, src, trust, insecure)
        for idf in ID_FORMS
        for cls in (IP_CLASSES if idf in ("ipv4", "ipv6") else DNS_CLASSES)
        for src in SOURCES
        for trust in TRUSTS
        for insecure in (False, True)
    ] + fault_cells() * 4 + quic_cells() * 2


def fault_cells():
    return [
        (cls, idf, "server.sni", trust, False)
        for idf, (_, kind) in FAULT_FORMS.items()
        for cls in (FAULT_IP_CLASSES if kind == "ip" else FAULT_DNS_CLASSES)
        for trust in ("cafile", "cadir")
    ]


QUIC_MODES = ["quic:preset", "quic:address", "quic:client.sni"]  # server.sni set before the hook / None on entry
QUIC_DNS_CLASSES = ["san-exact", "san-among-many", "san-other", "wildcard-leftmost", "wildcard-two-labels", "cn-only", "expired", "other-root",
                    "certifi-root", "missing-intermediate", "with-intermediate"]
QUIC_IP_CLASSES = ["ipsan-exact", "ipsan-other", "ip-as-dnsname", "ipsan-other-root"]


def quic_cells():
    """QUIC leg: real ServerQuicLayer + TlsConfig.quic_start_server against an in-process aioquic server."""
    cells = []
    for idf in ("dns", "upper", "idn-a", "ipv4", "ipv6"):
        for cls in (QUIC_IP_CLASSES if idf in ("ipv4", "ipv6") else QUIC_DNS_CLASSES):
            for mode in QUIC_MODES:
                for trust, insecure in (("cafile", False), ("cafile", True), ("default", False), ("cadir", False)):
                    cells.append((cls, idf, mode, trust, insecure))
    return cells


def matrix():
    """The part enumerated once per run: class x identity form crossed completely with identity source and ssl_insecure
    under the CA-file configuration, and with every other trust configuration (identity source rotating, which does not
    interact with trust anchors; ssl_insecure on additionally for the default store)."""
    cells = []
    n = 0
    for idf in ID_FORMS:
        classes = IP_CLASSES if idf in ("ipv4", "ipv6") else DNS_CLASSES
        for cls in classes:
            for src in SOURCES:
                for insecure in (False, True):
                    cells.append((cls, idf, src, "cafile", insecure))
            for trust in TRUSTS:
                if trust == "cafile":
                    continue
                if trust == "cafile-fresh" and idf in ("upper", "idn-a"):
                    continue  # fresh-context pairs are enumerated for the dns, idn-u, ipv4 and ipv6 forms; the rest is sampled
                n += 1
                cells.append((cls, idf, SOURCES[n % 3], trust, False))
                if trust == "default":
                    cells.append((cls, idf, SOURCES[(n + 1) % 3], trust, True))
    cells = cells + fault_cells() + quic_cells()
    # fixed permutation: if a loaded machine cuts the quick tier short by time, the executed prefix still samples every leg
    import random

    random.Random(15).shuffle(cells)
    return cells


def rl(r, n=None):
    return "".join(r.choice("abcdefghijklmnopqrstuvwxyz0123456789") for _ in range(n or r.choice([1, 3, 6, 12])))


def identity(idf, r=None):
    """-> (identity string handed to mitmproxy, canonical lower-case A-label / IP string for the certificate)"""
    if idf in FAULT_FORMS:
        sni, kind = FAULT_FORMS[idf]
        if kind == "ip":
            return sni, ("192.0.2.7" if r is None else f"192.0.2.{r.randrange(1, 250)}")
        a, b, c = ("www", "svc", "example") if r is None else ("w" + rl(r), rl(r), rl(r))
        if sni and r is not None:
            sni = sni.replace(".svc.example.test", f".{b}.{c}.test")
        return sni, f"{a}.{b}.{c}.test"
    if idf == "ipv4":
        ip = "192.0.2.7" if r is None else f"192.0.2.{r.randrange(1, 250)}"
        return ip, ip
    if idf == "ipv6":
        ip = "2001:db8::7" if r is None else f"2001:db8::{r.randrange(1, 65000):x}"
        return ip, ip
    a, b, c = ("www", "svc", "example") if r is None else ("w" + rl(r), rl(r), rl(r))
    if idf == "dns":
        h = f"{a}.{b}.{c}.test"
        return h, h
    if idf == "upper":
        h = f"{a}.{b}.{c}.test"
        return h.upper() if r is None or r.random() < 0.5 else h.title(), h
    if idf == "idn-a":
        h = f"xn--bcher-kva.{b}.{c}.test"
        return h, h
    if idf == "idn-u":
        return f"bücher.{b}.{c}.test", f"xn--bcher-kva.{b}.{c}.test"
    raise AssertionError(idf)


def leaf_for(pki: Pki, cls, canon, r=None):
    """Mint the leaf (+chain) of a class for the canonical identity. -> list of certs to present (leaf first)."""
    is_ip = cls in IP_CLASSES
    issuer, chain, time, _ = (IP_CLASSES if is_ip else DNS_CLASSES)[cls]
    kw = {}
    far = 1 if r is None else r.choice([1, 3, 30, 300])
    if time == "expired":
        kw = {"not_before": now() - (far + 30) * DAY, "not_after": now() - (far + 1) * DAY}
    elif time == "future":
        kw = {"not_before": now() + (far + 1) * DAY, "not_after": now() + (far + 30) * DAY}
    elif r is not None:
        kw = {"not_before": now() - r.choice([2, 10, 300]) * DAY, "not_after": now() + r.choice([2, 10, 300]) * DAY}
    cn = "vf leaf"
    sans = None
    if not is_ip:
        first, _, parent = canon.partition(".")
        grand = parent.partition(".")[2]
        if cls in ("san-exact", "expired", "not-yet-valid", "self-signed", "other-root", "certifi-root", "dir-only-root", "missing-intermediate", "with-intermediate", "with-intermediate-and-root", "expired-intermediate"):
            sans = [f"dns:{canon}"]
        elif cls == "san-among-many":
            sans = ["dns:unrelated.test", "ip:198.51.100.1", f"dns:{canon}", "email:a@b.test"]
        elif cls == "san-other":
            sans = [f"dns:other.{parent}", f"dns:{first}.other.test", f"dns:{parent}", f"dns:x{canon}"]
        elif cls == "wildcard-leftmost":
            sans = [f"dns:*.{parent}"]
        elif cls == "wildcard-two-labels":
            sans = [f"dns:*.{grand}"]
        elif cls == "wildcard-partial-prefix":
            sans = [f"dns:{first[0]}*.{parent}"]
        elif cls == "wildcard-partial-suffix":
            sans = [f"dns:*{first[-1]}.{parent}"]
        elif cls == "wildcard-inner":
            p = canon.split(".")
            sans = ["dns:" + ".".join([p[0], "*", *p[2:]])]
        elif cls == "cn-only":
            cn = canon
        elif cls == "cn-with-nondns-san":
            cn = canon
            sans = ["email:admin@" + parent, "uri:https://" + canon + "/"]
        elif cls == "ipsan-for-dns-identity":
            sans = ["ip:192.0.2.7"]
        else:
            raise AssertionError(cls)
    else:
        other = "192.0.2.251" if "." in canon else "2001:db8::fffe"
        if cls in ("ipsan-exact", "ipsan-expired", "ipsan-other-root", "ipsan-certifi-root", "ipsan-with-intermediate"):
            sans = [f"ip:{canon}"]
        elif cls == "ipsan-among-many":
            sans = ["dns:unrelated.test", f"ip:{other}", f"ip:{canon}"]
        elif cls == "ipsan-other":
            sans = [f"ip:{other}", "ip:198.51.100.1" if ":" in canon else "ip:2001:db8::7"]
        elif cls == "ip-as-dnsname":
            sans = [f"dns:{canon}"]
        elif cls == "cn-only-ip":
            cn = canon
        elif cls == "wildcard-vs-ip":
            sans = ["dns:*." + canon.partition(".")[2]] if "." in canon else ["dns:*.db8.test", f"dns:{canon}"]
        else:
            raise AssertionError(cls)
    leaf = pki.leaf(cn=cn, sans=sans, issuer=issuer, **kw)
    extra = [getattr(pki, c) for c in chain]
    if r is not None and len(extra) == 2 and r.random() < 0.3:
        pass  # chain order stays leaf, intermediate, root (Python's ssl sends the file order; reordering is not a valid chain)
    return [leaf, *extra], sans, cn


def expected(cls, trust, insecure, idf=None, src=None):
    """True: must be accepted; False: must be rejected; None: no requirement (hook failed part-way but the certificate
    would have been fine for the address: failing closed and accepting are both within the statement)."""
    issuer, chain, time, names_ok = (IP_CLASSES if cls in IP_CLASSES else DNS_CLASSES)[cls]
    if idf in FAULT_FORMS:
        assert not insecure
        good = expected(cls, trust, False)
        if idf == "fault-sni-xn-garbage":
            return False  # the requested SNI is a name no certificate class here carries
        return None if good else False
    if insecure:
        return True
    if src is not None and src.startswith("quic:") and idf == "idn-a" and cls == "wildcard-leftmost":
        # RFC 6125 6.4.3 leaves wildcard matching against an A-label left-most label to the implementation; aioquic's
        # matcher (service_identity) declines it, OpenSSL allows it: ambiguous cell, no requirement
        return None if expected(cls, trust, False) else False
    anchor = {"root_a": "A", "int_a": "A", "int_a_expired": "A", "root_b": "B", "root_c": "C", "root_d": "D", "self": None}[issuer]
    trusted = anchor in TRUST_ANCHORS[trust]
    chain_ok = issuer in ("root_a", "root_b", "root_c", "root_d") or (issuer == "int_a" and "int_a" in chain)
    return trusted and chain_ok and time == "ok" and names_ok


# ---------------------------------------------------------------------------------------------
# peers and driver
# ---------------------------------------------------------------------------------------------

class Peer:
    """In-memory TLS server (Python ssl over MemoryBIO)."""

    def __init__(self, chain_file, max13: bool):
        self.inc = ssl.MemoryBIO()
        self.out = ssl.MemoryBIO()
        c = ssl.SSLContext(ssl.PROTOCOL_TLS_SERVER)
        c.load_cert_chain(str(chain_file))
        if not max13:
            c.maximum_version = ssl.TLSVersion.TLSv1_2
        self.obj = c.wrap_bio(self.inc, self.out, server_side=True)
        self.handshaken = False
        self.error = None
        self.plain = b""
        self.eof = False

    def step(self) -> bytes:
        if self.error is None and not self.handshaken:
            try:
                self.obj.do_handshake()
                self.handshaken = True
            except ssl.SSLWantReadError:
                pass
            except (ssl.SSLError, OSError) as e:
                self.error = e
        if self.handshaken and self.error is None and not self.eof:
            while True:
                try:
                    d = self.obj.read(65536)
                except ssl.SSLWantReadError:
                    break
                except ssl.SSLZeroReturnError:
                    self.eof = True
                    break
                except (ssl.SSLError, OSError) as e:
                    self.error = e
                    break
                if not d:
                    self.eof = True
                    break
                self.plain += d
        return self.out.read()


class Probe(layer.Layer):
    """Child of the ServerTLSLayer: opens the server connection (lazy flow) and sends tagged application data."""

    def __init__(self, ctx, lazy):
        super().__init__(ctx)
        self.lazy = lazy
        self.completed = []
        self.received = b""
        self.closed = 0
        self.sent = 0

    def _handle_event(self, ev):
        srv = self.context.server
        if isinstance(ev, events.Start):
            if self.lazy:
                err = yield commands.OpenConnection(srv)
                self.completed.append(err)
                if err is None:
                    self.sent += 1
                    yield commands.SendData(srv, TAG)
            elif srv.connected and srv.tls_established:
                self.completed.append(None)
                self.sent += 1
                yield commands.SendData(srv, TAG)
            else:
                self.completed.append(srv.error or "not established")
        elif isinstance(ev, events.DataReceived):
            self.received += ev.data
        elif isinstance(ev, events.ConnectionClosed):
            self.closed += 1


class _LogCapture(logging.Handler):
    def __init__(self):
        super().__init__(level=logging.ERROR)
        self.msgs = []

    def emit(self, record):
        self.msgs.append(record.getMessage()[:160])


_STATE = {}


def state():
    if not _STATE:
        pki = Pki(prefix="vf-c15-")
        atexit.register(pki.cleanup)
        # The public CA bundle is substituted by a stand-in root we hold the key of (we are offline and own no public CA):
        # mitmproxy.net.tls asks certifi.where() for the default store, so "default" trust = {root C}.
        import certifi

        certifi.where = lambda: str(pki.cafile_c)
        ta = tlsconfig.TlsConfig()
        tctx = taddons.context(ta)
        _STATE.update(pki=pki, ta=ta, tctx=tctx)
    return _STATE


def fresh_cafile(pki):
    """A copy of root A under a path no SSL.Context was created for yet (new lru_cache key -> new context)."""
    _STATE["fresh_n"] = _STATE.get("fresh_n", 0) + 1
    p = pki.dir / f"root-a-fresh-{_STATE['fresh_n']}.pem"
    p.write_bytes(pki.cafile_a.read_bytes())
    return p


def run_cell(cell, r, canonical, fresh_path=None):
    """Execute one cell. -> dict with outcome fields (no judgement here)."""
    cls, idf, src, trust, insecure = cell
    if src.startswith("quic:"):
        return run_quic_cell(cell, r, canonical)
    st = state()
    pki, ta, tctx = st["pki"], st["ta"], st["tctx"]
    ident, canon = identity(idf, None if canonical else r)
    certs, sans, cn = leaf_for(pki, cls, canon, None if canonical else r)
    chain_file = pki.chain_file(certs)
    max13 = r.random() < 0.6
    lazy = r.random() < 0.6
    peer = Peer(chain_file, max13)

    tctx.options.update(
        ssl_insecure=insecure,
        ssl_verify_upstream_trusted_ca={"cafile": str(pki.cafile_a), "cafile-b": str(pki.cafile_b), "file+dir": str(pki.cafile_a), "cafile-fresh": str(fresh_path)}.get(trust),
        ssl_verify_upstream_trusted_confdir={"cadir": str(pki.cadir_a), "file+dir": str(pki.cadir_d)}.get(trust),
    )
    client = connection.Client(peername=("198.51.100.7", 51234), sockname=("127.0.0.1", 8080), timestamp_start=1.0, state=connection.ConnectionState.OPEN)
    ctx = context.Context(client, tctx.options)
    srv = ctx.server
    if idf in FAULT_FORMS:
        srv.address = (canon, 443)  # the certificate classes are relative to the address; the SNI is what an addon broke
        srv.sni = ident
        if idf == "fault-sni-none-set-late":
            client.sni = "www\x00.broken.test"  # picked up by the hook because server.sni is None
    elif src == "server.sni":
        srv.address = ("203.0.113.9", 443)
        srv.sni = ident
    elif src == "client.sni":
        srv.address = ("decoy.example.test", 443)
        client.sni = ident
    else:
        srv.address = (ident, 443)
    if not lazy:
        srv.state = connection.ConnectionState.OPEN
        srv.timestamp_start = 1.0
    top = tls.ServerTLSLayer(ctx)
    probe = Probe(ctx, lazy)
    top.child_layer = probe

    o = {"established": 0, "failed": 0, "closed": 0, "start_hooks": 0, "logs": [], "to_peer": 0, "steps": 0, "addon_errors": [], "failed_err": None}
    inbox = []  # bytes from mitmproxy to the peer

    def pump(ev):
        pending = [ev]
        while pending:
            e = pending.pop(0)
            for cmd in top.handle_event(e):
                o["steps"] += 1
                if o["steps"] > 5000:
                    raise RuntimeError("driver step budget exceeded")
                if isinstance(cmd, tls.TlsStartServerHook):
                    o["start_hooks"] += 1
                    # production dispatch: AddonManager.trigger logs and swallows exceptions raised by the hook
                    cap = _LogCapture()
                    logging.getLogger("mitmproxy.addonmanager").addHandler(cap)
                    try:
                        tctx.master.addons.trigger(cmd)
                    finally:
                        logging.getLogger("mitmproxy.addonmanager").removeHandler(cap)
                    o["addon_errors"].extend(cap.msgs)
                    pending.append(events.HookCompleted(cmd))
                elif isinstance(cmd, tls.TlsEstablishedServerHook):
                    o["established"] += 1
                    pending.append(events.HookCompleted(cmd))
                elif isinstance(cmd, tls.TlsFailedServerHook):
                    o["failed"] += 1
                    o["failed_err"] = cmd.data.conn.error
                    pending.append(events.HookCompleted(cmd))
                elif isinstance(cmd, commands.StartHook):
                    pending.append(events.HookCompleted(cmd))
                elif isinstance(cmd, commands.OpenConnection):
                    cmd.connection.state = connection.ConnectionState.OPEN
                    cmd.connection.timestamp_start = 1.0
                    pending.append(events.OpenConnectionCompleted(cmd, None))
                elif isinstance(cmd, commands.SendData):
                    if cmd.connection is srv:
                        inbox.append(cmd.data)
                        o["to_peer"] += len(cmd.data)
                elif isinstance(cmd, commands.CloseConnection):
                    if cmd.connection is srv:
                        srv.state = connection.ConnectionState.CLOSED
                        o["closed"] += 1
                elif isinstance(cmd, commands.Log):
                    o["logs"].append(cmd.message[:160])

    pump(events.Start())
    for _ in range(40):
        if not inbox:
            break
        while inbox:
            peer.inc.write(inbox.pop(0))
        back = peer.step()
        if back and srv.state is not connection.ConnectionState.CLOSED:
            # random segmentation of the server flight
            cuts = sorted({r.randrange(1, len(back)) for _ in range(r.choice([0, 0, 1, 3, 8]))}) if len(back) > 1 else []
            bounds = [0, *cuts, len(back)]
            for a, b in zip(bounds, bounds[1:]):
                if srv.state is connection.ConnectionState.CLOSED:
                    break
                pump(events.DataReceived(srv, back[a:b]))
    o["stalled_until_close"] = False
    if top.tunnel_state.name == "ESTABLISHING" and not inbox and not peer.handshaken and srv.state is not connection.ConnectionState.CLOSED:
        # Nothing is in flight and the handshake can make no progress (e.g. the hook failed and no ClientHello was ever
        # sent): on a real network the peer or the idle watchdog ends this; deliver that close.
        o["stalled_until_close"] = True
        srv.state = connection.ConnectionState.CLOSED
        pump(events.ConnectionClosed(srv))
    # let the peer see whatever is left (alerts, application data)
    while inbox:
        peer.inc.write(inbox.pop(0))
    peer.step()
    o.update(
        ident=ident, canon=canon, sans=sans, cn=cn, lazy=lazy, max13=max13, completed=list(probe.completed), sent=probe.sent,
        peer_plain=peer.plain, peer_handshaken=peer.handshaken, peer_error=repr(peer.error)[:160] if peer.error else None,
        srv_error=srv.error, srv_tls=srv.tls_established, srv_sni=srv.sni, tunnel_state=top.tunnel_state.name,
        tls_version=srv.tls_version,
    )
    return o


class QuicPeer:
    """In-process aioquic server presenting the cell's chain (certificate objects handed over directly)."""

    def __init__(self, certs, key, clock):
        from aioquic.h3.connection import H3_ALPN
        from aioquic.quic.configuration import QuicConfiguration

        self.clock = clock
        self.cfg = QuicConfiguration(is_client=False, alpn_protocols=list(H3_ALPN))
        self.cfg.certificate = certs[0]
        self.cfg.certificate_chain = list(certs[1:])
        self.cfg.private_key = key
        self.quic = None
        self.handshaken = False
        self.sni_seen = "<no hello>"

    def write(self, data: bytes):
        from aioquic.buffer import Buffer
        from aioquic.quic import events as qe
        from aioquic.quic.connection import QuicConnection
        from aioquic.quic.packet import pull_quic_header

        if self.quic is None:
            header = pull_quic_header(Buffer(data=data), host_cid_length=8)
            self.quic = QuicConnection(configuration=self.cfg, original_destination_connection_id=header.destination_cid)
        self.quic.receive_datagram(data, ("198.51.100.1", 4433), self.clock())
        while ev := self.quic.next_event():
            if isinstance(ev, qe.HandshakeCompleted):
                self.handshaken = True

    def read(self):
        if self.quic is None:
            return []
        return [d for d, _ in self.quic.datagrams_to_send(self.clock())]


def run_quic_cell(cell, r, canonical):
    from mitmproxy.proxy.layers import quic as mquic
    from mitmproxy.proxy.mode_specs import ProxyMode

    cls, idf, mode, trust, insecure = cell
    st = state()
    pki, ta, tctx = st["pki"], st["ta"], st["tctx"]
    if not st.get("quiet_quic"):
        logging.getLogger("quic").disabled = True  # aioquic logs the expected verification failures with tracebacks
        st["quiet_quic"] = True
    ident, canon = identity(idf, None if canonical else r)
    certs, sans, cn = leaf_for(pki, cls, canon, None if canonical else r)
    tctx.options.update(
        ssl_insecure=insecure,
        ssl_verify_upstream_trusted_ca={"cafile": str(pki.cafile_a), "cafile-b": str(pki.cafile_b), "file+dir": str(pki.cafile_a)}.get(trust),
        ssl_verify_upstream_trusted_confdir={"cadir": str(pki.cadir_a), "file+dir": str(pki.cadir_d)}.get(trust),
    )
    now = [1000.0]
    clock = lambda: now[0]  # noqa: E731
    client = connection.Client(
        peername=("198.51.100.7", 51234), sockname=("127.0.0.1", 8080), timestamp_start=1.0, state=connection.ConnectionState.OPEN,
        transport_protocol="udp", proxy_mode=ProxyMode.parse("reverse:quic://upstream.example.test"),
    )
    ctx = context.Context(client, tctx.options)
    srv = ctx.server
    if mode == "quic:preset":
        srv.address = ("203.0.113.9", 443)
        srv.sni = ident
    elif mode == "quic:client.sni":
        srv.address = ("decoy.example.test", 443)
        client.sni = ident  # server.sni is None on entry: quic_start_server derives it from the client's SNI
    else:
        srv.address = (ident, 443)  # server.sni is None on entry: quic_start_server derives it from the address
    srv.peername = ("192.0.2.1", 443)
    srv.transport_protocol = "udp"
    srv.state = connection.ConnectionState.OPEN
    srv.timestamp_start = 1.0
    peer = QuicPeer(certs, pki.leaf_key, clock)
    top = mquic.ServerQuicLayer(ctx, time=clock)
    top.child_layer = Probe(ctx, lazy=False)
    top.child_layer.quic_sink = True
    o = {"established": 0, "failed": 0, "closed": 0, "start_hooks": 0, "logs": [], "to_peer": 0, "steps": 0, "addon_errors": [], "failed_err": None}
    wakeups = []
    pending = [events.Start()]

    def pump():
        while pending:
            e = pending.pop(0)
            for cmd in top.handle_event(e):
                o["steps"] += 1
                if o["steps"] > 5000:
                    raise RuntimeError("driver step budget exceeded")
                if isinstance(cmd, mquic.QuicStartServerHook):
                    o["start_hooks"] += 1
                    cap = _LogCapture()
                    logging.getLogger("mitmproxy.addonmanager").addHandler(cap)
                    try:
                        tctx.master.addons.trigger(cmd)  # production dispatch of the real TlsConfig.quic_start_server
                    finally:
                        logging.getLogger("mitmproxy.addonmanager").removeHandler(cap)
                    o["addon_errors"].extend(cap.msgs)
                    pending.append(events.HookCompleted(cmd))
                elif isinstance(cmd, tls.TlsEstablishedServerHook):
                    o["established"] += 1
                    pending.append(events.HookCompleted(cmd))
                elif isinstance(cmd, tls.TlsFailedServerHook):
                    o["failed"] += 1
                    o["failed_err"] = cmd.data.conn.error
                    pending.append(events.HookCompleted(cmd))
                elif isinstance(cmd, commands.StartHook):
                    pending.append(events.HookCompleted(cmd))
                elif isinstance(cmd, commands.SendData):
                    if cmd.connection is srv and not o["closed"]:
                        o["to_peer"] += len(cmd.data)
                        peer.write(cmd.data)
                elif isinstance(cmd, commands.RequestWakeup):
                    wakeups.append(cmd)
                elif isinstance(cmd, commands.CloseConnection):
                    if cmd.connection is srv:
                        srv.state = connection.ConnectionState.CLOSED
                        o["closed"] += 1
                elif isinstance(cmd, commands.Log):
                    o["logs"].append(cmd.message[:160])

    pump()
    for _ in range(60):
        if o["established"] or o["failed"]:
            break
        now[0] += 0.05
        dgrams = peer.read()
        if dgrams:
            for d in dgrams:
                pending.append(events.DataReceived(srv, d))
            pump()
        elif wakeups:
            now[0] += 60  # nothing in flight: let timers fire (aioquic reports a termination on the next timer)
            pending.append(events.Wakeup(wakeups.pop(0)))
            pump()
        else:
            break
    # give the peer the client's last flight (Finished) so that its view of the handshake is final
    for _ in range(3):
        now[0] += 0.05
        for d in peer.read():
            if srv.state is not connection.ConnectionState.CLOSED:
                pending.append(events.DataReceived(srv, d))
        pump()
    o.update(
        ident=ident, canon=canon, sans=sans, cn=cn, lazy=False, max13=True, completed=[None] if o["established"] else [srv.error], sent=0,
        peer_plain=b"", peer_handshaken=peer.handshaken, peer_error=None, srv_error=srv.error, srv_tls=srv.tls_established, srv_sni=srv.sni,
        tunnel_state=top.tunnel_state.name, tls_version=srv.tls_version, stalled_until_close=False, quic=True,
    )
    return o


def classify(cell, kind):
    """Mechanism from the cell coordinates only."""
    cls, idf, src, trust, insecure = cell
    if kind == "raises" and src.startswith("quic:") and cls == "ip-as-dnsname" and not insecure:
        return "quic-upstream-cert-dnsname-is-ip-literal"
    return None


def mode_none_on_entry(src):
    return src in ("quic:address", "quic:client.sni")


def judge(ctx, cell, o, position=None):
    cls, idf, src, trust, insecure = cell
    exp = expected(cls, trust, insecure, idf, src)
    if cls in ("certifi-root", "ipsan-certifi-root", "dir-only-root") and not insecure:
        ctx.count("foreign_anchor_vs_trust_config")  # public-bundle / directory-only CA against each trust configuration
    w = {
        "cell": {"class": cls, "identity_form": idf, "identity_source": src, "trust": trust, "ssl_insecure": insecure},
        **({"position": position} if position else {}),
        "identity": o["ident"], "leaf_sans": o["sans"], "leaf_cn": o["cn"], "flow": "lazy" if o["lazy"] else "eager",
        "peer_tls13": o["max13"], "stalled_until_peer_close": o["stalled_until_close"], "expected": {True: "accept", False: "reject", None: "either"}[exp], "addon_errors": o["addon_errors"][:2],
        "observed": {k: o[k] for k in ("completed", "established", "failed", "closed", "srv_error", "srv_tls", "peer_handshaken", "peer_error", "tunnel_state", "tls_version")},
        "peer_plaintext": o["peer_plain"][:64], "logs": o["logs"][:3],
    }
    if idf in FAULT_FORMS:
        ctx.count("hook_fault_cells")
        ctx.seen("hook_fault_outcomes", f"{idf}: hook error={bool(o['addon_errors'])} established={o['established']} failed={o['failed']} stalled_until_close={o['stalled_until_close']}")
    elif o["addon_errors"]:
        ctx.violation("tls_start_server-raises", w, classify(cell, "hook-raises"))
        return "hook-raises"
    quic = src.startswith("quic:")
    if quic:
        ctx.count("quic_cells")
        if mode_none_on_entry(src):
            ctx.count("quic_sni_none_on_entry")
    ok = o["completed"] == [None] and o["established"] == 1 and o["srv_tls"]
    if exp is None:
        ctx.count("no_requirement_cells")
        if o["peer_plain"] and not ok:
            ctx.violation("application-data-without-established-connection", w, classify(cell, "appdata"))
        return "accept" if ok else "reject"
    if exp:
        ctx.count("accept_when_expected")
        if insecure:
            ctx.count("insecure_waives")
        if not ok:
            ctx.violation("rejects-acceptable-server" if not insecure else "insecure-handshake-fails", w, classify(cell, "rejects"))
            return "reject"
        ctx.count("appdata_delivered")
        if (o["peer_plain"] != TAG and not quic) or o["failed"] != 0 or not o["peer_handshaken"]:
            ctx.violation("accepted-but-data-or-hooks-wrong", w, classify(cell, "accept-inconsistent"))
        return "accept"
    # must be rejected
    ctx.count("reject_when_expected")
    verdict = "reject"
    if ok or o["established"] or o["srv_tls"]:
        ctx.violation("accepts-server-that-must-be-rejected", w, classify(cell, "accepts"))
        verdict = "accept"
    ctx.count("no_appdata_on_reject")
    if quic and o["peer_handshaken"]:
        ctx.violation("rejected-quic-server-saw-completed-handshake", w, classify(cell, "appdata"))
    if o["peer_plain"]:
        ctx.violation("application-data-reached-rejected-server", w, classify(cell, "appdata"))
    if verdict == "reject":
        ctx.count("failure_signalled")
        err = o["completed"][0] if o["completed"] else None
        if not (len(o["completed"]) == 1 and isinstance(err, str) and err and o["failed"] == 1 and o["srv_error"] and o["closed"] >= 1):
            ctx.violation("failure-not-signalled", w, classify(cell, "failure-signal"))
        elif "ertificate" not in (o["srv_error"] or ""):
            ctx.seen("non_certificate_reject_reasons", f"{cls}: {o['srv_error'][:60]}")
    return verdict


def run(ctx):
    cells = matrix()
    allcells = full_product()
    ctx.extra["matrix_cells_total"] = len(cells)
    try:
        for i in ctx.cases():
            r = ctx.rng
            k = i * ctx.nworkers + ctx.worker
            canonical = k < len(cells)
            cell = cells[k] if k < len(cells) else r.choice(allcells)
            fresh = cell[3] == "cafile-fresh"
            o_first = None
            try:
                if fresh:
                    # first connection of a fresh context, then the identical connection again from the (now cached) context
                    fp = fresh_cafile(state()["pki"])
                    rs = r.getstate()
                    o_first = run_cell(cell, r, canonical, fresh_path=fp)
                    r.setstate(rs)
                    o = run_cell(cell, r, canonical, fresh_path=fp)
                    fp.unlink()
                else:
                    o = run_cell(cell, r, canonical)
            except Exception as e:  # noqa -- an exception escaping the layer/driver
                import traceback

                from vf.core import exc_site

                ctx.violation(f"layer-raises:{type(e).__name__}@{exc_site(e)}", {"cell": list(cell), "tb": traceback.format_exc()[-1200:]}, classify(cell, "raises"))
                ctx.case(("raise", *cell), True, {"cell": list(cell)})
                continue
            if fresh:
                ctx.count("first_connection_of_fresh_context")
                v_first = judge(ctx, cell, o_first, position="first connection of a fresh context")
                ctx.count("later_connection_same_context")
                verdict = judge(ctx, cell, o, position="second connection of the same context")
                if v_first != verdict:
                    ctx.violation("verdict-depends-on-connection-order", {"cell": list(cell), "identity": o["ident"], "leaf_sans": o["sans"], "leaf_cn": o["cn"], "first": v_first, "later": verdict}, classify(cell, "order"))
            else:
                verdict = judge(ctx, cell, o)
            if canonical:
                ctx.count("matrix_cells_done")
                sig = ("matrix", *cell)
            else:
                sig = ("random", *cell, "lazy" if o["lazy"] else "eager", "1.3" if o["max13"] else "1.2")
            ctx.seen("reject_reasons", (o["srv_error"] or "-")[:70])
            ctx.case(sig, True, {"cell": list(cell), "identity": o["ident"], "sans": o["sans"], "cn": o["cn"], "verdict": verdict, "err": o["srv_error"]})
    finally:
        if _STATE:
            _STATE["pki"].cleanup()
