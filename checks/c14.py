"""C14 -- TLS interception is byte-transparent after the handshake.

Real ServerTLSLayer / ClientTLSLayer (sans-io, own scheduling loop) with a probe child layer (a real Layer subclass)
that records every DataReceived / ConnectionClosed and sends tagged plaintext when kicked.  The hooks are answered by
the real TlsConfig addon (throw-away confdir -> real CA and leaf for the client side; upstream verification against a
throw-away root).  Peers are Python ssl.SSLObject endpoints over MemoryBIO: a TLS client in front of the
ClientTLSLayer and a TLS server behind the ServerTLSLayer.  Everything nondeterministic is a scheduled action: the
next TCP segment of a peer's ciphertext (re-cut: 1 byte ... whole buffer), completion of a hook / OpenConnection, the
next step of the application plan (peer write, probe send, close_notify, EOF).

Monitors (tagged streams vf/ref/c14_tagstream.py decide loss/dup/reorder):
  c2p / s2p    concatenation of DataReceived.data at the probe == plaintext written by the client / server peer
  p2c / p2s    plaintext decrypted by the client / server peer == what the probe sent on that connection
  close_after_data   when ConnectionClosed(conn) reaches the probe after a close_notify, all plaintext written before it
                     has been delivered; and it does arrive once the alert record is delivered
  eof_after_data     peer EOF without close_notify: ConnectionClosed arrives, preceded by the plaintext of every
                     completely delivered record (prefix of the stream if the cut is inside a record)
  first_flight       application data sent in the same flight as the peer's Finished is delivered
  close_exactly_once a peer's close (close_notify and/or FIN) reaches the inner layer exactly once; start_first: Start precedes all
A fixed matrix runs first in both tiers: (stack, flow, side) x TLS 1.2/1.3 x what the peer appends to its last handshake
flight {nothing, data, data+close_notify, close_notify, data+FIN, close_notify+FIN, data+close_notify+FIN, FIN} x segmentation
{one segment, one record per segment, byte-wise}; see the class table above matrix_specs().
(the inner layer may also half-close a connection in the middle: the peer's later bytes must still arrive)
"""
from __future__ import annotations

import atexit
import shutil
import ssl
import tempfile
from dataclasses import dataclass

from mitmproxy import connection
from mitmproxy.addons import tlsconfig
from mitmproxy.addons.proxyserver import Proxyserver
from mitmproxy.connection import ConnectionState
from mitmproxy.proxy import commands
from mitmproxy.proxy import context
from mitmproxy.proxy import events
from mitmproxy.proxy import layer
from mitmproxy.proxy import tunnel
from mitmproxy.proxy.layers import tls
from mitmproxy.test import taddons

from vf.core import Inconclusive
from vf.core import exc_site
from vf.gen.c15_pki import Pki
from vf.ref import c14_tagstream as TS

PROPERTY = "C14"
LEVEL = "exploration"
ENGINE = "sansio"
TECHNIQUE = "real OpenSSL peers in memory + tagged plaintext streams; random record sizing, TCP re-segmentation and schedules"
BUDGET = {"quick": (500, 10), "thorough": (20_000, 180)}
WORKERS = {"quick": 4, "thorough": 16}
REQUIRED = ["c2p", "s2p", "p2c", "p2s", "close_after_data.client", "close_after_data.server", "eof_after_data", "first_flight", "tls12", "tls13", "coalesced_matrix", "coalesced_behind_handshake_flight", "close_exactly_once", "start_first"]
RULE = (
    "case = (stack in {client+server TLS, client TLS only, server TLS only}, connection flow in {server connected before Start, "
    "opened by the ClientHello hook (eager), opened by the inner layer (lazy)}, TLS 1.2 / 1.3 per peer, application plan: 4-14 steps of "
    "peer writes (1 B ... 40 kB, cut anywhere in the tagged stream), probe sends, writes right behind the Finished flight, a close "
    "(close_notify by client and/or server, EOF without close_notify, EOF inside a record), schedule: ciphertext re-cut into TCP "
    "segments (1 byte, small, record-sized, whole buffer), hook/open completions delayed at random); distinct = (stack, flow, "
    "versions, segmentation class, single-/multi-record writes, interleaving class, close kind, data behind Finished); non-trivial iff some direction carried "
    ">= 2 TLS records in >= 2 TCP segments"
)
ASSUMPTIONS = [
    "peers are OpenSSL endpoints (Python ssl); records are whatever OpenSSL produces for writes of 1 B ... 40 kB (<= 16 kB each)",
    "bytes of a record that was not completely delivered before a transport EOF need not be delivered (truncation)",
    "the probe only sends on a connection it may write to (not after it closed it, not before it is connected)",
    "alerts other than close_notify cannot be produced by the peers (Python ssl)",
]
LEVEL_TEXT = (
    "Exploration: hundreds (quick) to tens of thousands (thorough) of real in-memory TLS 1.2/1.3 sessions through the real TLS layers "
    "with generated write sizes, segmentations and schedules; tagged streams make every run decidable exactly (equality of byte "
    "streams and ordering of the close). Record sizing is OpenSSL's, so exotic record layouts (empty records, coalesced alerts from "
    "other stacks) are not produced."
)
LEVEL_NOTE = "trusted: Python ssl/OpenSSL as peers, vf/ref/c14_tagstream.py, the scheduling loop of this module (models ConnectionHandler: one ConnectionClosed per transport EOF)"

HOST = "c14.test"


@dataclass
class Kick(events.Event):
    """Harness event travelling down the real layer stack: tells the probe to send `size` stream bytes on a connection."""

    target: str  # "c" | "s"
    size: int
    close: bool = False


class Par(layer.Layer):
    """Stand-in for the mode layer above a ClientTLSLayer (client-only stack)."""

    child: layer.Layer

    def _handle_event(self, ev):
        yield from self.child.handle_event(ev)


class Probe(layer.Layer):
    def __init__(self, ctx, run):
        super().__init__(ctx)
        self.run = run
        self.got = {"c": bytearray(), "s": bytearray()}
        self.events_seen = []  # ("data", side, nbytes, total) / ("close", side, total)
        self.sent = {"c": bytearray(), "s": bytearray()}
        self.open_err = None
        self.opened = False
        self.half_closed = []
        self.started = 0
        self.kicks = 0

    def side(self, conn):
        return "c" if conn is self.context.client else "s"

    def _handle_event(self, ev):
        run = self.run
        if isinstance(ev, events.Start):
            self.started += 1
            self.events_seen.append(("start",))
        elif isinstance(ev, events.DataReceived):
            s = self.side(ev.connection)
            self.got[s] += ev.data
            self.events_seen.append(("data", s, len(ev.data), len(self.got[s])))
        elif isinstance(ev, events.ConnectionClosed):
            s = self.side(ev.connection)
            self.events_seen.append(("close", s, len(self.got[s])))
            run.on_probe_close(s, len(self.got[s]))
        elif isinstance(ev, Kick):
            self.kicks += 1
            conn = self.context.client if ev.target == "c" else self.context.server
            if ev.target == "s" and run.spec["flow"] == "lazy" and conn.state is ConnectionState.CLOSED and not self.opened:
                self.opened = True  # lazy flow: the inner layer opens the upstream connection once, on demand
                err = yield commands.OpenConnection(conn)
                if err:
                    self.open_err = err
            if ev.close:
                # half-close by the inner layer (HTTP/1.0-style): reading from that peer must go on undisturbed
                if conn.state is ConnectionState.OPEN:
                    self.half_closed.append(ev.target)
                    yield commands.CloseTcpConnection(conn, half_close=True)
            elif conn.state & ConnectionState.CAN_WRITE and (ev.target == "c" or self.open_err is None):
                data = run.streams["p2" + ev.target].take(ev.size)
                self.sent[ev.target] += data
                yield commands.SendData(conn, data)


# ---------------------------------------------------------------------------------------------
# peers
# ---------------------------------------------------------------------------------------------

class TlsPeer:
    def __init__(self, obj, inc, out):
        self.obj, self.inc, self.out = obj, inc, out
        self.handshaken = False
        self.error = None
        self.plain = bytearray()
        self.got_close_notify = False
        self.sent_close_notify = False
        self.version = None

    def progress(self):
        """Drive the handshake / read plaintext after new ciphertext arrived."""
        if self.error:
            return
        if not self.handshaken:
            try:
                self.obj.do_handshake()
                self.handshaken = True
                self.version = self.obj.version()
            except ssl.SSLWantReadError:
                return
            except (ssl.SSLError, OSError) as e:
                self.error = repr(e)[:200]
                return
        while not self.got_close_notify:
            try:
                d = self.obj.read(65536)
            except ssl.SSLWantReadError:
                break
            except ssl.SSLZeroReturnError:
                self.got_close_notify = True
                break
            except (ssl.SSLError, OSError) as e:
                self.error = repr(e)[:200]
                break
            if not d:
                self.got_close_notify = True
                break
            self.plain += d

    def write(self, data: bytes):
        n = 0
        while n < len(data):
            n += self.obj.write(data[n:])

    def close_notify(self):
        try:
            self.obj.unwrap()
        except ssl.SSLWantReadError:
            pass
        except (ssl.SSLError, OSError) as e:
            self.error = repr(e)[:200]
        self.sent_close_notify = True


_W = {}


def world():
    if not _W:
        pki = Pki(prefix="vf-c14-")
        conf = tempfile.mkdtemp(prefix="vf-c14-conf-", dir="/tmp")

        def cleanup():
            pki.cleanup()
            shutil.rmtree(conf, ignore_errors=True)

        atexit.register(cleanup)
        ta = tlsconfig.TlsConfig()
        tctx = taddons.context(Proxyserver(), ta)  # Proxyserver only contributes its options (connection_strategy)
        tctx.configure(ta, confdir=conf, ssl_verify_upstream_trusted_ca=str(pki.cafile_a))
        leaf = pki.leaf(cn="vf c14 origin", sans=[f"dns:{HOST}"], issuer="root_a")
        chain = pki.chain_file([leaf])
        cctx, sctx = {}, {}
        for v, mx in (("1.2", ssl.TLSVersion.TLSv1_2), ("1.3", ssl.TLSVersion.TLSv1_3)):
            c = ssl.SSLContext(ssl.PROTOCOL_TLS_CLIENT)
            c.load_verify_locations(conf + "/mitmproxy-ca-cert.pem")
            c.maximum_version = mx
            cctx[v] = c
            s = ssl.SSLContext(ssl.PROTOCOL_TLS_SERVER)
            s.load_cert_chain(str(chain))
            s.maximum_version = mx
            sctx[v] = s
        _W.update(pki=pki, conf=conf, ta=ta, tctx=tctx, cctx=cctx, sctx=sctx, cleanup=cleanup)
    return _W


# ---------------------------------------------------------------------------------------------
# one run
# ---------------------------------------------------------------------------------------------

class Stuck(Exception):
    pass


class Run:
    def __init__(self, r, spec):
        w = world()
        self.r = r
        self.spec = spec
        self.ta = w["ta"]
        stack, flow = spec["stack"], spec["flow"]
        w["tctx"].options.connection_strategy = "eager" if flow in ("preconnected", "hello-opens") else "lazy"
        self.client = connection.Client(peername=("198.51.100.7", 51234), sockname=("192.0.2.1", 8080), timestamp_start=1.0, state=ConnectionState.OPEN)
        self.ctx = context.Context(self.client, w["tctx"].options)
        self.server = self.ctx.server
        self.server.address = (HOST, 443)
        self.has_c = stack in ("both", "client")
        self.has_s = stack in ("both", "server")
        self.probe = None
        if stack == "both":
            self.top = tls.ServerTLSLayer(self.ctx)
            cl = tls.ClientTLSLayer(self.ctx)
            self.top.child_layer = cl
            self.probe = cl.child_layer = Probe(self.ctx, self)
        elif stack == "client":
            self.top = Par(self.ctx)
            cl = tls.ClientTLSLayer(self.ctx)
            self.top.child = cl
            self.probe = cl.child_layer = Probe(self.ctx, self)
        else:
            self.top = tls.ServerTLSLayer(self.ctx)
            self.probe = self.top.child_layer = Probe(self.ctx, self)
        self.streams = {d: TS.Stream(d, r) for d in ("c2p", "s2p", "p2c", "p2s")}
        self.wire = {"c": bytearray(), "s": bytearray()}  # ciphertext from the peer not yet delivered to the proxy
        self.blobs = {"c": [], "s": []}  # (ciphertext end offset, plaintext end offset) per peer write, absolute
        self.wire_total = {"c": 0, "s": 0}  # ciphertext bytes ever produced
        self.delivered = {"c": 0, "s": 0}  # ciphertext bytes delivered to the proxy
        self.segments = {"c": 0, "s": 0}
        self.writes = {"c": 0, "s": 0}
        self.to_peer = {"c": 0, "s": 0}
        self.pending = []
        self.hooks = []
        self.logs = []
        self.crash = None
        self.steps = 0
        self.closes = {"c": [], "s": []}  # probe-side ConnectionClosed: bytes of plaintext delivered before
        self.close_notify_at = {"c": None, "s": None}  # plaintext length written before close_notify, ciphertext offset of its end
        self.eof_fed = {"c": False, "s": False}
        self.eof_info = {}
        self.server_closed_by_probe = False
        self.coalesced_behind = {}
        self.first_flight = {"c": None, "s": None}  # plaintext bytes written while the Finished flight was still undelivered
        self.peer = {}
        if self.has_c:
            inc, out = ssl.MemoryBIO(), ssl.MemoryBIO()
            self.peer["c"] = TlsPeer(w["cctx"][spec["cver"]].wrap_bio(inc, out, server_hostname=HOST), inc, out)
        if self.has_s and flow == "preconnected":
            self.server.state = ConnectionState.OPEN
            self.server.timestamp_start = 1.0
            self.attach_server()

    def attach_server(self):
        w = world()
        inc, out = ssl.MemoryBIO(), ssl.MemoryBIO()
        self.peer["s"] = TlsPeer(w["sctx"][self.spec["sver"]].wrap_bio(inc, out, server_side=True), inc, out)

    # -- layer I/O ---------------------------------------------------------------------------
    def feed(self, ev):
        self.steps += 1
        if self.steps > 150_000:
            raise Stuck("step budget")
        try:
            for cmd in self.top.handle_event(ev):
                self.on_cmd(cmd)
        except Exception as e:  # noqa
            import traceback

            if self.crash is None:
                self.crash = (type(e).__name__, exc_site(e), traceback.format_exc()[-1000:])

    def side(self, conn):
        return "c" if conn is self.client else "s"

    def on_cmd(self, cmd):
        ta = self.ta
        if isinstance(cmd, commands.StartHook):
            fn = getattr(ta, cmd.name, None)
            if fn is not None:
                fn(*cmd.args())
            self.hooks.append(cmd.name)
            self.pending.append(("hook", cmd))
        elif isinstance(cmd, commands.OpenConnection):
            self.pending.append(("open", cmd))
        elif isinstance(cmd, commands.SendData):
            s = self.side(cmd.connection)
            p = self.peer.get(s)
            if p is None or not (cmd.connection.state & ConnectionState.CAN_WRITE):
                self.logs.append(f"send on unwritable {s}")
                return
            self.to_peer[s] += len(cmd.data)
            p.inc.write(cmd.data)
            was = p.handshaken
            p.progress()
            self.collect(s)
            if p.handshaken and not was:
                self.on_peer_handshaken(s)
        elif isinstance(cmd, commands.CloseConnection):
            s = self.side(cmd.connection)
            half = isinstance(cmd, commands.CloseTcpConnection) and cmd.half_close
            if half:
                cmd.connection.state &= ~ConnectionState.CAN_WRITE
            else:
                cmd.connection.state = ConnectionState.CLOSED
                self.wire[s].clear()
            self.logs.append(f"close {s}")
        elif isinstance(cmd, commands.Log):
            self.logs.append(cmd.message[:160])

    def collect(self, s, plain_end=None):
        """Move what the peer's BIO produced onto the wire; remember blob boundaries of application writes."""
        data = self.peer[s].out.read()
        if data:
            self.wire[s] += data
            self.wire_total[s] += len(data)
        if plain_end is not None:
            self.blobs[s].append((self.wire_total[s], plain_end))

    def on_peer_handshaken(self, s):
        """Application data (and close_notify) in the same flight as the peer's last handshake message."""
        co = self.spec.get("coalesce", {}).get(s)
        if co is not None and self.first_flight[s] is None:
            # is the flight that completes mitmproxy's handshake still undelivered?  (TLS 1.3 client / TLS 1.2 server: yes)
            conn = self.client if s == "c" else self.server
            self.coalesced_behind[s] = len(self.wire[s]) > 0 and not conn.tls_established
            total = 0
            for n in co["data"]:
                total += n
                self.peer_write(s, n)
            self.first_flight[s] = total
            if co["cn"]:
                self.peer_close_notify(s)
            return
        if self.spec["first_flight"][s] and self.first_flight[s] is None:
            n = self.spec["first_flight"][s]
            self.first_flight[s] = n
            self.peer_write(s, n)

    def peer_close_notify(self, s):
        nplain = len(self.streams[s + "2p"].taken)
        self.peer[s].close_notify()
        self.collect(s)
        self.close_notify_at[s] = (nplain, self.wire_total[s])

    def peer_write(self, s, n):
        st = self.streams[s + "2p"]
        data = st.take(n)
        self.peer[s].write(data)
        self.writes[s] += 1
        self.collect(s, plain_end=len(st.taken))

    # -- probe callbacks ---------------------------------------------------------------------
    def on_probe_close(self, s, nplain):
        self.closes[s].append((nplain, self.delivered[s], self.eof_fed[s]))

    # -- scheduling ---------------------------------------------------------------------------
    def seg_size(self, s):
        k = self.spec["seg"][s]
        n = len(self.wire[s])
        r = self.r
        if k == "whole":
            return n
        if k == "records":  # one TLS record per TCP segment
            return 5 + int.from_bytes(self.wire[s][3:5], "big") if n >= 5 else n
        if k == "bytes":
            return 1
        if k == "bytewise":
            return 1 if n < 300 or r.random() < 0.05 else r.choice([1, 2, 3, 5, 1000, n])
        if k == "small":
            return r.choice([1, 2, 5, 17, 64, 100])
        if k == "record":
            return r.choice([5, 6, 1400, 16384 + 22, 16384 + 21])
        return r.choice([1, 1, 3, 29, 500, 1460, 4000, 20000, n])

    def deliver(self, s, upto=None):
        conn = self.client if s == "c" else self.server
        n = min(self.seg_size(s), len(self.wire[s]))
        if upto is not None:
            n = min(n, upto)
        if n <= 0:
            return
        seg = bytes(self.wire[s][:n])
        del self.wire[s][:n]
        self.delivered[s] += n
        self.segments[s] += 1
        self.feed(events.DataReceived(conn, seg))

    def complete(self, i):
        kind, cmd = self.pending.pop(i)
        if kind == "hook":
            self.feed(events.HookCompleted(cmd))
        else:
            conn = cmd.connection
            conn.state = ConnectionState.OPEN
            conn.timestamp_start = 1.0
            if conn is self.server and "s" not in self.peer:
                self.attach_server()
            self.feed(events.OpenConnectionCompleted(cmd, None))

    def can_deliver(self, s):
        conn = self.client if s == "c" else self.server
        return bool(self.wire.get(s)) and conn.state & ConnectionState.CAN_READ and not self.eof_fed[s]

    def background(self):
        """Enabled non-plan actions."""
        acts = [("complete", i) for i in range(len(self.pending))]
        for s in ("c", "s"):
            if s in self.peer and self.can_deliver(s):
                acts.append(("deliver", s))
        return acts

    def do(self, act):
        if act[0] == "complete":
            self.complete(act[1])
        else:
            self.deliver(act[1])

    def settle(self, cond=None, limit=60_000):
        """Run background actions until none is left (or cond() holds)."""
        n = 0
        while True:
            if cond is not None and cond():
                return True
            acts = self.background()
            if not acts or self.crash:
                return cond is None
            n += 1
            if n > limit:
                raise Stuck("settle")
            comp = [a for a in acts if a[0] == "complete"]
            self.do(self.r.choice(comp) if comp and self.r.random() < 0.7 else self.r.choice(acts))

    def established(self, s):
        p = self.peer.get(s)
        conn = self.client if s == "c" else self.server
        return p is not None and p.handshaken and conn.tls_established

    # -- the plan ------------------------------------------------------------------------------
    def step_enabled(self, st):
        k = st[0]
        if k in ("cw", "ccn"):
            return self.established("c") and not self.peer["c"].sent_close_notify
        if k in ("sw", "scn"):
            return self.established("s") and not self.peer["s"].sent_close_notify
        if k in ("ceof", "seof"):
            # a transport EOF in the middle of the handshake is outside the property ("after mitmproxy completes TLS")
            return k[0] not in self.peer and not (k[0] == "s" and self.has_s) or self.established(k[0])
        return True

    def exec_step(self, st):
        k = st[0]
        if k == "cw":
            self.peer_write("c", st[1])
        elif k == "sw":
            self.peer_write("s", st[1])
        elif k == "kick":
            self.feed(Kick(st[1], st[2], close=len(st) > 3))
        elif k in ("ccn", "scn"):
            self.peer_close_notify(k[0])
        elif k in ("ceof", "seof"):
            self.transport_eof(k[0], st[1])

    def transport_eof(self, s, mode):
        """Peer's TCP FIN.  mode 'clean': everything written was delivered first; 'cut': part of the wire is dropped."""
        if self.eof_fed[s] or s not in self.peer:
            return
        conn = self.client if s == "c" else self.server
        if not (conn.state & ConnectionState.CAN_READ) and conn.state is ConnectionState.CLOSED:
            return
        if mode == "clean":
            self.settle(lambda: not self.can_deliver(s))
        else:
            keep = self.r.randrange(len(self.wire[s]) + 1) if self.wire[s] else 0
            target = self.delivered[s] + keep
            guard = 0
            while self.delivered[s] < target and self.can_deliver(s) and guard < 100000:
                guard += 1
                self.deliver(s, upto=target - self.delivered[s])
            self.wire[s].clear()
        if conn.state is ConnectionState.CLOSED:
            return
        self.eof_info[s] = {"mode": mode, "delivered": self.delivered[s], "plain_before": len(self.probe.got[s]), "closes_before": len(self.closes[s])}
        self.eof_fed[s] = True
        conn.state &= ~ConnectionState.CAN_READ
        self.feed(events.ConnectionClosed(conn))

    def go(self):
        r = self.r
        self.feed(events.Start())
        if "c" in self.peer:
            self.peer["c"].progress()  # ClientHello
            self.collect("c")
        plan = list(self.spec["plan"])
        bias = self.spec["plan_bias"]
        idle = 0
        while plan and not self.crash:
            acts = self.background()
            en = self.step_enabled(plan[0])
            if en and (not acts or r.random() < bias):
                self.exec_step(plan.pop(0))
                idle = 0
            elif acts:
                comp = [a for a in acts if a[0] == "complete"]
                self.do(r.choice(comp) if comp and r.random() < self.spec["complete_bias"] else r.choice(acts))
            else:
                idle += 1
                if idle > 3:
                    raise Stuck(f"plan step {plan[0]} never enabled")
            if self.steps > 150_000:
                raise Stuck("steps")
        self.settle()


# ---------------------------------------------------------------------------------------------
# generator
# ---------------------------------------------------------------------------------------------

SIZES = {"tiny": [1, 1, 2, 3], "small": [5, 17, 60, 100], "mid": [500, 1400, 4000], "big": [16384, 16385, 20000, 40000, 70000]}


def gen_spec(r):
    stack = r.choice(["both", "both", "both", "client", "server"])
    if stack == "both":
        flow = r.choice(["preconnected", "hello-opens", "lazy"])
    elif stack == "server":
        flow = r.choice(["preconnected", "lazy"])
    else:
        flow = "none"
    cver = r.choice(["1.2", "1.3"])
    sver = r.choice(["1.2", "1.3"])
    has_c, has_s = stack != "server", stack != "client"
    szc = {d: r.choice(list(SIZES)) for d in ("c", "s", "pc", "ps")}

    def size(d):
        cls = szc[d] if r.random() < 0.7 else r.choice(list(SIZES))
        return r.choice(SIZES[cls])

    n = r.randint(4, 14)
    plan = []
    if flow == "lazy" and has_s:
        plan.append(("kick", "s", size("ps")))
    kinds = []
    if has_c:
        kinds += ["cw", "cw", "kc"]
    if has_s:
        kinds += ["sw", "sw", "ks"]
    for _ in range(n):
        k = r.choice(kinds)
        if k == "cw":
            plan.append(("cw", size("c")))
        elif k == "sw":
            plan.append(("sw", size("s")))
        elif k == "kc":
            plan.append(("kick", "c", size("pc")))
        else:
            plan.append(("kick", "s", size("ps")))
    if flow == "lazy" and has_s:
        r.shuffle(plan)
        # the server peer can only write once the probe has opened the connection
        first_kick = next(i for i, st in enumerate(plan) if st[0] == "kick" and st[1] == "s")
        plan.insert(0, plan.pop(first_kick))
    if r.random() < 0.25:
        side = r.choice([s for s, ok in (("c", has_c), ("s", has_s)) if ok])
        plan.insert(r.randrange(1, len(plan) + 1), ("kick", side, 0, True))
    close = r.choice(["none", "c-notify", "s-notify", "both-notify", "c-eof", "s-eof", "c-cut", "s-cut", "c-notify-then-data", "s-notify-then-data"])
    if not has_c:
        close = close.replace("c-", "s-").replace("both-", "s-")
    if not has_s:
        close = close.replace("s-", "c-").replace("both-", "c-")
    tail = []
    if close in ("c-notify", "both-notify", "c-notify-then-data"):
        tail.append(("ccn",))
    if close in ("s-notify", "both-notify", "s-notify-then-data"):
        tail.append(("scn",))
    if close.endswith("then-data"):
        # the proxy may still write towards a peer that only closed its sending direction
        tail.append(("kick", close[0], size("p" + close[0])))
        tail.append(("kick", close[0], size("p" + close[0])))
    if close.endswith("-eof"):
        tail.append((close[0] + "eof", "clean"))
    if close.endswith("-cut"):
        tail.append((close[0] + "eof", "cut"))
    # every connection finally sees its transport EOF (after a close_notify this must not produce a second close)
    fin = []
    if has_c:
        fin.append(("ceof", "clean"))
    if has_s:
        fin.append(("seof", "clean"))
    r.shuffle(fin)
    ff = {"c": 0, "s": 0}
    if has_c and r.random() < 0.45:
        ff["c"] = size("c")
    if has_s and r.random() < 0.45:
        ff["s"] = size("s")
    segk = ["mixed", "mixed", "whole", "bytewise", "small", "record", "records"]
    coalesce = {}
    if r.random() < 0.2:
        # [last handshake flight | 0-3 writes | close_notify?] produced back to back by the peer
        side = r.choice([s for s, ok in (("c", has_c), ("s", has_s)) if ok])
        cn = r.random() < 0.7
        coalesce[side] = {"data": [size(side) for _ in range(r.choice([0, 1, 1, 2, 3]))], "cn": cn}
        ff[side] = 0
        if cn:
            drop = (side + "w", side + "cn")
            plan = [st for st in plan if st[0] not in drop]
            tail = [st for st in tail if st[0] not in drop]
            close = f"{side}-notify-with-handshake-flight"
    return {
        "coalesce": coalesce,
        "stack": stack, "flow": flow, "cver": cver, "sver": sver, "plan": plan + tail + fin, "close": close,
        "first_flight": ff, "seg": {"c": r.choice(segk), "s": r.choice(segk)}, "sizes": szc,
        "plan_bias": r.choice([0.15, 0.4, 0.7]), "complete_bias": r.choice([0.3, 0.6, 0.9]),
    }


# ---------------------------------------------------------------------------------------------
# fixed matrix: what a peer can put behind the flight that completes the handshake
# ---------------------------------------------------------------------------------------------
# Which flight completes mitmproxy's handshake, and what an (OpenSSL) peer can append to it:
#   client side, TLS 1.3: the client's (CCS,) Finished -- the client is done itself, so data / close_notify / FIN can follow
#   client side, TLS 1.2: the client's CKE, CCS, Finished -- the client still waits for our Finished: only FIN (or nothing)
#   server side, TLS 1.2: the server's (ticket,) CCS, Finished -- the server is done: data / close_notify / FIN can follow
#   server side, TLS 1.3: the server's ServerHello..Finished -- the server still waits for our Finished: only FIN (or nothing)
# (a peer that is not done yet produces the same bytes in its next flight, i.e. on an OPEN tunnel: these are the controls;
#  alerts other than close_notify cannot be produced with Python's ssl and are not part of the matrix)
BEHIND = ["nothing", "data", "data+cn", "cn", "data+fin", "cn+fin", "data+cn+fin", "fin"]
MATRIX_PAIRS = [
    ("client", "none", "c"),
    ("both", "preconnected", "c"), ("both", "preconnected", "s"),
    ("both", "hello-opens", "c"), ("both", "hello-opens", "s"),
    ("both", "lazy", "c"), ("both", "lazy", "s"),
    ("server", "preconnected", "s"), ("server", "lazy", "s"),
]


def matrix_specs():
    out = []
    for stack, flow, side in MATRIX_PAIRS:
        for ver in ("1.2", "1.3"):
            for behind in BEHIND:
                for seg in ("whole", "records", "bytes"):
                    other = "1.3" if ver == "1.2" else "1.2"
                    has_c, has_s = stack != "server", stack != "client"
                    oside = "s" if side == "c" else "c"
                    plan = []
                    if flow == "lazy" and has_s:
                        plan.append(("kick", "s", 5))
                    eofs = [(side + "eof", "clean")]
                    if (oside == "c" and has_c) or (oside == "s" and has_s):
                        eofs.append((oside + "eof", "clean"))
                        kicks = [("kick", oside, 7), ("kick", side, 9)]
                    else:
                        kicks = [("kick", side, 9)]
                    if "fin" in behind:
                        plan += [eofs[0]] + kicks + eofs[1:]
                    else:
                        plan += kicks + eofs
                    out.append({
                        "matrix": (stack, flow, side, ver, behind, seg),
                        "coalesce": {side: {"data": [17, 1400, 3] if "data" in behind else [], "cn": "cn" in behind}},
                        "stack": stack, "flow": flow, "cver": ver if side == "c" else other, "sver": ver if side == "s" else other,
                        "plan": plan, "close": "coalesced:" + behind, "first_flight": {"c": 0, "s": 0},
                        "seg": {side: seg, oside: "whole"}, "sizes": {}, "plan_bias": 1.0, "complete_bias": 1.0,
                    })
    return out


# ---------------------------------------------------------------------------------------------
# oracle
# ---------------------------------------------------------------------------------------------

def classify(spec, kind, direction, diag):
    """Mechanism from the input/history only; none is known on the unchanged tree."""
    return None


def judge(ctx, run: Run):
    spec = run.spec
    w = {k: spec[k] for k in ("stack", "flow", "cver", "sver", "close", "first_flight", "seg", "sizes", "coalesce")}
    w["plan"] = [list(p) for p in spec["plan"]][:24]
    w["hooks"] = run.hooks[:12]
    w["logs"] = run.logs[:6]
    w["probe_events_tail"] = run.probe.events_seen[-8:]

    def bad(kind, direction=None, diag=None, **kw):
        ctx.violation(kind + (f":{diag}" if diag else ""), {**w, "direction": direction, **kw}, classify(spec, kind, direction, diag))

    if run.crash:
        bad(f"layer-raises:{run.crash[0]}@{run.crash[1]}", tb=run.crash[2])
        return
    pr = run.probe
    for s in run.peer:
        p = run.peer[s]
        conn = run.client if s == "c" else run.server
        if p.error or not p.handshaken or not conn.tls_established:
            # the property speaks about sessions whose handshake completed
            ctx.count("handshake_incomplete")
            ctx.seen("handshake_problems", f"{spec['stack']}/{spec['flow']}/{s}: peer_error={p.error} hs={p.handshaken} est={conn.tls_established} conn_error={conn.error}")
            return
        ctx.count("tls12" if p.version == "TLSv1.2" else "tls13")
        name = {"c": "client", "s": "server"}[s]
        # ---- peer -> probe
        d = s + "2p"
        written = bytes(run.streams[d].taken)
        got = bytes(pr.got[s])
        cut = run.eof_info.get(s, {}).get("mode") == "cut"
        ctx.count(d)
        if cut:
            # EOF inside the stream: everything in completely delivered writes must be there, and nothing else
            full = max((pe for ce, pe in run.blobs[s] if ce <= run.eof_info[s]["delivered"]), default=0)
            if not written.startswith(got):
                bad("delivered-plaintext-differs", d, TS.diagnose(d, written, got), expected_len=len(written), got_len=len(got))
            elif len(got) < full:
                bad("delivered-records-lost-before-eof", d, None, must_have=full, got_len=len(got))
        elif got != written:
            bad("delivered-plaintext-differs", d, TS.diagnose(d, written, got), expected_len=len(written), got_len=len(got), got_head=got[:60])
        if run.first_flight[s]:
            ctx.count("first_flight")
            n = run.first_flight[s]
            if got[:n] != written[:n] and not cut:
                bad("first-flight-data-lost", d, TS.diagnose(d, written[:n], got[:n]))
        # ---- probe -> peer
        d = "p2" + s
        sent = bytes(pr.sent[s])
        ctx.count(d)
        if bytes(p.plain) != sent:
            bad("sent-plaintext-differs", d, TS.diagnose(d, sent, bytes(p.plain)), expected_len=len(sent), got_len=len(p.plain))
        # ---- close ordering
        cn = run.close_notify_at[s]
        closes = run.closes[s]
        if cn is not None:
            nplain, cipher_end = cn
            ctx.count(f"close_after_data.{name}")
            if run.delivered[s] >= cipher_end:
                if not closes:
                    bad("close_notify-not-surfaced", s, None)
                elif closes[0][0] != nplain:
                    bad("close-before-all-earlier-plaintext", s, None, plaintext_before_close=closes[0][0], written_before_close_notify=nplain)
                elif closes[0][1] < cipher_end:
                    bad("close-surfaced-before-close_notify-delivered", s, None)
        elif s in run.eof_info:
            ctx.count("eof_after_data")
            info = run.eof_info[s]
            if len(closes) <= info["closes_before"]:
                bad("transport-eof-not-surfaced", s, None)
            elif closes[info["closes_before"]][0] != len(got):
                bad("data-delivered-after-close", s, None)
        if cn is not None or s in run.eof_info:
            # a peer closes once (close_notify and/or FIN): the inner layer is told exactly once
            ctx.count("close_exactly_once")
            if len(closes) > 1:
                bad("close-delivered-twice", s, None, closes=[c[0] for c in closes], eof_fed=run.eof_fed[s])
    if pr.started != 1:
        bad("probe-start-count", None, None, started=pr.started)
    ctx.count("start_first")
    if pr.events_seen and pr.events_seen[0] != ("start",):
        bad("event-delivered-before-start", None, None, first_events=pr.events_seen[:4])
    nk = sum(1 for st in spec["plan"] if st[0] == "kick")
    ctx.count("queued_events_replayed")
    if pr.kicks != nk:
        bad("events-for-the-inner-layer-lost-or-duplicated", None, None, kicks_fed=nk, kicks_seen=pr.kicks)


def features(run: Run):
    spec = run.spec
    multi = []
    for s in run.peer:
        multi.append(run.writes[s] >= 2 and run.segments[s] >= 2)
    inter = "mixed" if sum(1 for st in spec["plan"] if st[0] in ("cw", "sw")) and sum(1 for st in spec["plan"] if st[0] == "kick") else "oneway"
    segs = {spec["seg"][s] for s in run.peer}
    segc = "1byte" if "bytewise" in segs else "whole" if segs == {"whole"} else "record" if "record" in segs else "mixed"
    big = any(st[0] in ("cw", "sw") and st[1] > 16384 for st in spec["plan"]) or any(v > 16384 for v in spec["first_flight"].values())
    sig = (
        spec["stack"], spec["flow"], spec["cver"] if run.has_c else "-", spec["sver"] if run.has_s else "-",
        segc, "multi-record-writes" if big else "single-record-writes", inter, spec["close"],
        "data-behind-finished" if any(run.first_flight.values()) else "-",
    )
    return sig, any(multi)


def run(ctx):
    n_cases = n_undecided = 0
    matrix = matrix_specs()
    ctx.extra["matrix_cells"] = len(matrix)
    try:
        for i in ctx.cases():
            n_cases += 1
            r = ctx.rng
            k = i * ctx.nworkers + ctx.worker
            spec = matrix[k] if k < len(matrix) else gen_spec(r)
            rn = Run(r, spec)
            try:
                rn.go()
            except Stuck as e:
                ctx.count("stuck_cases")
                n_undecided += 1
                ctx.seen("stuck", f"{spec['stack']}/{spec['flow']}: {e} crash={rn.crash and rn.crash[:2]} logs={rn.logs[-2:]}")
                if rn.crash:
                    judge(ctx, rn)
                ctx.case(("stuck", spec["stack"], spec["flow"]), nontrivial=False)
                continue
            judge(ctx, rn)
            sig, nt = features(rn)
            if "matrix" in spec:
                side = spec["matrix"][2]
                behind = bool(rn.coalesced_behind.get(side))
                ctx.count("coalesced_matrix")
                if behind:
                    ctx.count("coalesced_behind_handshake_flight")
                ctx.seen("matrix_classes", f"{side}-side TLS {spec['matrix'][3]}: peer output {'shares the flight that completes the handshake' if behind else 'goes out after the handshake (control)'}")
                sig, nt = ("matrix", *spec["matrix"], behind), True
            ctx.seen("hook_sequences", ",".join(rn.hooks))
            ctx.case(
                sig, nontrivial=nt,
                sample={
                    "stack": spec["stack"], "flow": spec["flow"], "cver": spec["cver"], "sver": spec["sver"], "plan": [list(p) for p in spec["plan"]],
                    "segments": rn.segments, "peer_writes": rn.writes, "close": spec["close"], "probe_events": rn.probe.events_seen[:12],
                },
            )
        n_undecided += ctx.counters.get("handshake_incomplete", 0)
        if n_cases >= 20 and n_undecided * 10 > n_cases:
            # sessions that never reach the post-handshake phase decide nothing: do not report "held"
            raise Inconclusive(f"{n_undecided} of {n_cases} sessions never completed their handshakes")
    finally:
        if _W:
            _W["cleanup"]()
